"""C15  Python export reconstructs an identical engine.

1. TLC: spec/MC_PyRepr - on the engines of the component-wise enumeration of MC_FllSyntax (every term class x
   parameter pattern x height class, activation methods, defuzzifiers, operators, flags, weights, shapes) and on
   whole engines from a case file, under the four alias settings: Eval(Tree(e, alias)) = Canon(e), i.e. the
   constructor-call tree (class prefix by the alias rule, positional / keyword arguments in constructor order,
   arguments dropped at their defaults, inf / nan / array as library names) holds the whole engine.  Canary: a
   representation that drops `enabled=False` must fail.
2. spec -> code: each engine is built with constructors; under each alias repr(engine) is parsed with `ast` and
   compared node for node with the specification's tree (numbers by value); the library's import statement and the
   representation are executed in a fresh namespace; the rebuilt engine's repr and FLL export must equal the
   original's and its outputs must be bit-identical; the same for every component on its own (variables, terms,
   rule blocks, rules, operators, defuzzifiers, activation methods) against the corresponding sub-tree; and for
   PythonExporter plain / encapsulated, formatted (black) or not.
"""
from __future__ import annotations

import ast
import json
import math
import random

from . import c14, core, fll
from .tlc import MachineryError, write_cfg

HEAD = "SPECIFICATION Spec\nCONSTANTS FromFile = {ff}\n  Emit = {e}\n  CrossLocks = FALSE\n  DropDisabled = {c}\n  Decs = {d}\n"


def dotted(n):
    if isinstance(n, ast.Name):
        return n.id
    if isinstance(n, ast.Attribute):
        return dotted(n.value) + "." + n.attr
    raise ValueError(ast.dump(n))


def node(n):
    """ast expression -> the node shape of spec/PyRepr.tla"""
    if isinstance(n, ast.Call):
        return {"k": "call", "fn": dotted(n.func), "pos": [node(a) for a in n.args], "kw": [{"name": k.arg, "val": node(k.value)} for k in n.keywords]}
    if isinstance(n, ast.Constant):
        v = n.value
        if v is None:
            return {"k": "none"}
        if isinstance(v, bool):
            return {"k": "bool", "b": v}
        if isinstance(v, str):
            return {"k": "str", "s": v}
        if isinstance(v, int):
            return {"k": "int", "i": v}
        if isinstance(v, float):
            return {"k": "num", "x": v}
    if isinstance(n, ast.UnaryOp) and isinstance(n.op, ast.USub):
        a = node(n.operand)
        if a["k"] == "num":
            return {"k": "num", "x": -a["x"]}
        if a["k"] == "int":
            return {"k": "int", "i": -a["i"]}
        return {"k": "neg", "a": a}
    if isinstance(n, (ast.Name, ast.Attribute)):
        return {"k": "name", "id": dotted(n)}
    if isinstance(n, ast.Dict):
        return {"k": "dict", "items": [{"key": k.value, "val": node(v)} for k, v in zip(n.keys, n.values)]}
    if isinstance(n, ast.List):
        return {"k": "list", "items": [node(x) for x in n.elts]}
    raise ValueError(f"unexpected syntax in a representation: {ast.dump(n)[:200]}")


def diff(want, got, dec, approx, path="repr"):
    """first difference between the specification's tree and the parsed representation, or None"""
    if want["k"] != got["k"]:
        return f"{path}: expected {want['k']} {json.dumps(want)[:80]}, found {got['k']} {json.dumps(got)[:80]}"
    k = want["k"]
    if k == "call":
        if want["fn"] != got["fn"]:
            return f"{path}: calls {got['fn']}, expected {want['fn']}"
        if len(want["pos"]) != len(got["pos"]):
            return f"{path} {want['fn']}: {len(got['pos'])} positional arguments, expected {len(want['pos'])}"
        for i, (a, b) in enumerate(zip(want["pos"], got["pos"])):
            d = diff(a, b, dec, approx, f"{path}>{want['fn'].split('.')[-1]}[{i}]")
            if d:
                return d
        wn, gn = [x["name"] for x in want["kw"]], [x["name"] for x in got["kw"]]
        if wn != gn:
            return f"{path} {want['fn']}: keywords {gn}, expected {wn}"
        for a, b in zip(want["kw"], got["kw"]):
            d = diff(a["val"], b["val"], dec, approx, f"{path}>{want['fn'].split('.')[-1]}.{a['name']}")
            if d:
                return d
        return None
    if k == "num":
        x, y = fll.to_float(want["n"], dec), got["x"]
        if approx:
            ok = abs(x - y) <= 0.5000001 * 10 ** -dec
        else:
            ok = x == y and math.copysign(1, x) == math.copysign(1, y)
        return None if ok else f"{path}: number {y!r}, expected {x!r}"
    if k == "list":
        if len(want["items"]) != len(got["items"]):
            return f"{path}: list of {len(got['items'])}, expected {len(want['items'])}"
        for i, (a, b) in enumerate(zip(want["items"], got["items"])):
            d = diff(a, b, dec, approx, f"{path}[{i}]")
            if d:
                return d
        return None
    if k == "neg":
        return diff(want["a"], got["a"], dec, approx, path + ">-")
    if k == "dict":      # a mapping: the order of its items carries no meaning (reprlib prints them sorted)
        if sorted(x["key"] for x in want["items"]) != sorted(x["key"] for x in got["items"]):
            return f"{path}: keys {[x['key'] for x in got['items']]}, expected {[x['key'] for x in want['items']]}"
        for a, b in zip(sorted(want["items"], key=lambda x: x["key"]), sorted(got["items"], key=lambda x: x["key"])):
            d = diff(a["val"], b["val"], dec, approx, f"{path}{{{a['key']}}}")
            if d:
                return d
        return None
    key = {"str": "s", "int": "i", "bool": "b", "name": "id"}.get(k)
    if key and want[key] != got[key]:
        return f"{path}: {got[key]!r}, expected {want[key]!r}"
    return None


def unordered(e):
    """the own variables of a Function term are a mapping: compare them in a canonical order"""
    e = json.loads(json.dumps(e))
    for v in e["inputs"] + e["outputs"]:
        for t in v["terms"]:
            t["fv"] = sorted(t.get("fv", []), key=lambda x: x["n"])
    return e


def kw(tree, name):
    return next(x["val"] for x in tree["kw"] if x["name"] == name)


def components(real, tree):
    """(label, real object, sub-tree) for every component of the engine"""
    res = []
    for kind, objs in (("input_variables", real.input_variables), ("output_variables", real.output_variables)):
        for v, vt in zip(objs, kw(tree, kind)["items"]):
            res.append((kind[:-1], v, vt))
            for t, tt in zip(v.terms, kw(vt, "terms")["items"]):
                res.append(("term:" + type(t).__name__, t, tt))
            if kind == "output_variables":
                res.append(("aggregation", v.aggregation, kw(vt, "aggregation")))
                res.append(("defuzzifier", v.defuzzifier, kw(vt, "defuzzifier")))
    for b, bt in zip(real.rule_blocks, kw(tree, "rule_blocks")["items"]):
        res.append(("rule_block", b, bt))
        for nm in ("conjunction", "disjunction", "implication", "activation"):
            res.append((nm, getattr(b, nm), kw(bt, nm)))
        for r, rt in zip(b.rules, kw(bt, "rules")["items"]):
            res.append(("rule", r, rt))
    return res


def shorthand(e):
    """Triangle(left, top, nan) and Trapezoid(a, b, nan, nan) are read by the constructors as their two-vertex short forms"""
    for v in e["inputs"] + e["outputs"]:
        for t in v["terms"]:
            if t["cls"] == "Triangle" and t["p"][2]["k"] == "nan":
                return "Triangle"
            if t["cls"] == "Trapezoid" and t["p"][2]["k"] == "nan" and t["p"][3]["k"] == "nan":
                return "Trapezoid"
    return None


def check_case(ctx, fl, c, rng, origin, approx=False, real=None, heavy=False):
    e, dec = c["engine"], c["dec"]
    short = shorthand(e)
    case = {"engine": e, "dec": dec, "origin": origin}
    for tr in c["trees"]:
        alias = tr["alias"]
        case = dict(case, alias=alias)
        with fl.settings.context(decimals=dec, alias=alias):
            if real is None or tr is not c["trees"][0]:
                real_ = fll.build(fl, e, dec) if real is None else real
            else:
                real_ = real
            ctx.count()
            text = repr(real_)
            try:
                got = node(ast.parse(text, mode="eval").body)
            except (SyntaxError, ValueError) as ex:
                ctx.violation(f"repr/not-python/{alias or 'no-alias'}", dict(case, code=text[:2000]), "an expression", f"{type(ex).__name__}: {ex}")
                continue
            d = diff(tr["tree"], got, dec, approx)
            if d:
                ctx.violation("repr/tree/" + d.split(":")[0].split(">")[-1].split("[")[0], dict(case, code=text[:3000]), None, None, note=d)
                continue
            imp = fl.representation.import_statement()
            if imp != tr["imp"]:
                ctx.violation("repr/import-statement", case, tr["imp"], imp)
                continue
            # execute
            ns: dict = {}
            ctx.count()
            try:
                exec(imp, ns)
                rebuilt = eval(text, ns)
            except Exception as ex:
                ctx.violation(f"repr/does-not-execute/{type(ex).__name__}", dict(case, code=text[:3000]), "an engine", f"{type(ex).__name__}: {ex}")
                continue
            if repr(rebuilt) != text:
                ctx.violation("repr/rebuilt-engine/repr-differs" + (f"/constructor-short-form-{short}" if short else ""), dict(case, code=text[:3000]), text[:500], repr(rebuilt)[:500])
                continue
            f1, f2 = fl.FllExporter().to_string(real_), fl.FllExporter().to_string(rebuilt)
            if f1 != f2:
                i, x, y = c14.first_diff(f2.split("\n"), f1.split("\n"))
                ctx.violation("repr/rebuilt-engine/fll-differs", dict(case, code=text[:3000]), y, x, note=f"line {i}: '{y}' became '{x}'")
                continue
            if not approx and unordered(fll.project(fl, rebuilt, dec)) != unordered(c["canon"]):
                ctx.violation("repr/rebuilt-engine/structure", dict(case, code=text[:3000]), c["canon"], fll.project(fl, rebuilt, dec),
                              note=str(c14.where(c["canon"], fll.project(fl, rebuilt, dec))))
                continue
            if (approx or c["canon"] == e) and real_.input_variables and real_.output_variables:
                rows = c14.rows_for(rng, real_)
                ctx.count()
                a, b = c14.outputs(real_, rows), c14.outputs(rebuilt, rows)
                for row, x, y in zip(rows, a, b):
                    if not c14.same(x, y):
                        ctx.violation("repr/rebuilt-engine/outputs-differ", dict(case, row=row, code=text[:3000]), x, y, note=f"inputs {row}: original {x}, rebuilt {y}")
                        break
            # each component on its own
            for label, obj, sub in components(real_, tr["tree"]):
                ctx.count()
                ctext = repr(obj)
                try:
                    cgot = node(ast.parse(ctext, mode="eval").body)
                except (SyntaxError, ValueError) as ex:
                    ctx.violation(f"repr/component/{label}/not-python", dict(case, code=ctext[:1000]), "an expression", f"{type(ex).__name__}: {ex}")
                    continue
                d = diff(sub, cgot, dec, approx, label)
                if d:
                    ctx.violation(f"repr/component/{label}/tree", dict(case, code=ctext[:1000]), None, None, note=d)
                    continue
                try:
                    again = eval(ctext, ns)
                    if repr(again) != ctext:
                        ctx.violation(f"repr/component/{label}/rebuilt-differs" + (f"/constructor-short-form-{short}" if short else ""), dict(case, code=ctext[:1000]), ctext[:300], repr(again)[:300])
                    elif obj is not None and fl.FllExporter().to_string(again) != fl.FllExporter().to_string(obj):
                        ctx.violation(f"repr/component/{label}/fll-differs", dict(case, code=ctext[:1000]), fl.FllExporter().to_string(obj), fl.FllExporter().to_string(again))
                except Exception as ex:
                    ctx.violation(f"repr/component/{label}/does-not-execute/{type(ex).__name__}", dict(case, code=ctext[:1000]), "a component", f"{type(ex).__name__}: {ex}")
            # PythonExporter: plain / encapsulated, formatted or not
            if heavy:
                for formatted in (False, True):
                    for enc in (False, True):
                        ctx.count()
                        try:
                            # every second export goes through ONE long-lived exporter per (formatted, encapsulated), created before
                            # any alias was switched: what it writes must follow the alias in force at the time of the export
                            pool_ = check_case.__dict__.setdefault("exporters", {})
                            check_case.__dict__["exports"] = check_case.__dict__.get("exports", 0) + 1
                            if (check_case.__dict__["exports"] - 1) // 8 % 2 == 0:       # (four exports under each of two aliases per engine: alternate by engine)
                                code = pool_[(formatted, enc)].to_string(real_) if (formatted, enc) in pool_ else fl.PythonExporter(formatted=formatted, encapsulated=enc).to_string(real_)
                            else:
                                code = fl.PythonExporter(formatted=formatted, encapsulated=enc).to_string(real_)
                            ns2: dict = {}
                            if enc:
                                exec(code, ns2)
                                names = [n.name for n in ast.parse(code).body if isinstance(n, ast.ClassDef)]
                                if len(names) != 1:
                                    raise LookupError(f"expected one class in the encapsulated code, found {names}")
                                klass = ns2[names[0]]
                                eng2 = klass().engine
                            else:
                                exec(imp, ns2)
                                eng2 = eval(code, ns2)
                            if repr(eng2) != text:
                                ctx.violation(f"PythonExporter/formatted={formatted}/encapsulated={enc}/rebuilt-differs", dict(case, code=code[:3000]), text[:400], repr(eng2)[:400])
                        except Exception as ex:
                            shadow = enc and alias == "*" and bool(real_.name) and hasattr(fl, fl.Op.pascal_case(real_.name))   # keyed by the engine's own name
                            ctx.violation(f"PythonExporter/formatted={formatted}/encapsulated={enc}/{type(ex).__name__}" + ("/class-name-shadows-library-name" if shadow else ""),
                                          dict(case), "an engine", f"{type(ex).__name__}: {ex}")


def run(ctx: core.Ctx):
    fl = core.import_fuzzylite()
    check_case.__dict__["exporters"] = {(f_, e_): fl.PythonExporter(formatted=f_, encapsulated=e_) for f_ in (False, True) for e_ in (False, True)}
    rng = random.Random(ctx.seed)
    decs = "{3}" if ctx.quick else "{0, 3, 9}"
    r = ctx.tlc("MC_PyRepr", write_cfg("MC_PyRepr", HEAD.format(ff="FALSE", e="FALSE", c="FALSE", d=decs) + "INVARIANT Rebuilds\nCHECK_DEADLOCK FALSE\n"), workers=16, timeout=3000)
    ctx.expect_holds(r, "MC_PyRepr")
    ctx.expect_canary(ctx.tlc("MC_PyRepr", write_cfg("MC_PyRepr_canary", HEAD.format(ff="FALSE", e="FALSE", c="TRUE", d="{3}") + "INVARIANT Rebuilds\nCHECK_DEADLOCK FALSE\n"), workers=16, timeout=3000), "DropDisabled")
    g = ctx.tlc("MC_PyRepr", write_cfg("Gen_PyRepr", HEAD.format(ff="FALSE", e="TRUE", c="FALSE", d=decs) + "INVARIANT EmitTrees\nCHECK_DEADLOCK FALSE\n"), workers=16, timeout=3000)
    if len(g.emitted) < 3000:
        raise MachineryError(f"only {len(g.emitted)} engines emitted")
    stride = 3 if ctx.quick else 1
    n1 = 0
    for i, c in enumerate(g.emitted):
        if i % stride:
            continue
        check_case(ctx, fl, c, rng, "enumerated", heavy=(i % (30 * stride) == 0))
        n1 += 1
        ctx.traces += 1
        ctx.case(("enum", i), nontrivial=bool(c["engine"]["inputs"] or c["engine"]["outputs"] or c["engine"]["blocks"]))
    k = len(g.emitted) // 3
    ctx.sample({"engine": g.emitted[k]["engine"], "alias": g.emitted[k]["trees"][1]["alias"], "tree": g.emitted[k]["trees"][1]["tree"]})
    # whole engines: seeded random, shipped examples, perturbed doubles
    cases, reals = [], []
    for j in range(100 if ctx.quick else 800):
        dec = rng.choice([3, 3, 3, 0, 1, 2, 4, 6, 9])
        cases.append({"engine": fll.rengine(rng, dec, j), "dec": dec, "origin": f"seeded-{j}", "approx": False})
        reals.append(None)
    for j in range(6 if ctx.quick else 40):      # Function terms with many variables of their own (a mapping of 5 to 12 entries in the code)
        dec = rng.choice([3, 1, 6])
        e_ = fll.rengine(rng, dec, 1000 + j)
        target = (e_["outputs"] or e_["inputs"])
        if not target:
            continue
        target[0]["terms"] = target[0]["terms"] + [fll.poly_term(rng, "poly", dec, rng.choice([5, 6, 7, 9, 12]))]
        cases.append({"engine": e_, "dec": dec, "origin": f"seeded-poly-{j}", "approx": False})
        reals.append(None)
    for j in range(3 if ctx.quick else 30):       # wide engines: more entries in every list than a printer's size limit would pass silently
        dec = rng.choice([3, 2, 6])
        cases.append({"engine": fll.rengine(rng, dec, 2000 + j, wide=True), "dec": dec, "origin": f"seeded-wide-{j}", "approx": False})
        reals.append(None)
    for name, eng in c14.example_engines(fl):
        with fl.settings.context(decimals=3):
            cases.append({"engine": fll.project(fl, eng, 3), "dec": 3, "origin": name, "approx": False})
            reals.append(None)
    for j in range(30 if ctx.quick else 250):
        dec = rng.choice([3, 2, 5])
        with fl.settings.context(decimals=dec):
            real = fll.build(fl, fll.rengine(rng, dec, j), dec)
            for v in real.input_variables + real.output_variables:
                for t in v.terms:
                    for a in fll.ATTRS.get(type(t).__name__, []):
                        x = getattr(t, a)
                        if math.isfinite(x):
                            setattr(t, a, x * (1 + rng.uniform(-1e-3, 1e-3)) + rng.uniform(-1e-7, 1e-7))
            cases.append({"engine": fll.project(fl, real, dec), "dec": dec, "origin": f"perturbed-{j}", "approx": True})
            reals.append(real)
    runs = ctx.tlc_cases("MC_PyRepr", write_cfg("File_PyRepr", HEAD.format(ff="TRUE", e="TRUE", c="FALSE", d="{3}") + "INVARIANT Rebuilds\nINVARIANT EmitTrees\nCHECK_DEADLOCK FALSE\n"),
                         [{"engine": c["engine"], "dec": c["dec"]} for c in cases], label="engines", workers=16, timeout=3000)
    nf = 0
    by_engine = {json.dumps(c["engine"], sort_keys=True) + str(c["dec"]): (c, r_) for c, r_ in zip(cases, reals)}
    for run_ in runs:
        ctx.expect_holds(run_, "MC_PyRepr[file]")
        for c in run_.emitted:
            src, real = by_engine[json.dumps(c["engine"], sort_keys=True) + str(c["dec"])]
            nf += 1
            check_case(ctx, fl, c, rng, src["origin"], approx=src["approx"], real=real, heavy=(nf % 10 == 0))
            ctx.traces += 1
            ctx.case(("file", nf))
    ctx.extra["whole_engines"] = nf
    ctx.exhaustive = not ctx.quick      # the quick tier replays a stride of the enumerated cases (TLC checks all of them on the model)
    ctx.rule = (f"{n1} component-wise enumerated engines and {nf} whole engines (seeded random, the 61 shipped examples, perturbed doubles), each under alias 'fl' and one of "
                "'', '*', 'zz': repr parsed and compared node for node with the specification's tree, executed, rebuilt engine compared (repr, FLL, outputs), every component on its own; "
                "PythonExporter plain/encapsulated x formatted on a sample")
    ctx.assumptions += ["names are identifiers; descriptions and rule texts are single-spaced words (a Python string literal can hold anything, the abstract engine holds words)",
                        "heights and weights 1 or further than twice the tolerance from 1 where outputs are compared; rule weights representable at the configured decimals",
                        "finite numbers are compared by value: the digits produced by Python's repr() are not modelled"]


def replay(v) -> int:
    fl = core.import_fuzzylite()
    c = v["case"]
    with fl.settings.context(decimals=c["dec"], alias=c.get("alias", "fl")):
        real = fll.build(fl, c["engine"], c["dec"])
        text = repr(real)
        print(text)
        ns: dict = {}
        try:
            exec(fl.representation.import_statement(), ns)
            again = eval(text, ns)
            print("rebuilt repr equal:", repr(again) == text)
            print("rebuilt FLL equal:", fl.FllExporter().to_string(again) == fl.FllExporter().to_string(real))
        except Exception as ex:
            print(f"{type(ex).__name__}: {ex}")
    print("note:", v.get("note"))
    print("VIOLATION property=C15 replay=(given)")
    return 1
