def tie_tolerant(e, o, exp):
    return False
