"""C09  Integral defuzzifiers return the defined point of the sampled fuzzy set.

1. TLC: spec/MC_Integral - aggregated sets of 0..2 (thorough 3) activated terms (Rectangle, Triangle,
   Trapezoid, Ramp, Discrete with plateaus, ties and several maxima) x 4 degrees x 3 implications x 3
   aggregations x resolutions {1,2,4,8} plus seeded cases (other ranges, resolutions 5,10,16, 3-5 terms):
   result in [min,max]; SOM <= MOM <= LOM; NaN iff the membership is zero at every sample point;
   centroid translation equivariance.  Each state carries x, y and the five results.
2. Three links bind it to the code (DESIGN.md C09): (0) Op.midpoints vs the exact midpoints; (1) the
   code's sampled membership vs the specification's AggMu at the same points; (2) each defuzzifier's
   result vs the property's reduction applied to the code's own (x, y), tie-aware for Bisector; on
   cases without ties the end-to-end value must also equal TLC's exact value.
3. Batches of degree vectors give the per-set results; resolutions 100 and 1000, random ranges and tiny
   degrees are checked through links 0 and 2 and the relations (range, order, NaN-iff-empty, translation).
"""
from __future__ import annotations

import math
import random
from fractions import Fraction as F

import numpy as np

from . import core, pyref
from .edl import build_term
from .tlc import MachineryError, write_cfg
from .xreal import from_number, to_float, to_fraction

INVS = ["InRange", "Ordered", "NaNIffEmpty", "Translation"]
CLS = ["Bisector", "Centroid", "LargestOfMaximum", "MeanOfMaximum", "SmallestOfMaximum"]


def feq(a, b, tol=1e-9):
    a, b = float(a), float(b)
    if math.isnan(a) or math.isnan(b):
        return math.isnan(a) and math.isnan(b)
    return abs(a - b) <= tol * max(1.0, abs(a), abs(b))


def build_set(fl, c, degrees=None):
    acts = []
    for j, a in enumerate(c["acts"]):
        t = a["t"]
        term = build_term(fl, t)
        d = degrees[j] if degrees is not None else to_float(a["d"])
        acts.append(fl.Activated(term, d, getattr(fl, a["impl"])()))
    # the range the defuzzifier is GIVEN is the range it integrates over; the fuzzy set's own minimum / maximum attributes are another
    # matter: every third set carries none (NaN), every third a wider one
    build_set.n = getattr(build_set, "n", 0) + 1
    lo_, hi_ = to_float(c["lo"]), to_float(c["hi"])
    own = (lo_, hi_) if build_set.n % 3 == 0 else (math.nan, math.nan) if build_set.n % 3 == 1 else (lo_ - 3.0, hi_ + 5.0)
    return fl.Aggregated("o", own[0], own[1], getattr(fl, c["aggr"])(), acts)


def sampled(agg, x):
    """the membership vector the defuzzifiers see (an empty fuzzy output yields a 0-d zero that broadcasts)"""
    y = np.atleast_1d(np.asarray(agg.membership(x), dtype=float))
    return np.broadcast_to(y, x.shape) if y.size == 1 else y


def own_reduction_ok(fl, cls, agg, lo, hi, res, got):
    """link 2: the code's result is the property's reduction of the code's own sampled set"""
    x = np.asarray(fl.Op.midpoints(lo, hi, res), dtype=float)
    y = sampled(agg, x)
    red = pyref.reductions(x.tolist(), y.tolist())[cls]
    return any(feq(got, r, 1e-12) for r in red), red


def tie_tolerant(e, o, exp):
    """used by the engine-level checks: accept an output under a tie-prone defuzzifier iff link 2 holds"""
    import fuzzylite as fl

    v = e.output_variables[o]
    dz = v.defuzzifier
    if type(dz).__name__ not in CLS or type(dz).__name__ == "Centroid":
        return False        # (a centroid has no ties: it is compared with the specification's value itself)
    try:
        raw = float(np.asarray(dz.defuzzify(v.fuzzy, v.minimum, v.maximum)))
        ok, _ = own_reduction_ok(fl, type(dz).__name__, v.fuzzy, v.minimum, v.maximum, dz.resolution, raw)
        return bool(ok)
    except Exception:
        return False


def check_case(ctx, fl, c, where):
    lo, hi, res = to_float(c["lo"]), to_float(c["hi"]), c["res"]
    agg = build_set(fl, c)
    case = {k: c[k] for k in ("acts", "aggr", "res", "lo", "hi")}
    # link 0: abscissae
    x = np.asarray(fl.Op.midpoints(lo, hi, res), dtype=float)
    xs = [to_float(v) for v in c["xs"]]
    ctx.count()
    if len(x) != len(xs) or not all(abs(a - b) <= 4 * math.ulp(max(1.0, abs(b))) for a, b in zip(x, xs)):
        ctx.violation("Op.midpoints", case, xs, x.tolist())
        return
    # link 1: sampling
    y = sampled(agg, x)
    ys = [to_float(v) for v in c["ys"]]
    ctx.count()
    if y.shape != (len(ys),) or not all(feq(a, b) for a, b in zip(y, ys)):
        ctx.violation(f"{where}/sampling/{c['aggr']}", case, ys, y.tolist(), note="Aggregated.membership at the sample points differs from the aggregated membership of the specification")
        return
    # link 2 and end-to-end
    for cls in CLS:
        # every other case on a long-lived defuzzifier whose resolution is re-assigned (nothing computed for an earlier
        # resolution or range may survive), the others on a fresh object
        pool = check_case.__dict__.setdefault("pool", {})
        pool["n"] = pool.get("n", 0) + 1
        if pool["n"] % 2 and cls in pool:
            dz = pool[cls]
            dz.resolution = res
        else:
            dz = pool[cls] = getattr(fl, cls)(res)
        got = float(np.asarray(dz.defuzzify(agg, lo, hi)))
        ctx.count()
        ok, red = own_reduction_ok(fl, cls, agg, lo, hi, res, got)
        if not ok:
            ctx.violation(f"{where}/{cls}/reduction", case, red, got, note=f"{cls} is not the defined point of the set the code itself sampled")
            continue
        exact = to_float(c["v"][cls])
        if not feq(got, exact):
            # accepted only as a tie broken by rounding: the exact value must be among the tie-aware reductions too
            if any(feq(exact, r, 1e-9) for r in red):
                ctx.extra["accepted_by_tie_tolerance"] = ctx.extra.get("accepted_by_tie_tolerance", 0) + 1
            else:
                ctx.violation(f"{where}/{cls}/value", case, exact, got, note=f"{cls} differs from the exact value of the specification and no tie explains it")
        if not math.isnan(got) and not (lo - 1e-12 <= got <= hi + 1e-12):
            ctx.violation(f"{where}/{cls}/range", case, [lo, hi], got)


def relations(ctx, fl, agg, lo, hi, res, case, shifted=None):
    """range, order, NaN-iff-empty on the code's outputs (any resolution / range)"""
    x = np.asarray(fl.Op.midpoints(lo, hi, res), dtype=float)
    y = sampled(agg, x)
    vals = {}
    for cls in CLS:
        got = float(np.asarray(getattr(fl, cls)(res).defuzzify(agg, lo, hi)))
        vals[cls] = got
        ctx.count()
        ok, red = own_reduction_ok(fl, cls, agg, lo, hi, res, got)
        if not ok:
            ctx.violation(f"relations/{cls}/reduction", case, red[:4], got)
        # (among the subnormal numbers the products x * y keep a few bits only: a centroid of such a set is too coarse to be held to the range)
        coarse = cls == "Centroid" and 0 < float(np.max(y)) < 1e-290
        if not coarse and not math.isnan(got) and not (lo - 1e-9 * (1 + abs(lo)) <= got <= hi + 1e-9 * (1 + abs(hi))):
            ctx.violation(f"relations/{cls}/range", case, [lo, hi], got)
        empty = bool(np.all(y == 0))
        if math.isnan(got) != empty and not np.any(np.isnan(y)):
            ctx.violation(f"relations/{cls}/nan-iff-empty", case, "NaN" if empty else "a value", got)
    s, m, l = vals["SmallestOfMaximum"], vals["MeanOfMaximum"], vals["LargestOfMaximum"]
    if not math.isnan(s) and not (s <= m + 1e-12 and m <= l + 1e-12):
        ctx.violation("relations/som<=mom<=lom", case, "ordered", [s, m, l])
    return vals


def run(ctx: core.Ctx):
    fl = core.import_fuzzylite()
    rng = random.Random(ctx.seed)
    ml = 2 if ctx.quick else 3
    head = "SPECIFICATION Spec\nCONSTANTS FromFile = {ff}\n  Emit = {e}\n  MaxLen = {ml}\n"
    if ml > 2:
        ctx.expect_holds(ctx.tlc("MC_Integral", write_cfg("MC_Integral3", head.format(ff="FALSE", e="FALSE", ml=ml) + "".join(f"INVARIANT {i}\n" for i in INVS) + "CHECK_DEADLOCK FALSE\n"), workers=16, timeout=3400), "MC_Integral")
    g = ctx.tlc("MC_Integral", write_cfg("MC_Integral", head.format(ff="FALSE", e="TRUE", ml=2) + "".join(f"INVARIANT {i}\n" for i in INVS) + "INVARIANT EmitInv\nCHECK_DEADLOCK FALSE\n"), workers=16, timeout=3000)
    ctx.expect_holds(g, "MC_Integral")
    if len(g.emitted) < 15000:
        raise MachineryError(f"only {len(g.emitted)} integral cases emitted")
    for i, c in enumerate(g.emitted):
        if ctx.quick and i % 3:
            continue
        check_case(ctx, fl, c, "enumerated")
        ctx.traces += 1
        ctx.case(("e", i), nontrivial=any(v != [0, 0, 1] for v in c["ys"]))
    ctx.sample({k: g.emitted[5000][k] for k in ("acts", "aggr", "res", "ys", "v")})
    # seeded cases through the case file: other ranges, resolutions, more terms
    pal = [{"name": "rect", "k": "Rectangle", "p": ["1/8", "3/8"], "h": "1"}, {"name": "tri", "k": "Triangle", "p": ["1/4", "1/2", "3/4"], "h": "1"},
           {"name": "trap", "k": "Trapezoid", "p": ["1/2", "5/8", "7/8", "1"], "h": "3/4"}, {"name": "ramp", "k": "Ramp", "p": ["3/4", "1/4"], "h": "1"},
           {"name": "rect2", "k": "Rectangle", "p": ["5/8", "1"], "h": "1/2"}, {"name": "tri2", "k": "Triangle", "p": ["0", "0", "1/2"], "h": "1"}]
    file_cases = []
    for _ in range(400 if ctx.quick else 4000):
        n = rng.randint(1, 4)
        shift, scale = rng.choice([(F(0), F(1)), (F(-1), F(2)), (F(3), F(1, 2)), (F(-2), F(4))])
        ag = rng.choice(["Maximum", "BoundedSum", "AlgebraicSum", "NilpotentMaximum", "DrasticSum", "UnboundedSum"])      # UnboundedSum: memberships above 1
        im = rng.choice(["Minimum", "AlgebraicProduct", "BoundedDifference", "DrasticProduct", "NilpotentMinimum"])
        # every second set mixes implications (two rule blocks with different implications concluding on one output), and the
        # same term may be activated more than once
        ims = [im] * n if rng.random() < 0.5 else [rng.choice(["Minimum", "AlgebraicProduct", "BoundedDifference", "DrasticProduct", "NilpotentMinimum"]) for _ in range(n)]
        mult = ag == "AlgebraicSum" or "AlgebraicProduct" in ims
        acts = []
        twice = dict(rng.choice(pal)) if n >= 2 and rng.random() < 0.4 else None       # the first two activations are of one term
        for j_, im in enumerate(ims):
            t = dict(twice) if twice and j_ < 2 else dict(rng.choice(pal))
            t["p"] = [from_number(shift + scale * F(v)) for v in t["p"]]
            t["h"] = from_number(F(t["h"]))
            acts.append({"term": t, "d": from_number(rng.choice([F(0), F(1, 2), F(1)] if mult else [F(0), F(1, 4), F(1, 2), F(3, 4), F(1)])), "impl": im})
        file_cases.append({"acts": acts, "aggr": ag, "res": rng.choice([1, 2, 4, 5, 8] if mult else [1, 2, 3, 4, 5, 8, 10, 16]),
                           "lo": from_number(shift), "hi": from_number(shift + scale)})
    # one term activated twice through different implications (two rule blocks concluding on one output), every ordered pair
    IMPLS = ["Minimum", "AlgebraicProduct", "BoundedDifference", "DrasticProduct", "NilpotentMinimum"]
    for ia in IMPLS:
        for ib in IMPLS:
            if ia == ib:
                continue
            for tj, t0 in enumerate(pal):
                if ctx.quick and (tj + IMPLS.index(ia) + IMPLS.index(ib)) % 2:
                    continue
                t = dict(t0)
                t["p"] = [from_number(F(v)) for v in t["p"]]
                t["h"] = from_number(F(t["h"]))
                d2 = F(0) if "AlgebraicProduct" in (ia, ib) else F(1, 4)
                acts = [{"term": dict(t), "d": from_number(F(1, 2)), "impl": ia}, {"term": dict(t), "d": from_number(d2), "impl": ib}]
                file_cases.append({"acts": acts, "aggr": rng.choice(["Maximum", "Maximum", "BoundedSum"]), "res": rng.choice([4, 8]), "lo": from_number(F(0)), "hi": from_number(F(1))})
    # a first activation that already reaches 1 at every sample point, followed by others: nothing may be skipped as "absorbed"
    # (UnboundedSum keeps adding; the bounded ones stay at 1)
    full = {"name": "full", "k": "Rectangle", "p": [from_number(F(-1)), from_number(F(2))], "h": from_number(F(1))}
    for tj, t0 in enumerate(pal):
        for ag in ("UnboundedSum", "BoundedSum", "Maximum"):
            if ctx.quick and ag != "UnboundedSum" and tj % 3:
                continue
            t = dict(t0)
            t["p"] = [from_number(F(v)) for v in t["p"]]
            t["h"] = from_number(F(t["h"]))
            acts = [{"term": dict(full), "d": from_number(F(1)), "impl": "Minimum"}, {"term": t, "d": from_number(F(3, 4)), "impl": "Minimum"}]
            file_cases.append({"acts": acts, "aggr": ag, "res": 8, "lo": from_number(F(0)), "hi": from_number(F(1))})
    gfs = ctx.tlc_cases("MC_Integral", write_cfg("File_Integral", head.format(ff="TRUE", e="TRUE", ml=0) + "".join(f"INVARIANT {i}\n" for i in INVS) + "INVARIANT EmitInv\nCHECK_DEADLOCK FALSE\n"),
                        file_cases, label="integral", workers=8, timeout=3000)
    nfile = 0
    for gf in gfs:
        ctx.expect_holds(gf, "MC_Integral[file]")
        for c in gf.emitted:
            c = dict(c, acts=[{"t": a["t"], "d": a["d"], "impl": a["impl"]} for a in c["acts"]])
            check_case(ctx, fl, c, "seeded")
            nfile += 1
            ctx.case(("f", nfile), nontrivial=any(v != [0, 0, 1] for v in c["ys"]))
    ctx.traces += nfile
    ctx.extra["seeded_cases_evaluated_by_tlc"] = nfile
    # batches: enumerated cases with the same terms / operators / resolution stacked along the batch axis
    groups = {}
    for c in g.emitted:
        if c["acts"]:
            groups.setdefault((tuple((a["t"]["name"], a["impl"]) for a in c["acts"]), c["aggr"], c["res"]), []).append(c)
    nb = 0
    for key, cs in groups.items():
        nb += 1
        if ctx.quick and nb % 6:
            continue
        cols = [np.array([to_float(c["acts"][j]["d"]) for c in cs]) for j in range(len(key[0]))]
        agg = build_set(fl, cs[0], degrees=cols)
        for cls in CLS:
            got = np.atleast_1d(np.asarray(getattr(fl, cls)(key[2]).defuzzify(agg, 0.0, 1.0), dtype=float))
            ctx.count()
            each = [float(np.asarray(getattr(fl, cls)(key[2]).defuzzify(build_set(fl, c), 0.0, 1.0))) for c in cs]
            # the result belongs to the caller: overwriting it must not change what the next call returns
            dz_ = getattr(fl, cls)(key[2])
            r1_ = dz_.defuzzify(agg, 0.0, 1.0)
            if isinstance(r1_, np.ndarray) and r1_.flags.writeable and r1_.size:
                r1_[...] = -7.0
                r2_ = np.atleast_1d(np.asarray(dz_.defuzzify(agg, 0.0, 1.0), dtype=float))
                if r2_.shape != got.shape or not all(feq(a, b, 1e-12) for a, b in zip(r2_, got)):
                    ctx.violation(f"batch/{cls}/result-shared-between-calls", {"terms": [k[0] for k in key[0]], "aggr": key[1], "res": key[2], "batch": len(cs)}, got.tolist(), r2_.tolist(),
                                  note="after the caller overwrote the array returned by one defuzzification, the next one returns other values")
            if got.shape != (len(cs),) or not all(feq(a, b, 1e-12) for a, b in zip(got, each)):
                ctx.violation(f"batch/{cls}/{'resolution-1' if key[2] == 1 else 'resolution>1'}", {"terms": [k[0] for k in key[0]], "aggr": key[1], "res": key[2], "batch": len(cs)}, each, got.tolist(),
                              note="a batch of sets does not give the per-set results")
    # large resolutions, arbitrary ranges, tiny degrees: links 0/2 and the relations on the code's outputs
    n = 60 if ctx.quick else 600
    for i in range(n):
        lo = rng.choice([0.0, -1.0, -3.7, 10.0, -1e3, 0.1])
        hi = lo + rng.choice([1.0, 2.0, 0.3, 7.5, 1e3])
        res = rng.choice([100, 1000, 7, 33, 999])
        w = hi - lo
        mk = [lambda: fl.Triangle("a", lo + 0.1 * w, lo + 0.3 * w, lo + 0.6 * w), lambda: fl.Rectangle("b", lo + 0.5 * w, lo + 0.8 * w),
              lambda: fl.Trapezoid("c", lo, lo + 0.2 * w, lo + 0.4 * w, lo + 0.9 * w, 0.5), lambda: fl.Gaussian("d", lo + 0.7 * w, 0.1 * w),
              lambda: fl.Ramp("e", lo + 0.9 * w, lo + 0.2 * w)]
        k = rng.randint(0, 4)
        im = getattr(fl, rng.choice(["Minimum", "AlgebraicProduct", "EinsteinProduct"]))
        ag = getattr(fl, rng.choice(["Maximum", "AlgebraicSum", "BoundedSum", "EinsteinSum", "UnboundedSum"]))
        degs = [rng.choice([rng.random(), 1.0, 0.0, 1e-5, 2e-9, 0.5]) for _ in range(k)] if i % 4 else [rng.choice([1e-315, 3e-310, 5e-324, 1e-300, 0.0]) for _ in range(k)]   # every fourth set lives among the subnormal numbers
        tsel = [rng.randrange(len(mk)) for _ in range(k)]
        agg = fl.Aggregated("o", lo, hi, ag(), [fl.Activated(mk[t](), d, im()) for t, d in zip(tsel, degs)])
        case = {"lo": lo, "hi": hi, "res": res, "terms": tsel, "degrees": degs, "impl": im.__name__, "aggr": ag.__name__}
        xm = np.asarray(fl.Op.midpoints(lo, hi, res), dtype=float)
        exact = [float(F(lo) + (F(2 * j + 1, 2 * res)) * (F(hi) - F(lo))) for j in range(res)]
        if len(xm) != res or max(abs(a - b) for a, b in zip(xm, exact)) > 8 * math.ulp(max(abs(lo), abs(hi), 1.0)):
            ctx.violation("Op.midpoints/random-range", case, exact[:3], xm[:3].tolist())
        v1 = relations(ctx, fl, agg, lo, hi, res, case)
        # translation of set and range by c moves the centroid by c
        c = rng.choice([-1.0, 0.5, 3.0])
        lo2, hi2, w2 = lo + c, hi + c, hi - lo
        mk2 = [lambda: fl.Triangle("a", lo2 + 0.1 * w2, lo2 + 0.3 * w2, lo2 + 0.6 * w2), lambda: fl.Rectangle("b", lo2 + 0.5 * w2, lo2 + 0.8 * w2),
               lambda: fl.Trapezoid("c", lo2, lo2 + 0.2 * w2, lo2 + 0.4 * w2, lo2 + 0.9 * w2, 0.5), lambda: fl.Gaussian("d", lo2 + 0.7 * w2, 0.1 * w2),
               lambda: fl.Ramp("e", lo2 + 0.9 * w2, lo2 + 0.2 * w2)]
        agg2 = fl.Aggregated("o", lo2, hi2, ag(), [fl.Activated(mk2[t](), d, im()) for t, d in zip(tsel, degs)])
        c2 = float(np.asarray(fl.Centroid(res).defuzzify(agg2, lo2, hi2)))
        # a sample point may sit on the edge of the Rectangle (index 1) and move across it by rounding when shifted: only continuous sets are compared
        # (among the subnormal numbers x * y keeps a few bits only: the computed centroid is too coarse for the relation)
        if i % 4 and 1 not in tsel and not feq(c2, v1["Centroid"] + c, 1e-6 * max(1.0, abs(lo), abs(hi)) / 1.0) and not (math.isnan(c2) and math.isnan(v1["Centroid"])):
            ctx.violation("relations/Centroid/translation", dict(case, shift=c), v1["Centroid"] + c, c2)
    ctx.exhaustive = not ctx.quick      # the quick tier replays a stride of the enumerated cases (TLC checks all of them on the model)
    ctx.rule = (f"TLC enumerates sets of 0..{ml} activated terms over 5 terms x 4 degrees x 3 implications x 3 aggregations x 4 resolutions (replayed to 2 terms"
                f"{', every third in the quick tier' if ctx.quick else ''}) and evaluates seeded cases (4 ranges, 5 implications, 5 aggregations, resolutions to 16, up to 4 terms); "
                "each replayed case goes through the three links for all 5 defuzzifiers; batches; large resolutions / arbitrary ranges / tiny degrees through "
                "links 0, 2 and the relations; non-trivial = the sampled membership is not identically zero")
    ctx.assumptions += ["'sample points' and 'tied points' are the ones the code computed: ties that rounding breaks are accepted when the result is the reduction of "
                        "the code's own (x, y) (counted in accepted_by_tie_tolerance)"]


def replay(v) -> int:
    print("re-run ./check C09 (the case needs TLC's sampled vector); stored case:")
    import json

    print(json.dumps(v["case"])[:2000])
    print("expected", v["expected"], "observed", v["observed"])
    return 1
