"""C12  Output values follow the lock-previous / default / lock-range cascade.

1. TLC model-checks spec/MC_OutputVariable (machine shaped like OutputVariable.defuzzify == the
   property's per-row sentence folded over the history; previous value; failure atomicity).
2. The same module, as a generator, emits every behaviour; each is replayed on a real
   fuzzylite.OutputVariable driven by a scripted stub defuzzifier, comparing value / previous_value /
   len(fuzzy.terms) after every action (spec -> code).
3. Traces recorded from real OutputVariable objects with *real* defuzzifiers inside real engines are
   rank-abstracted and validated by spec/Trace_OutputVariable (code -> spec); see harness/tracer.py.
"""
from __future__ import annotations

import json
import math
import random

import numpy as np

from . import core
from .tlc import MachineryError, write_cfg

NAN = 99


def palettes(ctx):
    """order-isomorphic instantiations of the ranks -1 < 0(lo) < 1 < 2(hi) < 3"""
    pals = [{-1: -1.0, 0: 0.0, 1: 1.0, 2: 2.0, 3: 3.0}]
    rng = random.Random(ctx.seed)
    n = 1 if ctx.quick else 4
    for i in range(n):
        xs = sorted(rng.uniform(-1e3, 1e3) if i % 2 == 0 else rng.gauss(0, 1e-3) for _ in range(5))
        if len(set(xs)) < 5:
            continue
        pals.append(dict(zip([-1, 0, 1, 2, 3], xs)))
    pals.append({-1: -math.inf, 0: -2.5, 1: 0.1, 2: 7.25, 3: math.inf})
    # values that differ from a bound of the range by less than the library's comparison tolerance (0.001), on either side
    pals.append({-1: -0.0004, 0: 0.0, 1: 0.9996, 2: 1.0, 3: 1.0004})
    # ranges whose width is not a finite double: one infinite bound (nothing lies beyond it: behaviours that need that rank
    # are not instantiated on the palette), and a finite range wider than the largest double
    pals.append({-1: -3.0, 0: 0.0, 1: 5.0, 2: math.inf})
    pals.append({0: -math.inf, 1: 0.5, 2: 2.0, 3: 7.0})
    pals.append({-1: -1.7e308, 0: -1e308, 1: 0.0, 2: 1e308, 3: 1.7e308})
    return pals


def needs(beh):
    """ranks a behaviour uses"""
    rs = {beh["cfg"]["lo"], beh["cfg"]["hi"], beh["cfg"]["def"]}
    for st, ex in zip(beh["steps"], beh["expect"]):
        rs.update(st["raw"] if st["act"] in ("Defuzzify", "Assign") else [])
        rs.update(ex["value"])
        rs.add(ex["prev"])
    return {r for r in rs if r != NAN}


def conv(pal, r):
    return math.nan if r == NAN else pal[r]


class Replayer:
    def __init__(self, fl):
        self.fl = fl

        class Stub(fl.Defuzzifier):
            def __init__(self):
                self.next = None

            def defuzzify(self, term, minimum, maximum):
                if self.next is None:
                    # whatever the class of the failure: run-time and value errors, and the arithmetic errors numpy raises under
                    # np.errstate(all="raise") (0/0 on an empty fuzzy output)
                    Stub.failures = getattr(Stub, "failures", 0) + 1
                    raise (RuntimeError, ValueError, FloatingPointError, ZeroDivisionError, OverflowError)[Stub.failures % 5]("scripted defuzzifier failure")
                nxt, self.next = self.next, None
                return nxt

        self.Stub = Stub

    def run(self, beh, pal, raise_mode=0):
        """returns None or (step index, expected, observed)"""
        fl = self.fl
        c = beh["cfg"]
        stub = self.Stub()
        ov = fl.OutputVariable(name="o", minimum=conv(pal, c["lo"]), maximum=conv(pal, c["hi"]),
                               lock_range=c["lockRange"], lock_previous=c["lockPrev"],
                               default_value=conv(pal, c["def"]), defuzzifier=stub, enabled=c["enabled"],
                               terms=[fl.Constant("t", 1.0)])
        for i, (st, ex) in enumerate(zip(beh["steps"], beh["expect"])):
            a = st["act"]
            try:
                if a == "Defuzzify":
                    raw = [conv(pal, r) for r in st["raw"]]
                    # the forms a defuzzifier may return its result in: a writable array, a read-only array, a numpy scalar, a Python float
                    form = (raise_mode + i) % 4
                    nxt = np.array(raw[0]) if len(raw) == 1 else np.array(raw)
                    if form == 1:
                        nxt.setflags(write=False)
                    elif form == 2 and len(raw) == 1:
                        nxt = np.float64(raw[0])
                    elif form == 3 and len(raw) == 1:
                        nxt = float(raw[0])
                    stub.next = nxt
                    ov.defuzzify()
                elif a == "Raise":
                    try:
                        if (raise_mode + i) % 2:
                            ov.defuzzifier = None
                        stub.next = None
                        ov.defuzzify()
                        return i, "an exception", "defuzzify() returned normally"
                    except (RuntimeError, ValueError, ArithmeticError):
                        pass
                    finally:
                        ov.defuzzifier = stub
                elif a == "Disabled":
                    stub.next = np.array(12345.0)
                    ov.defuzzify()
                elif a == "Clear":
                    ov.clear()
                elif a == "FuzzyClear":
                    ov.fuzzy.clear()
                elif a == "AddTerm":
                    ov.fuzzy.terms.append(fl.Activated(ov.terms[0], 1.0))
                elif a == "Assign":
                    ov.value = conv(pal, st["raw"][0])
                elif a == "SetEnabled":
                    ov.enabled = bool(st["raw"][0])
                else:
                    raise MachineryError(f"unknown action {a}")
            except MachineryError:
                raise
            except Exception as e:  # the library raised where the specification does not
                return i, ex, f"{type(e).__name__}: {e}"
            obs = {"value": [float(v) for v in np.atleast_1d(ov.value)], "prev": float(ov.previous_value),
                   "nfuzzy": len(ov.fuzzy.terms)}
            exp = {"value": [conv(pal, r) for r in ex["value"]], "prev": conv(pal, ex["prev"]), "nfuzzy": ex["nfuzzy"]}
            if not (len(obs["value"]) == len(exp["value"])
                    and all(_eq(x, y) for x, y in zip(obs["value"], exp["value"]))
                    and _eq(obs["prev"], exp["prev"]) and obs["nfuzzy"] == exp["nfuzzy"]):
                return i, exp, obs
        return None


def _eq(a, b):
    return (math.isnan(a) and math.isnan(b)) or a == b


def clause_of(beh, i):
    a = beh["steps"][i]["act"]
    return {"Defuzzify": "cascade", "Raise": "failure-atomicity", "Disabled": "disabled-untouched"}.get(a, a.lower())


def run(ctx: core.Ctx):
    fl = core.import_fuzzylite()
    q = ctx.quick
    consts = "CONSTANTS NaN = 99\n  L = {L}\n  MaxSteps = {M}\n  Emit = {E}\n  DefaultFirst = {D}\n"
    props = ("INVARIANT TypeOK\nINVARIANT ValueIsPerRowCascade\nINVARIANT LockRangeInv\nINVARIANT DefaultInv\n"
             "PROPERTY PrevIsLastBefore\nPROPERTY FailureAtomic\nVIEW View\nCHECK_DEADLOCK FALSE\n")
    # 1. model check
    L, M = (3, 4) if q else (5, 5)
    cfg = write_cfg("MC_OutputVariable", "SPECIFICATION Spec\n" + consts.format(L=L, M=M, E="FALSE", D="FALSE") + props)
    r = ctx.tlc("MC_OutputVariable", cfg, workers=16, timeout=3000)
    ctx.expect_holds(r, "MC_OutputVariable")
    ctx.extra["model_check"] = {"L": L, "MaxSteps": M, "distinct": r.distinct, "generated": r.generated, "depth": r.depth}
    # canary: a machine that applies the default before lock-previous must be caught by the same invariant
    cfg = write_cfg("MC_OutputVariable_canary", "SPECIFICATION Spec\n" + consts.format(L=3, M=3, E="FALSE", D="TRUE")
                    + "INVARIANT ValueIsPerRowCascade\nVIEW View\nCHECK_DEADLOCK FALSE\n")
    ctx.expect_canary(ctx.tlc("MC_OutputVariable", cfg, workers=4), "DefaultFirst")
    # 2. generate behaviours and replay them on the real OutputVariable
    gl, gm = (3, 3) if q else (3, 4)
    cfg = write_cfg("Gen_OutputVariable", "SPECIFICATION Spec\n" + consts.format(L=gl, M=gm, E="TRUE", D="FALSE")
                    + "INVARIANT EmitInv\nCHECK_DEADLOCK FALSE\n")
    g = ctx.tlc("MC_OutputVariable", cfg, workers=16, timeout=3000)
    ctx.expect_holds(g, "Gen_OutputVariable")
    behs = g.emitted
    if not behs:
        raise MachineryError("generator emitted no behaviour")
    rp = Replayer(fl)
    pals = palettes(ctx)
    rng = random.Random(ctx.seed)
    for bi, beh in enumerate(behs):
        # every behaviour on the canonical palette, plus one other palette chosen by the seed
        for pi in {0, rng.randrange(len(pals)), len(pals) - 1 - bi % 3}:
            if not needs(beh) <= set(pals[pi]):
                continue
            ctx.count()
            bad = rp.run(beh, pals[pi], raise_mode=bi)
            if bad:
                i, exp, obs = bad
                c = beh["cfg"]
                key = f"OutputVariable/{clause_of(beh, i)}/lockPrev={int(c['lockPrev'])},default={'nan' if c['def'] == NAN else 'set'},lockRange={int(c['lockRange'])}"
                ctx.violation(key, {"behaviour": beh, "palette": {str(k): v for k, v in pals[pi].items()}}, exp, obs,
                              note=f"step {i} ({beh['steps'][i]['act']})", step=i)
        ctx.traces += 1
        nontrivial = any(s["act"] == "Defuzzify" and any(v != NAN for v in s["raw"]) for s in beh["steps"])
        ctx.case(("beh", bi), nontrivial)
        if bi % 40000 == 7:
            ctx.sample(beh)
    ctx.exhaustive = True
    ctx.rule = (f"TLC enumerates every behaviour of MC_OutputVariable with L={gl} raw rows and {gm} actions "
                "(12 cascade settings x all raw batches over {NaN, below, inside, upper bound, above} x Raise/Disabled/Clear/"
                "FuzzyClear/AddTerm/Assign/SetEnabled at any position); each is replayed on a real OutputVariable on the canonical "
                "palette and one seeded order-isomorphic palette (incl. +-inf); distinct = behaviours; non-trivial = at least one "
                "defuzzification with a non-NaN raw value")
    ctx.assumptions += ["the cascade depends on values only through order/equality/NaN-ness (rank abstraction)",
                        "stub defuzzifier returns writable numpy arrays as the integral defuzzifiers do"]
    # 3. code -> spec: rank-abstracted traces of real engines
    from . import trace_ov
    trace_ov.validate(ctx, fl)


def replay(v) -> int:
    fl = core.import_fuzzylite()
    case = v["case"]
    if "behaviour" not in case:
        from . import trace_ov
        return trace_ov.replay(v, fl)
    pal = {int(k): float(x) for k, x in case["palette"].items()}
    beh = case["behaviour"]
    print(json.dumps(beh, indent=1))
    bad = Replayer(fl).run(beh, pal)
    if bad:
        print(f"step {bad[0]}: expected {bad[1]} observed {bad[2]}")
        print(f"VIOLATION property=C12 replay=(given)")
        return 1
    print("behaviour conforms")
    return 0
