"""C12 code -> spec leg: record OutputVariable events from real engines with real defuzzifiers,
rank-abstract them and validate them with spec/Trace_OutputVariable.tla."""
from __future__ import annotations

import json
import math
import os
import random
import subprocess
import sys

import numpy as np

from . import core, tracer
from .tlc import MachineryError, VERIF

NANR = 1000000


# ---------------------------------------------------------------------------- workloads
def build_engine(fl, kind: str, s: dict):
    """two small engines whose raw defuzzified values are NaN (no rule fires), in range and out of range"""
    x = fl.InputVariable("x", minimum=0.0, maximum=1.0, terms=[
        fl.Triangle("a", 0.0, 0.125, 0.25), fl.Triangle("b", 0.25, 0.5, 0.75), fl.Rectangle("c", 0.625, 0.875)])
    if kind == "mamdani":
        y = fl.OutputVariable("y", minimum=s["lo"], maximum=s["hi"], lock_range=s["lockRange"], lock_previous=s["lockPrev"],
                              default_value=s["def"], aggregation=fl.Maximum(),
                              defuzzifier=fl.Centroid(20), terms=[
                                  fl.Triangle("p", -1.0, -0.5, 0.0), fl.Triangle("q", 0.25, 0.5, 0.75), fl.Triangle("r", 1.0, 1.5, 2.0)])
        # the fuzzy set is sampled on [lo,hi]; terms outside give NaN, inside a value
    else:
        y = fl.OutputVariable("y", minimum=s["lo"], maximum=s["hi"], lock_range=s["lockRange"], lock_previous=s["lockPrev"],
                              default_value=s["def"], aggregation=None,
                              defuzzifier=fl.WeightedAverage() if kind == "wavg" else fl.WeightedSum(), terms=[
                                  fl.Constant("p", -0.5), fl.Constant("q", 0.5), fl.Constant("r", 1.75)])
    rb = fl.RuleBlock("rb", conjunction=None, disjunction=None, implication=fl.Minimum(), activation=fl.General(), rules=[
        fl.Rule.create("if x is a then y is p"), fl.Rule.create("if x is b then y is q"), fl.Rule.create("if x is c then y is r")])
    return fl.Engine("trace", input_variables=[x], output_variables=[y], rule_blocks=[rb])


def gen_workload(rng: random.Random, float_mode: bool):
    kind = rng.choice(["mamdani", "wavg", "wsum"])
    s = {"lo": 0.0, "hi": 1.0, "lockRange": rng.random() < 0.5, "lockPrev": rng.random() < 0.6,
         "def": rng.choice([math.nan, math.nan, 0.5, 3.0, -2.0])}
    ops = []
    xs = [math.nan, 0.125, 0.1, 0.3, 0.5, 0.7, 0.75, 0.8, 0.9, 0.26, 0.99, -1.0, 2.0]
    for _ in range(rng.randint(2, 6)):
        r = rng.random()
        if r < 0.75:
            n = 1 if (float_mode and rng.random() < 0.6) else rng.randint(1, 5)
            rows = [rng.choice(xs) for _ in range(n)]
            ops.append({"op": "process", "rows": rows, "float": bool(float_mode and n == 1)})
        elif r < 0.85:
            ops.append({"op": "restart"})
        elif r < 0.93:
            ops.append({"op": "toggle"})
        else:
            ops.append({"op": "assign", "v": rng.choice([math.nan, 0.4, 5.0])})
    return {"kind": "small", "engine": kind, "settings": s, "ops": ops}


def execute(fl, w) -> list:
    """run a workload on the real library with the tracer on; returns the recorded events"""
    tracer.reset()
    if w["kind"] == "small":
        e = build_engine(fl, w["engine"], w["settings"])
        y = e.output_variables[0]
        for op in w["ops"]:
            try:
                if op["op"] == "process":
                    if op["float"]:
                        e.input_variables[0].value = float(op["rows"][0])
                    else:
                        e.input_variables[0].value = np.array(op["rows"], dtype=float)
                    e.process()
                elif op["op"] == "restart":
                    e.restart()
                elif op["op"] == "toggle":
                    y.enabled = not y.enabled
                elif op["op"] == "assign":
                    y.value = op["v"]
            except Exception:
                pass  # the event carries the exception; the trace specification decides
    elif w["kind"] == "example":
        import importlib

        mod = importlib.import_module(w["module"])
        import inspect

        cls = [c for _, c in inspect.getmembers(mod, inspect.isclass) if c.__module__ == mod.__name__][0]
        e = cls().engine
        rng = random.Random(w["seed"])
        for v in e.output_variables:
            if w.get("lockPrev") is not None:
                v.lock_previous = w["lockPrev"]
        for _ in range(3):
            n = rng.randint(1, 12)
            m = np.empty((n, len(e.input_variables)))
            for j, iv in enumerate(e.input_variables):
                lo, hi = iv.minimum, iv.maximum
                if not (math.isfinite(lo) and math.isfinite(hi)):
                    lo, hi = -1.0, 1.0
                for i in range(n):
                    u = rng.random()
                    m[i, j] = math.nan if u < 0.08 else lo - 0.5 * (hi - lo) if u < 0.12 else hi + 0.5 * (hi - lo) if u < 0.16 else rng.uniform(lo, hi)
            try:
                e.input_values = m
                e.process()
            except Exception:
                pass
    else:
        raise MachineryError(f"unknown workload {w['kind']}")
    return [dict(ev) for ev in tracer.events()]


# ---------------------------------------------------------------------------- abstraction
def ov_traces(events, label):
    """group ov.* events per object; returns list of (trace dict for TLC, original events)"""
    per = {}
    for ev in events:
        if ev["act"] in ("ov.defuzzify", "ov.clear"):
            per.setdefault(ev["obj"], []).append(ev)
    out = []
    skipped = 0
    for obj, evs in per.items():
        cur = []
        for ev in evs:
            trunc = any(ev.get(k, 0) > tracer.LIMIT for k in ("vbn", "van", "rawn"))
            if ev.get("stubbed") or trunc:
                skipped += 1
                if cur:
                    out.append(cur)
                cur = []
                continue
            cur.append(ev)
        if cur:
            out.append(cur)
    res = []
    for k, evs in enumerate(out):
        vals = set()
        for ev in evs:
            for key in ("vb", "va", "raw"):
                vals.update(v for v in (ev.get(key) or []) if not math.isnan(v))
            for key in ("pb", "pa"):
                if key in ev and not math.isnan(ev[key]):
                    vals.add(ev[key])
            for key in ("def", "lo", "hi"):
                if not math.isnan(ev["cfg"][key]):
                    vals.add(ev["cfg"][key])
        order = sorted(vals)
        rank = {v: i for i, v in enumerate(order)}

        def rk(v):
            return NANR if math.isnan(v) else rank[v]

        tev = []
        for ev in evs:
            c = ev["cfg"]
            cfg = {"enabled": c["enabled"], "lockPrev": c["lockPrev"], "lockRange": c["lockRange"], "def": rk(c["def"]),
                   "lo": rk(c["lo"]) if not math.isnan(c["lo"]) else NANR, "hi": rk(c["hi"]) if not math.isnan(c["hi"]) else NANR,
                   "hasDefuzz": c["hasDefuzz"]}
            if ev["act"] == "ov.defuzzify":
                raw = ev.get("raw")
                raised = ev["raised"] is not None
                tev.append({"act": "defuzzify", "cfg": cfg, "vb": [rk(v) for v in ev["vb"]], "pb": rk(ev["pb"]), "nb": ev["nb"],
                            "raw": [rk(v) for v in raw] if raw else [], "raised": raised,
                            "va": [rk(v) for v in ev["va"]], "pa": rk(ev["pa"]), "na": ev["na"]})
            else:
                tev.append({"act": "clear", "cfg": cfg, "vb": [], "pb": NANR, "nb": 0, "raw": [], "raised": False,
                            "va": [rk(v) for v in ev["va"]], "pa": rk(ev["pa"]), "na": ev["na"]})
        res.append(({"id": f"{label}#{k}", "events": tev}, evs, order))
    return res, skipped


def check_traces(ctx, items, what: str):
    """items: list of (trace, original events, order, workload descriptor)"""
    if not items:
        return 0
    path = ctx.work / f"traces-{what}.json"
    path.write_text(json.dumps([t for t, _, _, _ in items]))
    r = ctx.tlc("Trace_OutputVariable", workers=8, env={"VERIF_TRACES": str(path)}, timeout=1800)
    ctx.expect_holds(r, "Trace_OutputVariable")
    by_id = {t["id"]: (t, evs, order, w) for t, evs, order, w in items}
    seen = set()
    envsteps = 0
    for rep in r.emitted:
        tid = rep["tid"]
        if tid in seen:
            continue
        seen.add(tid)
        t, evs, order, w = by_id[tid]
        envsteps += rep["env"]
        ctx.count(len(t["events"]))
        if rep["verdict"] == "ok":
            ctx.traces += 1
            continue
        at = rep["at"]
        ev = evs[at - 1]

        def un(rv):
            return math.nan if rv == NANR else order[rv]

        exp = {"value": [un(v) for v in rep["value"]], "prev": un(rep["prev"]), "nfuzzy": rep["nfuzzy"]}
        obs = {"value": ev.get("va"), "prev": ev.get("pa"), "nfuzzy": ev.get("na"), "raised": ev.get("raised")}
        c = ev["cfg"]
        clause = "failure-atomicity" if ev.get("raised") else ("disabled-untouched" if not c["enabled"] else "cascade")
        key = (f"trace/{ev['act']}/{clause}/raised={ev.get('raised')}/rawshape={'scalar' if ev.get('rawshape') == [] else 'array'}/"
               f"lockPrev={int(c['lockPrev'])},default={'nan' if math.isnan(c['def']) else 'set'}")
        ctx.violation(key, {"workload": w, "trace_id": tid, "event_index": at, "event": ev}, exp, obs,
                      note=f"trace {tid} {rep['verdict']} at event {at} ({ev['act']})", step=at)
    missing = set(by_id) - seen
    if missing:
        raise MachineryError(f"trace validation gave no verdict for {len(missing)} traces, e.g. {sorted(missing)[:3]}")
    ctx.extra["trace_env_steps_changing_value"] = ctx.extra.get("trace_env_steps_changing_value", 0) + envsteps
    return len(items)


def validate(ctx: core.Ctx, fl):
    if not tracer.install(fl):
        raise MachineryError(f"{tracer.GUARD} is not set: the tracer is disabled")
    try:
        rng = random.Random(ctx.seed + 12)
        items = []
        n = 150 if ctx.quick else 1500
        for i in range(n):
            w = gen_workload(rng, float_mode=(i % 3 == 0))
            tr, _ = ov_traces(execute(fl, w), f"w{i}")
            items += [(t, evs, order, w) for t, evs, order in tr]
            if i == 1 and tr:
                ctx.sample({"trace_workload": w, "events": len(tr[0][0]["events"])})
        ctx.extra["traces_small_engines"] = check_traces(ctx, items, "small")
        # shipped examples
        mods = example_modules(fl)
        rng.shuffle(mods)
        if ctx.quick:
            mods = mods[:12]
        items = []
        for j, m in enumerate(mods):
            for lp in ([None] if ctx.quick else [None, True]):
                w = {"kind": "example", "module": m, "seed": ctx.seed + j, "lockPrev": lp}
                tr, _ = ov_traces(execute(fl, w), f"{m.split('.')[-1]}{'' if lp is None else '+lp'}")
                items += [(t, evs, order, w) for t, evs, order in tr]
        ctx.extra["traces_examples"] = check_traces(ctx, items, "examples")
        # binding demonstration: a corrupted field and a dropped event must be rejected
        demonstrate_binding(ctx, fl)
        if not ctx.quick:
            suite_traces(ctx)
    finally:
        tracer.uninstall()


def demonstrate_binding(ctx, fl):
    w = {"kind": "small", "engine": "mamdani",
         "settings": {"lo": 0.0, "hi": 1.0, "lockRange": True, "lockPrev": True, "def": math.nan},
         "ops": [{"op": "process", "rows": [0.5, math.nan, 0.7], "float": False}, {"op": "process", "rows": [math.nan, 0.5], "float": False}]}
    evs = execute(fl, w)
    good, _ = ov_traces(evs, "bind-ok")
    bad_evs = json.loads(json.dumps(evs))
    for ev in bad_evs:
        if ev["act"] == "ov.defuzzify" and ev["seq"] == max(e["seq"] for e in bad_evs if e["act"] == "ov.defuzzify"):
            ev["va"][0] = 0.123  # corrupt one logged value: the held value is no longer explained by lock-previous
    bad, _ = ov_traces(bad_evs, "bind-corrupt")
    path = ctx.work / "traces-bind.json"
    path.write_text(json.dumps([good[0][0], bad[0][0]]))
    r = ctx.tlc("Trace_OutputVariable", workers=1, env={"VERIF_TRACES": str(path)})
    verdicts = {rep["tid"]: rep["verdict"] for rep in r.emitted}
    if verdicts.get("bind-ok#0") != "ok" or verdicts.get("bind-corrupt#0") == "ok":
        raise MachineryError(f"binding demonstration failed: {verdicts}")
    ctx.extra["binding_demo"] = {"accepted": "bind-ok#0", "corrupted_field_rejected": verdicts.get("bind-corrupt#0")}


def example_modules(fl):
    import pkgutil

    import fuzzylite.examples as ex

    mods = []
    for m in pkgutil.walk_packages(ex.__path__, ex.__name__ + "."):
        if not m.ispkg:
            mods.append(m.name)
    return sorted(mods)


def suite_traces(ctx):
    """the repository's own tests, run under the tracer plugin, as a trace workload"""
    out = ctx.work / "suite.ndjson"
    env = dict(os.environ)
    env.update({tracer.GUARD: "1", "VERIF_TRACE_OUT": str(out), "PYTHONPATH": f"{core.REPO}:{VERIF}", "PYTHONDONTWRITEBYTECODE": "1"})
    p = subprocess.run([sys.executable, "-m", "pytest", "-q", "-p", "no:cacheprovider", "-p", "harness.tracer", "-x", "-q",
                        "--deselect", "tests/test_exporter.py::TestPythonExporter::test_object",
                        "--deselect", "tests/test_benchmark.py::TestBenchmark::test_measure", "tests"],
                       cwd=core.REPO, env=env, capture_output=True, text=True, timeout=1200)
    if not out.exists():
        raise MachineryError(f"repository suite under the tracer produced no trace:\n{p.stdout[-1500:]}")
    evs = [json.loads(l) for l in out.read_text().splitlines()]
    tr, skipped = ov_traces(evs, "suite")
    items = [(t, e, o, {"kind": "suite"}) for t, e, o in tr]
    ctx.extra["traces_repo_suite"] = check_traces(ctx, items, "suite")
    ctx.extra["suite_events_skipped_stubbed_or_truncated"] = skipped
    ctx.extra["suite_pytest_rc"] = p.returncode


def replay(v, fl) -> int:
    w = v["case"]["workload"]
    if w.get("kind") == "suite":
        print("trace came from the repository's test suite; re-run ./check C12 --tier thorough")
        return 2
    os.environ.setdefault(tracer.GUARD, "1")
    ctx = core.Ctx("C12", "quick", v.get("seed", 0))
    tracer.install(fl)
    try:
        tr, _ = ov_traces(execute(fl, w), "replay")
        items = [(t, evs, order, w) for t, evs, order in tr]
        for t, evs, _, _ in items:
            for e in evs:
                print(json.dumps(e, default=str))
        check_traces(ctx, items, "replay")
    finally:
        tracer.uninstall()
    for x in ctx.violations:
        print(f"rejected: {x['note']}\n  expected {x['expected']}\n  observed {x['observed']}")
    import shutil

    shutil.rmtree(ctx.work, ignore_errors=True)
    if ctx.violations:
        print("VIOLATION property=C12 replay=(given)")
        return 1
    print("trace accepted")
    return 0
