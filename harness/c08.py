"""C08  Activation methods trigger exactly the rules their definition selects.

1. TLC: spec/MC_Activations - blocks of 1..3 (thorough 4) rules whose degrees are forced through the inputs;
   all degree vectors over {0,1/4,1/2,3/4,1} (thorough: NaN too), everything-on / one-disabled /
   one-unloaded patterns, all parameter values (n = 0..rules+1, 5 thresholds, 6 comparators): the loops of
   Engine.ActivateBlock (shaped like activation.py) equal the declarative selection; canary (ties by
   reverse index) must fail.
2. Replay on real rule blocks: after RuleBlock.activate every rule's activation_degree and triggered and the
   fuzzy output (terms in firing order, degrees) are compared; with array inputs the six non-General
   methods must raise ValueError, General must not.
3. Successive activations on the same block with different inputs (stale state), blocks of 5-8 rules by
   TLC simulation (thorough).
"""
from __future__ import annotations

import math
import random

import numpy as np

from . import core
from .tlc import MachineryError, write_cfg
from .xreal import to_float

INVS = ["MachineEqualsSelection", "NoOtherContributes", "TriggeredOnlyPositive", "AtMostN"]


def make_block(fl, k):
    ins = [fl.InputVariable(f"in{i + 1}", minimum=0.0, maximum=1.0, terms=[fl.Ramp("t", 0.0, 1.0)]) for i in range(k)]
    out = fl.OutputVariable("out", minimum=0.0, maximum=1.0, aggregation=fl.Maximum(), defuzzifier=fl.Centroid(2),
                            terms=[fl.Triangle(f"u{i + 1}", 0.0, 0.5, 1.0) for i in range(k)])
    rb = fl.RuleBlock("rb", conjunction=fl.Minimum(), disjunction=fl.Maximum(), implication=fl.Minimum(), activation=fl.General(),
                      rules=[fl.Rule.create(f"if in{i + 1} is t then out is u{i + 1}") for i in range(k)])
    return fl.Engine("c08", input_variables=ins, output_variables=[out], rule_blocks=[rb])


def activation(fl, a):
    c = a["cls"]
    if c in ("General", "Proportional"):
        return getattr(fl, c)()
    if c in ("First", "Last"):
        return getattr(fl, c)(rules=a["rules"], threshold=to_float(a["threshold"]))
    if c in ("Highest", "Lowest"):
        return getattr(fl, c)(rules=a["rules"])
    return fl.Threshold(comparator=a["comparator"], threshold=to_float(a["threshold"]))


def feq(a, b):
    return (math.isnan(a) and math.isnan(b)) or abs(a - b) <= 1e-12


def assign(fl, obj, a):
    """re-parameterise a method object that has been used before, by plain attribute assignment"""
    c = a["cls"]
    if c in ("First", "Last"):
        obj.rules = a["rules"]
        obj.threshold = to_float(a["threshold"])
    elif c in ("Highest", "Lowest"):
        obj.rules = a["rules"]
    elif c == "Threshold":
        obj.threshold = to_float(a["threshold"])
        obj.comparator = fl.Threshold.Comparator(a["comparator"])
    return obj


def apply_case(fl, e, c, reuse=False):
    rb = e.rule_blocks[0]
    pool = e.__dict__.setdefault("_verif_methods", {})
    cls = c["act"]["cls"]
    if reuse and cls in pool:
        # a long-lived method object whose public parameters are re-assigned between two activations
        rb.activation = assign(fl, pool[cls][0], c["act"])
        pool[cls][1].append(c["act"])
    else:
        rb.activation = activation(fl, c["act"])
        pool[cls] = (rb.activation, [c["act"]])
    for r, en, ld in zip(rb.rules, c["en"], c["ld"]):
        r.enabled = bool(en)
        if ld and not r.is_loaded():
            r.load(e)
        if not ld and r.is_loaded():
            r.unload()
    for iv, d in zip(e.input_variables, c["degs"]):
        iv.value = to_float(d)
    e.output_variables[0].fuzzy.clear()
    rb.activate()
    out = e.output_variables[0]
    return {"deg": [float(np.asarray(r.activation_degree)) for r in rb.rules], "trig": [bool(np.all(r.triggered)) for r in rb.rules],
            "fuzzy": [(a.term.name, float(np.asarray(a.degree))) for a in out.fuzzy.terms]}


def compare(c, obs):
    exp_deg = [to_float(d) for d in c["deg"]]
    if not all(feq(a, b) for a, b in zip(exp_deg, obs["deg"])):
        return "degree", exp_deg, obs["deg"]
    if [bool(t) for t in c["trig"]] != obs["trig"]:
        return "triggered", c["trig"], obs["trig"]
    ef = [(f["term"], to_float(f["degree"])) for f in c["fuzzy"]]
    if len(ef) != len(obs["fuzzy"]) or any(a[0] != b[0] or not feq(a[1], b[1]) for a, b in zip(ef, obs["fuzzy"])):
        return "fuzzy-output", ef, obs["fuzzy"]
    return None


def run(ctx: core.Ctx):
    fl = core.import_fuzzylite()
    rng = random.Random(ctx.seed)
    q = ctx.quick
    head = "SPECIFICATION Spec\nCONSTANTS KMax = {k}\n  WithNaN = {n}\n  Emit = {e}\n  TieReversed = {t}\n  BigK = 0\n"
    if not q:
        ctx.expect_holds(ctx.tlc("MC_Activations", write_cfg("MC_Activations4", head.format(k=4, n="FALSE", e="FALSE", t="FALSE") + "".join(f"INVARIANT {i}\n" for i in INVS) + "CHECK_DEADLOCK FALSE\n"), workers=16, timeout=3400), "MC_Activations")
    ctx.expect_canary(ctx.tlc("MC_Activations", write_cfg("MC_Activations_canary", head.format(k=2, n="FALSE", e="FALSE", t="TRUE") + "INVARIANT MachineEqualsSelection\nCHECK_DEADLOCK FALSE\n"), workers=8), "TieReversed")
    gens = [ctx.tlc("MC_Activations", write_cfg("Gen_Activations", head.format(k=3, n="FALSE", e="TRUE", t="FALSE") + "".join(f"INVARIANT {i}\n" for i in INVS) + "INVARIANT EmitInv\nCHECK_DEADLOCK FALSE\n"), workers=16, timeout=3400)]
    ctx.expect_holds(gens[0], "MC_Activations")
    gens.append(ctx.tlc("MC_Activations", write_cfg("Gen_Activations_nan", head.format(k=2, n="TRUE", e="TRUE", t="FALSE") + "INVARIANT MachineEqualsSelection\nINVARIANT EmitInv\nCHECK_DEADLOCK FALSE\n"), workers=16, timeout=3400))
    ctx.expect_holds(gens[1], "MC_Activations[NaN]")
    # large blocks with many equal degrees: an ordering that is only unstable, a heap that only misbehaves, beyond sixteen rules (Engine.ActivateBlock on 70 rules does not finish in TLC: 20 and 34 do)
    for bk in ((20,) if q else (20, 34)):
        gb = ctx.tlc("MC_Activations", write_cfg(f"Gen_Activations_big{bk}", head.format(k=3, n="FALSE", e="TRUE", t="FALSE").replace("BigK = 0", f"BigK = {bk}") + "".join(f"INVARIANT {i}\n" for i in INVS) + "INVARIANT EmitInv\nCHECK_DEADLOCK FALSE\n"), workers=16, timeout=3400)
        ctx.expect_holds(gb, f"MC_Activations[{bk} rules]")
        if len(gb.emitted) < 100:
            raise MachineryError(f"only {len(gb.emitted)} large-block cases")
        gens.append(gb)
    engines = {}
    n = 0
    prev_case = None
    for g in gens:
        for c in g.emitted:
            n += 1
            e = engines.setdefault(c["k"], make_block(fl, c["k"]))
            # the same block object is re-used for every case: an activation must not depend on the previous one
            try:
                obs = apply_case(fl, e, c, reuse=(n % 3 != 0))
                hist = e.__dict__["_verif_methods"][c["act"]["cls"]][1]
                c = dict(c, method_object_history=[hist[0]] + hist[-3:-1] if len(hist) > 1 else [])
            except Exception as ex:  # the library raised where the specification does not
                obs = None
                pat = "all-on" if all(c["en"]) and all(c["ld"]) else ("one-disabled" if all(c["ld"]) else "one-unloaded")
                ctx.violation(f"{c['act']['cls']}.activate/raises-{type(ex).__name__}/{pat}", {"case": c, "previous_case_on_same_block": prev_case},
                              "activation completes", f"{type(ex).__name__}: {ex}")
            ctx.count()
            bad = compare(c, obs) if obs is not None else None
            if bad:
                what, exp, got = bad
                a = c["act"]
                pat = "all-on" if all(c["en"]) and all(c["ld"]) else ("one-disabled" if all(c["ld"]) else "one-unloaded")
                ctx.violation(f"{a['cls']}.activate/{what}/{pat}", {"case": c, "previous_case_on_same_block": prev_case}, exp, got,
                              note=f"{a['cls']}(rules={a['rules']}, threshold={to_float(a['threshold'])}, {a['comparator']}) degrees {[to_float(d) for d in c['degs']]}")
            prev_case = c
            ctx.case(("c", n), nontrivial=any(f for f in c["fuzzy"]))
            if n in (777, 40000):
                ctx.sample(c)
    ctx.traces += n
    if n < 90000:
        raise MachineryError(f"only {n} activation cases replayed")
    # vector rejection
    for k in (2, 3):
        e = engines.setdefault(k, make_block(fl, k))
        rb = e.rule_blocks[0]
        for r in rb.rules:
            r.enabled = True
            if not r.is_loaded():
                r.load(e)
        for cls, kw in [("General", {}), ("First", {"rules": 1}), ("Last", {"rules": 1}), ("Highest", {"rules": 1}), ("Lowest", {"rules": 1}), ("Proportional", {}), ("Threshold", {})]:
            rb.activation = getattr(fl, cls)(**kw)
            for m in (2, 3):
                for iv in e.input_variables:
                    iv.value = np.array([rng.random() for _ in range(m)])
                e.output_variables[0].fuzzy.clear()
                ctx.count()
                try:
                    rb.activate()
                    if cls != "General":
                        ctx.violation(f"{cls}.activate/accepts-batch", {"method": cls, "batch": m}, "ValueError", "no exception")
                except ValueError:
                    if cls == "General":
                        ctx.violation("General.activate/rejects-batch", {"batch": m}, "no exception", "ValueError")
                except Exception as ex:
                    ctx.violation(f"{cls}.activate/batch-raises-{type(ex).__name__}", {"method": cls, "batch": m}, "ValueError", f"{type(ex).__name__}: {ex}")
    # a batch of length one: a method may refuse it like any batch, but if it accepts it the result is the scalar one
    nb1 = 0
    for g in gens:
        for ci, c in enumerate(g.emitted):
            if ci % 97 or not all(c["ld"]) or c["act"]["cls"] == "General":
                continue
            e = engines[c["k"]]
            try:
                scalar_obs = apply_case(fl, e, c)
            except Exception:
                continue
            rb = e.rule_blocks[0]
            for iv, d in zip(e.input_variables, c["degs"]):
                iv.value = np.array([to_float(d)])
            e.output_variables[0].fuzzy.clear()
            ctx.count()
            nb1 += 1
            try:
                rb.activate()
            except ValueError:
                continue            # refused: allowed
            except Exception as ex:
                ctx.violation(f"{c['act']['cls']}.activate/batch-of-one-raises-{type(ex).__name__}", {"case": c}, "ValueError or the scalar result", f"{type(ex).__name__}: {ex}")
                continue
            out = e.output_variables[0]
            obs = {"deg": [float(np.asarray(r.activation_degree).reshape(-1)[0]) for r in rb.rules], "trig": [bool(np.all(r.triggered)) for r in rb.rules],
                   "fuzzy": [(a.term.name, float(np.asarray(a.degree).reshape(-1)[0])) for a in out.fuzzy.terms]}
            if obs["trig"] != scalar_obs["trig"] or [n for n, _ in obs["fuzzy"]] != [n for n, _ in scalar_obs["fuzzy"]] \
                    or not all(feq(a, b) for (_, a), (_, b) in zip(obs["fuzzy"], scalar_obs["fuzzy"])) or not all(feq(a, b) for a, b in zip(obs["deg"], scalar_obs["deg"])):
                ctx.violation(f"{c['act']['cls']}.activate/batch-of-one-differs", {"case": c}, scalar_obs, obs,
                              note="a batch of length one was accepted but does not give what the same degrees give as scalars")
    ctx.extra["batches_of_one"] = nb1
    ctx.exhaustive = True
    ctx.rule = (f"TLC enumerates blocks of 1..3 rules (model check to {3 if q else 4}) x all degree vectors over 5 values (NaN too for <= 2 rules) x "
                "{all on, one disabled, one unloaded} x 7 methods with all parameter values; each case is replayed on one long-lived rule block; "
                "non-trivial = at least one rule contributes")
    ctx.assumptions += ["degrees are forced through Ramp(0,1) input terms; General accepts batches, the six other methods must raise ValueError"]


def replay(v) -> int:
    fl = core.import_fuzzylite()
    c = v["case"]["case"]
    e = make_block(fl, c["k"])
    if v["case"].get("previous_case_on_same_block") and v["case"]["previous_case_on_same_block"]["k"] == c["k"]:
        apply_case(fl, e, v["case"]["previous_case_on_same_block"])
    for a in c.get("method_object_history", []):      # the same method object, used with earlier parameters first
        apply_case(fl, e, dict(c, act=a), reuse=True)
    obs = apply_case(fl, e, c, reuse=bool(c.get("method_object_history")))
    bad = compare(c, obs)
    print(c["act"], [to_float(d) for d in c["degs"]], "->", obs)
    if bad:
        print(f"{bad[0]}: expected {bad[1]} observed {bad[2]}")
        print("VIOLATION property=C08 replay=(given)")
        return 1
    print("conforms")
    return 0
