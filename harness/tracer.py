"""Run-time tracer (code -> spec direction).  No source hooks: while PYFUZZYLITE_VERIF_TRACE is set and
`install()` has been called, selected public methods of the library are wrapped; each wrapper logs one
event *after* the wrapped call returned (also on the exception path) with a per-process sequence number,
the action name, its arguments and a small projection of the state.  The library is single-threaded, so
the public call's return is the linearization point.

Usable as a pytest plugin:  PYFUZZYLITE_VERIF_TRACE=1 VERIF_TRACE_OUT=file pytest -p harness.tracer ...

Events whose receiver has the traced method (or one it delegates to) shadowed by an instance attribute
(unittest.mock stubs in the repository's tests) are tagged `stubbed` and skipped by the trace specs.
"""
from __future__ import annotations

import json
import math
import os

import numpy as np

GUARD = "PYFUZZYLITE_VERIF_TRACE"

_state = {"installed": False, "events": [], "seq": 0, "orig": [], "depth": {}, "ids": {}}


def enabled() -> bool:
    return bool(os.environ.get(GUARD))


def events() -> list:
    return _state["events"]


def reset():
    _state["events"] = []
    _state["seq"] = 0
    _state["ids"] = {}


def _oid(o) -> int:
    ids = _state["ids"]
    k = id(o)
    if k not in ids:
        ids[k] = (len(ids) + 1, o)  # keep the object alive so that ids are not reused
    return ids[k][0]


LIMIT = 256


def _size(x) -> int:
    try:
        return int(np.size(x))
    except Exception:
        return -1


def _vec(x, limit=LIMIT):
    """float / 0-d / n-d array -> list of floats (prefix of `limit` elements)"""
    try:
        a = np.atleast_1d(np.asarray(x, dtype=float)).ravel()
    except Exception:
        return None
    return [float(v) for v in a[:limit]]


def _f(x):
    try:
        return float(x)
    except Exception:
        return math.nan


def _emit(act, obj, **kw):
    _state["seq"] += 1
    ev = {"seq": _state["seq"], "act": act, "obj": _oid(obj)}
    ev.update(kw)
    _state["events"].append(ev)
    return ev


def _shadowed(o, *names) -> bool:
    d = getattr(o, "__dict__", {})
    return any(n in d for n in names) or type(o).__module__.startswith("unittest.mock")


def _wrap(cls, name, maker):
    orig = cls.__dict__[name]
    new = maker(orig)
    new.__wrapped_by_verif__ = True
    setattr(cls, name, new)
    _state["orig"].append((cls, name, orig))


def install(fl) -> bool:
    """wrap the library's methods; returns False (and does nothing) when the guard variable is unset"""
    if not enabled() or _state["installed"]:
        return _state["installed"]
    OV = fl.OutputVariable

    def ov_cfg(v):
        return {"enabled": bool(v.enabled), "lockPrev": bool(v.lock_previous), "lockRange": bool(v.lock_range),
                "def": _f(v.default_value), "lo": _f(v.minimum), "hi": _f(v.maximum), "hasDefuzz": v.defuzzifier is not None}

    def mk_defuzzify(orig):
        def defuzzify(self):
            stub = _shadowed(self, "defuzzify", "defuzzifier_") or (self.defuzzifier is not None and _shadowed(self.defuzzifier, "defuzzify"))
            rec = {"cfg": ov_cfg(self), "vb": _vec(self.value), "vbn": _size(self.value), "pb": _f(self.previous_value),
                   "nb": len(self.fuzzy.terms), "raw": None, "rawn": 0, "raised": None}
            d = self.defuzzifier
            cap = None
            if d is not None and not stub:
                inner = d.defuzzify

                def cap(*a, **k):
                    r = inner(*a, **k)
                    rec["raw"] = _vec(np.array(r, dtype=float, copy=True))
                    rec["rawn"] = _size(r)
                    rec["rawshape"] = list(np.shape(r))
                    return r

                try:
                    object.__setattr__(d, "defuzzify", cap)
                except Exception:
                    cap = None
            try:
                return orig(self)
            except BaseException as e:
                rec["raised"] = type(e).__name__
                raise
            finally:
                if cap is not None:
                    try:
                        object.__delattr__(d, "defuzzify")
                    except Exception:
                        pass
                rec.update(va=_vec(self.value), van=_size(self.value), pa=_f(self.previous_value), na=len(self.fuzzy.terms), stubbed=stub)
                _emit("ov.defuzzify", self, **rec)
        return defuzzify

    def mk_clear(orig):
        def clear(self):
            try:
                return orig(self)
            finally:
                _emit("ov.clear", self, cfg=ov_cfg(self), va=_vec(self.value), van=_size(self.value), pa=_f(self.previous_value), na=len(self.fuzzy.terms),
                      stubbed=_shadowed(self, "clear"))
        return clear

    _wrap(OV, "defuzzify", mk_defuzzify)
    _wrap(OV, "clear", mk_clear)

    # ---- settings contexts (C20) --------------------------------------------------------------
    S = fl.library.Settings
    import contextlib

    def snap(s):
        d = dict(vars(s))
        return {k: (v if isinstance(v, (int, float, str)) else f"{type(v).__name__}@{_oid(v)}" if not isinstance(v, type) else v.__name__)
                for k, v in d.items()}

    def mk_context(orig):
        def context(self, **kw):
            cm = orig(self, **kw)          # the library's own object is created when the caller creates it, not when it is entered
            return traced(self, cm, kw)

        @contextlib.contextmanager
        def traced(self, cm, kw):
            named = sorted(k for k, v in kw.items() if v is not None)
            before = snap(self)
            cm.__enter__()
            _emit("settings.enter", self, named=named, before=before, inside=snap(self))
            try:
                yield
            except BaseException as e:
                last = snap(self)
                if not cm.__exit__(type(e), e, e.__traceback__):
                    _emit("settings.exit", self, named=named, before=before, last=last, after=snap(self), raised=type(e).__name__)
                    raise
            else:
                last = snap(self)
                cm.__exit__(None, None, None)
                _emit("settings.exit", self, named=named, before=before, last=last, after=snap(self), raised=None)
        return context

    _wrap(S, "context", mk_context)

    # ---- rules and rule blocks (C01/C07/C08) ------------------------------------------------------
    R = fl.Rule

    def fuzzy_sizes(rule):
        out = {}
        try:
            for p in rule.consequent.conclusions:
                v = p.variable
                if v is not None and hasattr(v, "fuzzy"):
                    out[v.name] = len(v.fuzzy.terms)
        except Exception:
            pass
        return out

    def mk_trigger(orig):
        def trigger(self, implication):
            stub = _shadowed(self, "trigger", "is_loaded") or _shadowed(self.consequent, "modify", "conclusions_")
            before = fuzzy_sizes(self)
            raised = None
            try:
                return orig(self, implication)
            except BaseException as e:
                raised = type(e).__name__
                raise
            finally:
                concl = []
                try:
                    for p in self.consequent.conclusions:
                        concl.append({"var": p.variable.name if p.variable is not None else None,
                                      "venabled": bool(p.variable.enabled) if p.variable is not None else None,
                                      "hedges": [h.name for h in p.hedges], "term": p.term.name if p.term is not None else None})
                except Exception:
                    stub = True
                added = {}
                try:
                    for p in self.consequent.conclusions:
                        v = p.variable
                        n0 = before.get(v.name, 0)
                        added[v.name] = [{"term": a.term.name, "degree": _vec(a.degree, 8),
                                          "impl": type(a.implication).__name__ if a.implication is not None else None}
                                         for a in v.fuzzy.terms[n0:]]
                except Exception:
                    stub = True
                _emit("rule.trigger", self, enabled=bool(self.enabled), degree=_vec(self.activation_degree, 8),
                      triggered=_vec(self.triggered, 8), impl=type(implication).__name__ if implication is not None else None,
                      conclusions=concl, added=added, raised=raised, stubbed=stub)
        return trigger

    _wrap(R, "trigger", mk_trigger)

    RB = fl.RuleBlock

    def mk_activate(orig):
        def activate(self):
            raised = None
            s0 = _state["seq"]
            try:
                return orig(self)
            except BaseException as e:
                raised = type(e).__name__
                raise
            finally:
                rules = []
                stub = _shadowed(self, "activate")
                try:
                    for r in self.rules:
                        rules.append({"obj": _oid(r), "enabled": bool(r.enabled), "loaded": bool(r.is_loaded()),
                                      "degree": _vec(r.activation_degree, 8), "triggered": _vec(r.triggered, 8)})
                        stub = stub or _shadowed(r, "trigger", "is_loaded", "activate_with", "deactivate") or _shadowed(r.consequent, "modify")
                except Exception:
                    stub = True
                a = self.activation
                par = {}
                if a is not None:
                    for k in ("rules", "threshold"):
                        if hasattr(a, k):
                            par[k] = _f(getattr(a, k))
                    if hasattr(a, "comparator"):
                        par["comparator"] = getattr(a.comparator, "value", str(a.comparator))
                _emit("block.activate", self, method=type(a).__name__ if a is not None else None, params=par, rules=rules,
                      first_seq=s0 + 1, raised=raised, stubbed=stub)
        return activate

    _wrap(RB, "activate", mk_activate)

    E = fl.Engine

    def mk_engine(name):
        def maker(orig):
            def f(self, *a, **k):
                s0 = _state["seq"]
                raised = None
                try:
                    return orig(self, *a, **k)
                except BaseException as e:
                    raised = type(e).__name__
                    raise
                finally:
                    _emit(f"engine.{name}", self, first_seq=s0 + 1, raised=raised,
                          outputs=[_oid(v) for v in self.output_variables], blocks=[_oid(b) for b in self.rule_blocks],
                          onames=[str(v.name) for v in self.output_variables], oenabled=[bool(v.enabled) for v in self.output_variables],
                          benabled=[bool(b.enabled) for b in self.rule_blocks], stubbed=_shadowed(self, name))
            return f
        return maker

    _wrap(E, "process", mk_engine("process"))
    _wrap(E, "restart", mk_engine("restart"))

    _state["installed"] = True
    return True


def uninstall():
    for cls, name, orig in reversed(_state["orig"]):
        setattr(cls, name, orig)
    _state["orig"] = []
    _state["installed"] = False


def dump(path):
    with open(path, "w") as f:
        for e in _state["events"]:
            f.write(json.dumps(e, default=str) + "\n")


# ---- pytest plugin ---------------------------------------------------------------------------------
def pytest_configure(config):
    if enabled():
        import fuzzylite as fl

        install(fl)


def pytest_unconfigure(config):
    if _state["installed"]:
        out = os.environ.get("VERIF_TRACE_OUT")
        if out:
            dump(out)
        uninstall()
