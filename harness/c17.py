"""C17  Function formulas follow the documented precedence and associativity.

1. TLC: spec/MC_FunctionSyntax - ~10,000 well-typed expression trees (two operator levels over an alphabet with
   every precedence level and both associativities, unary and binary functions, pi) x minimal / redundant
   parentheses: reading the printed formula (shunting-yard + the postfix-to-tree machine of Function.parse)
   returns the tree and the postfix is the tree's; seeded deeper trees over all 13 operators and 34 functions
   from a case file.  Canary: a printer that takes `-` for right-associative must fail.
2. Replay: Function.create(name, text, engine) for each text, spaced and unspaced: root.postfix() against the
   specification's; membership(x) / evaluate against the documented meaning (exact where rational, kernel
   evaluator otherwise) under 5 variable assignments (engine input variable, term variable, x), as scalars and
   as arrays; the reserved-name rules of membership; ill-formed variants must be rejected when loaded.
"""
from __future__ import annotations

import json
import math
import random

import numpy as np

from . import core, kexpr
from .tlc import MachineryError, write_cfg

ENVS = [{"x": 0.5, "a": 3.0, "c": -1.5}, {"x": -2.0, "a": 1.5, "c": 0.5}, {"x": 0.0, "a": 1.0, "c": 2.0}, {"x": 1.75, "a": -0.25, "c": 4.0}, {"x": math.nan, "a": 1.0, "c": 1.0}]
OPS = {"not": "!", "neg": "~", "pow": "^", "pow2": "**", "uminus": ".-", "uplus": ".+", "mul": "*", "div": "/", "mod": "%", "add": "+", "sub": "-", "and": "and", "or": "or"}
UN = ["not", "neg", "uminus", "uplus"]
ARITH = ["pow", "pow2", "mul", "div", "mod", "add", "sub"]
F1 = ["acos", "asin", "atan", "ceil", "cos", "cosh", "exp", "abs", "fabs", "floor", "log", "log10", "round", "sin", "sinh", "sqrt", "tan", "tanh", "log1p", "acosh", "asinh", "atanh"]
F2 = ["gt", "ge", "eq", "neq", "le", "lt", "min", "max", "pow", "atan2", "fmod"]
LITS = ["2.000", "0.500", "3.000", "0.250", "1.000", "0.000", "4.000", "1.500", ".5", "3.", "1E0"]
DISCONT = {"ceil", "floor", "round", "gt", "ge", "eq", "neq", "le", "lt", "fmod", "mod", "min", "max", "not", "and", "or"}


def gen_tree(rng, depth, logical_ok=True, exact=True):
    """well-typed random tree; discontinuous elements only over subtrees built from exact (rational) elements"""
    if depth == 0 or rng.random() < 0.15:
        r = rng.random()
        if r < 0.45:
            return {"k": "var", "n": rng.choice(["x", "a", "c"])}
        if r < 0.95 or exact:
            return {"k": "num", "tok": rng.choice(LITS)}
        return {"k": "f0", "f": "pi"}
    r = rng.random()
    if logical_ok and r < 0.12:
        o = rng.choice(["and", "or"])
        return {"k": "bin", "o": o, "l": gen_tree(rng, depth - 1, True, True), "r": gen_tree(rng, depth - 1, True, True)}
    if logical_ok and r < 0.16:
        return {"k": "un", "o": "not", "a": gen_tree(rng, depth - 1, True, True)}
    if r < 0.30:
        return {"k": "un", "o": rng.choice(["neg", "uminus", "uplus"]), "a": gen_tree(rng, depth - 1, False, exact)}
    if r < 0.62:
        o = rng.choice(ARITH)
        if o == "mod":
            return {"k": "bin", "o": o, "l": gen_tree(rng, depth - 1, False, True), "r": gen_tree(rng, depth - 1, False, True)}
        if o in ("pow", "pow2"):
            return {"k": "bin", "o": o, "l": gen_tree(rng, depth - 1, False, exact), "r": {"k": "num", "tok": rng.choice(["2.000", "3.000", "1.000", "0.000"])}}
        return {"k": "bin", "o": o, "l": gen_tree(rng, depth - 1, False, exact), "r": gen_tree(rng, depth - 1, False, exact)}
    if r < 0.82:
        f = rng.choice(F1)
        if f in DISCONT:
            return {"k": "f1", "f": f, "a": gen_tree(rng, depth - 1, False, True)}
        if exact:
            f = rng.choice(["abs", "fabs", "floor", "ceil", "round"])
            return {"k": "f1", "f": f, "a": gen_tree(rng, depth - 1, False, True)}
        return {"k": "f1", "f": f, "a": gen_tree(rng, depth - 1, False, False)}
    f = rng.choice(F2)
    if f in DISCONT or exact:
        f = f if f in DISCONT else rng.choice(["min", "max", "eq", "gt", "le", "fmod"])
        return {"k": "f2", "f": f, "a": gen_tree(rng, depth - 1, False, True), "b": gen_tree(rng, depth - 1, False, True)}
    return {"k": "f2", "f": f, "a": gen_tree(rng, depth - 1, False, False), "b": gen_tree(rng, depth - 1, False, False)}


def unspaced(tokens):
    out = ""
    for t in tokens:
        if out and (out[-1].isalnum() or out[-1] == "_" or out[-1] == ".") and (t[0].isalnum() or t[0] == "_" or t in ("and", "or")):
            out += " "
        elif out and t in ("and", "or"):
            out += " "
        elif out and out.endswith(("and", "or")) and out[-4:-3] in (" ", "") and not t.startswith(" "):
            out += " "
        out += t
    return out


def make_engine(fl):
    return fl.Engine("c17", input_variables=[fl.InputVariable("a", minimum=-10, maximum=10)], output_variables=[fl.OutputVariable("o")])


def feq(a, b, tol=1e-9):
    a, b = float(a), float(b)
    if math.isnan(a) or math.isnan(b):
        return math.isnan(a) and math.isnan(b)
    if math.isinf(a) or math.isinf(b):
        return a == b
    return abs(a - b) <= tol * max(1.0, abs(a), abs(b))


def check_tree(ctx, fl, e, c, where):
    # names are case-sensitive and a variable may be called like a function in other letters: every second formula calls the engine
    # variable `Pi` and the term's own variable `Max` (the registered names are `pi` and `max`)
    check_tree.n = getattr(check_tree, "n", 0) + 1
    ren = {"a": "Pi", "c": "Max"} if check_tree.n % 2 else {}
    AN, CN = ren.get("a", "a"), ren.get("c", "c")
    e.input_variables[0].name = AN
    canon_lit = {".5": "0.500", "3.": "3.000", "1E0": "1.000"}       # Node.postfix() prints a literal as the number it denotes
    want_pf = " ".join(canon_lit.get(t, ren.get(t, t)) for t in c["postfix"])
    vals = []
    for v in c["values"]:
        try:
            vals.append(kexpr.value(v, {"signed_zero": "unjudged"}))
        except kexpr.Unjudged:
            vals.append(None)
            ctx.extra["values_not_judged"] = ctx.extra.get("values_not_judged", 0) + 1
    tag = ("relational" if any(f in json.dumps(c["tree"]) for f in ('"eq"', '"neq"', '"ge"', '"le"', '"gt"', '"lt"')) else
           "min-max" if any(f in json.dumps(c["tree"]) for f in ('"min"', '"max"')) else "other")
    for st, toks in enumerate(c["shown"]):
        toks = [ren.get(t, t) for t in toks]
        # (written without blanks, a literal such as `3.` runs into the operator `.-`; a negative exponent (`25e-2`) is cut at its sign by the formatter even between blanks and is not used: those spellings are only
        # well-formed when blanks separate them from their neighbours)
        odd_literal = any(t in (".5", "3.", "1E0") for t in toks)
        for text in ({" ".join(toks)} if odd_literal else {" ".join(toks), unspaced(toks)}):
            case = {"formula": text, "tree": c["tree"]}
            ctx.count()
            try:
                f = fl.Function.create("f", text, e)
                f.variables = {CN: 0.0}
            except Exception as ex:
                ctx.violation(f"Function.create/rejects-well-formed/{type(ex).__name__}", case, "a loaded formula", f"{type(ex).__name__}: {ex}", note=f"'{text}'")
                continue
            got_pf = f.root.postfix()
            if got_pf != want_pf:
                ctx.violation(f"Function.parse/postfix/style={st}", case, want_pf, got_pf, note=f"'{text}' is read as '{got_pf}'")
                continue
            for env, want in zip(ENVS, vals):
                if want is None:
                    continue
                e.input_variables[0].value = env["a"]
                f.variables = {CN: env["c"]}
                try:
                    got = f.membership(env["x"])
                    gotf = float(np.asarray(got, dtype=float))
                except Exception as ex:
                    ctx.violation(f"Function.membership/raises-{type(ex).__name__}/{tag}", dict(case, env=env), want, f"{type(ex).__name__}: {ex}")
                    break
                if not feq(gotf, want):
                    ctx.violation(f"Function.membership/value/{tag}", dict(case, env=env), want, gotf, note=f"'{text}' at {env}: {gotf}, documented meaning {want}")
                    break
            # arrays: elementwise
            if st == 0 and text == " ".join(toks):
                xs = np.array([env["x"] for env in ENVS])
                av = np.array([env["a"] for env in ENVS])
                cv = np.array([env["c"] for env in ENVS])
                e.input_variables[0].value = av
                f.variables = {CN: cv}
                keep = (xs.copy(), np.array(e.input_variables[0].value, copy=True), cv.copy())
                ctx.count()
                try:
                    got = np.broadcast_to(np.asarray(f.membership(xs), dtype=float), xs.shape)
                    now = (xs, np.asarray(e.input_variables[0].value), f.variables[CN])
                    if not all(np.array_equal(k, n, equal_nan=True) for k, n in zip(keep, now)):
                        ctx.violation("Function.membership/array-operands-modified", case, [k.tolist() for k in keep], [np.asarray(n).tolist() for n in now],
                                      note=f"evaluating '{text}' changed the values of its own variables")
                        e.input_variables[0].value = av = keep[1].copy()
                    if not all(w is None or feq(g, w) for g, w in zip(got, vals)):
                        ctx.violation(f"Function.membership/array-value/{tag}", case, vals, got.tolist(), note=f"'{text}' on arrays differs from the documented elementwise meaning")
                except Exception as ex:
                    ctx.violation(f"Function.membership/array-raises-{type(ex).__name__}/{tag}", case, vals, f"{type(ex).__name__}: {ex}", note=f"'{text}' cannot take array operands")
    e.input_variables[0].name = "a"


def scope_leg(ctx, fl):
    """spec/MC_FunctionScope: variable resolution of one long-lived term while the engine, its variables' values, the
    term's own variables and the term itself change; every behaviour TLC enumerates is replayed step by step."""
    from .xreal import to_fraction
    head = "SPECIFICATION Spec\nCONSTANTS MaxSteps = {n}\n  Emit = {e}\n  StaleScope = {c}\n"
    inv = "INVARIANT TypeOK\nINVARIANT SeesCurrentScope\nINVARIANT ValueIffResolvable\nVIEW View\nCHECK_DEADLOCK FALSE\n"
    n = 4 if ctx.quick else 5
    ctx.expect_holds(ctx.tlc("MC_FunctionScope", write_cfg("MC_FunctionScope", head.format(n=n + 1, e="FALSE", c="FALSE") + inv), workers=16, timeout=3000), "MC_FunctionScope")
    ctx.expect_canary(ctx.tlc("MC_FunctionScope", write_cfg("MC_FunctionScope_canary", head.format(n=n, e="FALSE", c="TRUE") + inv), workers=16), "StaleScope")
    g = ctx.tlc("MC_FunctionScope", write_cfg("Gen_FunctionScope", head.format(n=n, e="TRUE", c="FALSE") + "INVARIANT EmitInv\nCHECK_DEADLOCK FALSE\n"), workers=16, timeout=3000)
    if len(g.emitted) < 1000:
        raise MachineryError(f"only {len(g.emitted)} scope behaviours")
    for b in g.emitted:
        texts = [" ".join(t) for t in b["formulas"]]
        e = fl.Engine("scope")
        f = fl.Function.create("f", texts[0], e)
        ctx.traces += 1
        nontrivial = False
        for i, (st, ex) in enumerate(zip(b["steps"], b["expect"])):
            a, name = st["act"], st["name"]
            v = float(to_fraction(st["v"]))
            lst = e.input_variables if any(o.name == name for o in e.input_variables) else e.output_variables
            try:
                if a == "AddIn":
                    e.input_variables.append(fl.InputVariable(name))
                    e.input_variables[-1].value = v
                elif a == "AddOut":
                    e.output_variables.append(fl.OutputVariable(name))
                    e.output_variables[-1].value = v
                elif a == "Remove":
                    lst[:] = [o for o in lst if o.name != name]
                elif a == "Replace":
                    j = [o.name for o in lst].index(name)
                    lst[j] = type(lst[j])(name)
                    lst[j].value = v
                elif a == "SetValue":
                    next(o for o in lst if o.name == name).value = v
                elif a == "SetTermVar":
                    f.variables[name] = v
                elif a == "DelTermVar":
                    del f.variables[name]
                elif a == "Configure":
                    f.configure(texts[st["k"] - 1])
                elif a == "Unload":
                    f.unload()
                elif a == "Load":
                    f.load()
                elif a == "Detach":
                    f.update_reference(None)
                elif a == "Attach":
                    f.update_reference(e)
                elif a != "Evaluate":
                    raise MachineryError(f"unknown scope action {a}")
            except MachineryError:
                raise
            except Exception as exn:
                ctx.violation(f"Function/scope/{a}-raises-{type(exn).__name__}", {"behaviour": b, "step": i}, "no error", f"{type(exn).__name__}: {exn}", step=i)
                break
            if a != "Evaluate":
                continue
            ctx.count()
            case = {"behaviour": b, "step": i}
            try:
                got = float(np.asarray(f.membership(v), dtype=float))
                err = None
            except (ValueError, RuntimeError, KeyError) as exn:
                got, err = None, type(exn).__name__
            except Exception as exn:
                ctx.violation(f"Function.membership/scope/internal-{type(exn).__name__}", case, ex, f"{type(exn).__name__}: {exn}", step=i)
                break
            if ex[0] == "value":
                nontrivial = True
                want = kexpr.value(ex[1])
                if err is not None:
                    ctx.violation("Function.membership/scope/raises-on-resolvable", case, want, err, note=f"step {i}: every variable of '{f.formula}' is in scope but membership raised {err}", step=i)
                    break
                if not feq(got, want):
                    ctx.violation("Function.membership/scope/stale-or-wrong-value", case, want, got, note=f"step {i}: '{f.formula}' evaluated to {got}; with the current engine values, term variables and x it is {want}", step=i)
                    break
            elif err is None:
                ctx.violation(f"Function.membership/scope/evaluated-despite-{ex[1]}", case, ex, got, note=f"step {i}: expected {ex[0]} ({ex[1]})", step=i)
                break
        ctx.case(("scope", ctx.traces), nontrivial)
    ctx.sample({"scope_behaviour": g.emitted[len(g.emitted) // 2]})
    ctx.extra["scope_behaviours_replayed"] = len(g.emitted)


def run(ctx: core.Ctx):
    fl = core.import_fuzzylite()
    rng = random.Random(ctx.seed)
    scope_leg(ctx, fl)
    head = "SPECIFICATION Spec\nCONSTANTS FromFile = {ff}\n  Emit = {e}\n  RightAssocMinus = {c}\n"
    g = ctx.tlc("MC_FunctionSyntax", write_cfg("MC_FunctionSyntax", head.format(ff="FALSE", e="TRUE", c="FALSE") + "INVARIANT RoundTrip\nINVARIANT PostfixAgrees\nINVARIANT EmitInv\nCHECK_DEADLOCK FALSE\n"), workers=16, timeout=3000)
    ctx.expect_holds(g, "MC_FunctionSyntax")
    ctx.expect_canary(ctx.tlc("MC_FunctionSyntax", write_cfg("MC_FunctionSyntax_canary", head.format(ff="FALSE", e="FALSE", c="TRUE") + "INVARIANT RoundTrip\nCHECK_DEADLOCK FALSE\n"), workers=16), "RightAssocMinus")
    if len(g.emitted) < 8000:
        raise MachineryError(f"only {len(g.emitted)} trees")
    e = make_engine(fl)
    for i, c in enumerate(g.emitted):
        if ctx.quick and i % 2:
            continue
        check_tree(ctx, fl, e, c, "enumerated")
        ctx.traces += 1
        ctx.case(("t", i), nontrivial=c["tree"]["k"] in ("un", "bin", "f1", "f2"))
    ctx.sample({"formula": " ".join(g.emitted[4000]["shown"][0]), "postfix": " ".join(g.emitted[4000]["postfix"]), "values": g.emitted[4000]["values"][:2]})
    # seeded deeper trees over every operator and function
    trees = []
    n = 1500 if ctx.quick else 12000
    for i in range(n):
        trees.append(gen_tree(rng, rng.choice([3, 4, 5]), True, exact=(i % 3 != 0)))
    for j, name in enumerate(F1):      # make sure every registered element occurs
        trees.append({"k": "f1", "f": name, "a": {"k": "bin", "o": "mul", "l": {"k": "var", "n": "x"}, "r": {"k": "num", "tok": "0.250"}}} if name not in DISCONT
                     else {"k": "f1", "f": name, "a": {"k": "bin", "o": "mul", "l": {"k": "var", "n": "x"}, "r": {"k": "num", "tok": "1.500"}}})
    for name in F2:
        trees.append({"k": "f2", "f": name, "a": {"k": "var", "n": "x"}, "b": {"k": "bin", "o": "sub", "l": {"k": "var", "n": "a"}, "r": {"k": "num", "tok": "1.000"}}})
        trees.append({"k": "bin", "o": "add", "l": {"k": "f2", "f": name, "a": {"k": "var", "n": "x"}, "b": {"k": "num", "tok": "0.500"}},
                      "r": {"k": "f2", "f": name, "a": {"k": "var", "n": "a"}, "b": {"k": "num", "tok": "3.000"}}})
    runs = ctx.tlc_cases("MC_FunctionSyntax", write_cfg("File_FunctionSyntax", head.format(ff="TRUE", e="TRUE", c="FALSE") + "INVARIANT RoundTrip\nINVARIANT PostfixAgrees\nINVARIANT EmitInv\nCHECK_DEADLOCK FALSE\n"),
                         trees, label="formulas", workers=16, timeout=3000)
    nf = 0
    for r in runs:
        ctx.expect_holds(r, "MC_FunctionSyntax[file]")
        for c in r.emitted:
            check_tree(ctx, fl, e, c, "seeded")
            nf += 1
            ctx.case(("f", nf))
    ctx.traces += nf
    ctx.extra["seeded_trees_evaluated_by_tlc"] = nf
    # ill-formed variants are rejected when loaded
    bad = ["x +", "* x", "x 2.000", "( x + 1.000", "x + 1.000 )", "atan2 ( x )", "sin ( x , a )", "sin ( )", "max ( x , )", "x + * a", "pow ( x , 2.000 , 3.000 )",
           ", x", "( )", "", "x and", "! "]
    for t in bad:
        ctx.count()
        try:
            fl.Function.create("f", t, e)
            ctx.violation("Function.create/accepts-ill-formed", {"formula": t}, "rejected", "loaded")
        except (SyntaxError, ValueError, KeyError, RuntimeError):
            pass
        except Exception as ex:
            ctx.violation(f"Function.create/internal-{type(ex).__name__}", {"formula": t}, "SyntaxError", f"{type(ex).__name__}: {ex}")
    # reserved names
    f = fl.Function.create("f", "x + a", e)
    for setup, what in [(lambda: f.variables.update({"x": 1.0}), "variable named x"), (lambda: f.variables.update({"a": 1.0}), "term variable overriding an engine variable")]:
        f.variables = {}
        setup()
        try:
            f.membership(1.0)
            ctx.violation("Function.membership/name-clash-accepted", {"case": what}, "ValueError", "evaluated")
        except ValueError:
            pass
    ctx.exhaustive = not ctx.quick      # the quick tier replays a stride of the enumerated cases (TLC checks all of them on the model)
    ctx.rule = (f"TLC enumerates {len(g.emitted)} well-typed trees x 2 parenthesis styles (every second tree replayed in the quick tier) and evaluates {nf} seeded trees of depth 3-5 over "
                "all 13 operators and 34 functions; each text, spaced and unspaced, is loaded by Function.create; postfix and values under 5 assignments, scalars and arrays; "
                f"{ctx.extra.get('scope_behaviours_replayed')} behaviours of spec/MC_FunctionScope (engine / variable / term edits interleaved with evaluations) replayed on long-lived terms")
    ctx.assumptions += ["discontinuous elements (floor, ceil, round, %, fmod, comparisons, min, max, logical operators) are applied to rational subtrees only, so that "
                        "rounding cannot flip them; transcendental functions are evaluated by libm (1e-9)",
                        "truth-valued and/or/! results are used only under logical operators or as the final result (well-typed formulas, as the property states)"]


def replay(v) -> int:
    fl = core.import_fuzzylite()
    c = v["case"]
    e = make_engine(fl)
    try:
        f = fl.Function.create("f", c["formula"], e)
        print(f"'{c['formula']}' -> postfix '{f.root.postfix()}'")
        if "env" in c:
            e.input_variables[0].value = c["env"]["a"]
            f.variables = {"c": c["env"]["c"]}
            got = float(np.asarray(f.membership(c["env"]["x"]), dtype=float))
            print(f"value at {c['env']}: {got}; expected {v['expected']}")
            if isinstance(v["expected"], (int, float)) and not feq(got, v["expected"]):
                print("VIOLATION property=C17 replay=(given)")
                return 1
    except Exception as ex:
        print(f"{type(ex).__name__}: {ex}")
        print("VIOLATION property=C17 replay=(given)")
        return 1
    return 0
