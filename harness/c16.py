"""C16  Malformed rule and FLL text is rejected cleanly, never accepted or crashed on.

1. TLC: spec/MC_RuleParse - the Rule.parse / Antecedent.load / Consequent.load machines of RuleSyntax.tla and
   the shunting-yard step on every antecedent token sequence up to length 4 (thorough 5) over a 12-symbol
   alphabet, every consequent sequence up to length 4 (5), and every single-error mutant of four valid rules
   (missing keyword / variable / term / operand, unknown name, unbalanced parenthesis, non-numeric weight,
   trailing token, truncation, duplication, swap): the machines accept whatever the documented grammar
   derives and reject every listed error class.
2. Replay: every text through Rule.create(text, engine) and through Rule().parse + load (is_loaded() must be
   false after a failure); the outcome must be success - then exporting, activating and triggering the rule
   works - or SyntaxError / ValueError / KeyError; an internal error (TypeError, AttributeError, IndexError,
   RecursionError, ...) or an accepted text of a must-reject class is a violation; any other difference
   between the model's verdict and the code's is reported as model_divergence.
3. A sample also goes through RuleBlock.load_rules and, wrapped in a document, FllImporter.from_string;
   valid FLL documents are mutated at token and line level (deletion, duplication, substitution, truncation).
"""
from __future__ import annotations

import random

import numpy as np

from . import core
from .tlc import MachineryError, write_cfg

CONSTS = 'CONSTANTS InVars = {"a", "b"}\n  OutVars = {"y", "z"}\n  TermNames = {"lo", "hi"}\n  HedgeNames = {"any", "extremely", "not", "seldom", "somewhat", "very"}\n'
ALLOWED = (SyntaxError, ValueError, KeyError)
MUST_REJECT = {"missing-keyword", "missing-variable", "missing-term", "missing-operand", "unknown-name", "unbalanced-parenthesis", "non-numeric-weight", "trailing-token"}

FLL = """Engine: c16
InputVariable: a
  enabled: true
  range: 0.000 1.000
  lock-range: false
  term: lo Ramp 1.000 0.000
  term: hi Ramp 0.000 1.000
InputVariable: b
  enabled: true
  range: 0.000 1.000
  lock-range: false
  term: lo Triangle 0.000 0.250 0.500
  term: hi Triangle 0.500 0.750 1.000
OutputVariable: y
  enabled: true
  range: 0.000 1.000
  lock-range: false
  aggregation: Maximum
  defuzzifier: Centroid 10
  default: nan
  lock-previous: false
  term: lo Triangle 0.000 0.250 0.500
  term: hi Triangle 0.500 0.750 1.000
OutputVariable: z
  enabled: true
  range: 0.000 1.000
  lock-range: false
  aggregation: none
  defuzzifier: WeightedAverage
  default: nan
  lock-previous: false
  term: lo Constant 0.250
  term: hi Constant 0.750
RuleBlock: rb
  enabled: true
  conjunction: Minimum
  disjunction: Maximum
  implication: Minimum
  activation: General
  rule: if a is lo and b is hi then y is lo and z is hi
  rule: if a is hi or b is very lo then y is hi with 0.500
"""


def make_engine(fl):
    return fl.FllImporter().from_string(FLL)


def outcome(fn):
    try:
        return "ok", fn()
    except ALLOWED as ex:
        return "rejected", ex
    except BaseException as ex:  # noqa: internal error classes are exactly what the property forbids
        return "internal", ex


LIFE_TEXTS = ["if a is lo then y is lo", "if a is hi then y is hi", "if a is nowhere then y is lo", "if a is lo then y is nowhere",
              "if b is lo then y is lo", "if b2 is hi then y is hi"]       # the last two name the second input as it is called in vocabulary 1 / 2


def lifecycle_leg(ctx, fl):
    """spec/MC_RuleLifecycle: every behaviour of parse / load / unload / load_rules / unload_rules / restart on a block of two
    rules, replayed on a real RuleBlock: is_loaded of each rule and of its halves, the text, and whether the operation raised"""
    head = "SPECIFICATION Spec\nCONSTANTS NRules = 2\n  Texts <- TextsDef\n  KeepOnFailure = {k}\n  MaxSteps = {n}\n  Emit = {e}\n"
    props = "INVARIANT LoadedIsConsistent\nINVARIANT BlockLoad\nPROPERTY PropFailedLoad\nPROPERTY PropGoodLoad\nVIEW View\nCHECK_DEADLOCK FALSE\n"
    n = 4 if ctx.quick else 5
    ctx.expect_holds(ctx.tlc("MC_RuleLifecycle", write_cfg("MC_RuleLifecycle", head.format(k="FALSE", n=n + 2, e="FALSE") + props), workers=16, timeout=1800), "MC_RuleLifecycle")
    ctx.expect_canary(ctx.tlc("MC_RuleLifecycle", write_cfg("MC_RuleLifecycle_canary", head.format(k="TRUE", n=4, e="FALSE") + props), workers=8), "KeepOnFailure")
    g = ctx.tlc("MC_RuleLifecycle", write_cfg("Gen_RuleLifecycle", head.format(k="FALSE", n=n, e="TRUE") + "INVARIANT EmitInv\nCHECK_DEADLOCK FALSE\n"), workers=16, timeout=1800)
    if len(g.emitted) < 2000:
        raise MachineryError(f"only {len(g.emitted)} rule-lifecycle behaviours")
    div = 0
    e = make_engine(fl)
    e.rule_blocks[:] = [fl.RuleBlock("life")]       # the only block: Engine.restart stops at the first block that fails to load
    for beh in g.emitted:
        rb = fl.RuleBlock("life", rules=[fl.Rule.create(LIFE_TEXTS[0]), fl.Rule.create(LIFE_TEXTS[0])])
        e.rule_blocks[-1] = rb
        if e.input_variables[1].name != "b":       # every behaviour starts in vocabulary 1
            e.input_variables[1].name = "b"
        ctx.traces += 1
        for k, (st, ex) in enumerate(zip(beh["steps"], beh["expect"])):
            a, i, t = st["act"], st["i"] - 1, st["t"] - 1
            raised = None
            try:
                if a == "parse":
                    rb.rules[i].text = LIFE_TEXTS[t]
                elif a == "parse-refused":
                    rb.rules[i].text = "a is lo then y is lo"
                elif a == "load":
                    rb.rules[i].load(e)
                elif a == "unload":
                    rb.rules[i].unload()
                elif a == "load_rules":
                    rb.load_rules(e)
                elif a == "unload_rules":
                    rb.unload_rules()
                elif a == "restart":
                    e.restart()
                elif a == "rename":     # alternately: the variable is renamed; it is replaced by another object of the other name
                    old = e.input_variables[1]
                    new_name = "b2" if old.name == "b" else "b"
                    if (k + len(beh["steps"])) % 2:
                        old.name = new_name
                    else:
                        e.input_variables[1] = fl.InputVariable(new_name, minimum=0.0, maximum=1.0, terms=[fl.Triangle("lo", 0.0, 0.25, 0.5), fl.Triangle("hi", 0.5, 0.75, 1.0)])
            except Exception as exn:
                raised = exn
            ctx.count()
            case = {"steps": beh["steps"][: k + 1], "texts": LIFE_TEXTS}
            if raised is not None and not isinstance(raised, (SyntaxError, ValueError, KeyError, RuntimeError)):
                ctx.violation(f"RuleLifecycle/{a}/internal-{type(raised).__name__}", case, "a syntax, value or lookup error", f"{type(raised).__name__}: {raised}", step=k)
                break
            bad = None
            for j, (r, xr) in enumerate(zip(rb.rules, ex["rules"])):
                want_loaded = xr["ante"] != 0 and xr["cons"] != 0
                if r.is_loaded() and not want_loaded and a in ("load", "load_rules", "restart") and bool(ex["raised"]):
                    ctx.violation(f"RuleLifecycle/{a}/loaded-after-failed-load", case, False, True,
                                  note=f"rule {j + 1} ('{r.text}') reports loaded after {a} failed", step=k)
                    bad = True
                elif (r.is_loaded(), r.antecedent.is_loaded(), r.consequent.is_loaded(), r.text) != (want_loaded, xr["ante"] != 0, xr["cons"] != 0, LIFE_TEXTS[xr["txt"] - 1]) \
                        or (raised is not None) != bool(ex["raised"]):
                    div += 1           # the model and the code differ on something the property does not speak about
                    bad = True
            if bad:
                break
    ctx.extra["rule_lifecycle_behaviours"] = len(g.emitted)
    ctx.extra["rule_lifecycle_model_divergence"] = div


def empty_engine_leg(ctx, fl):
    """the same texts against an engine that has no component yet (and an FLL document whose rule block comes before its variables):
    every rule names a variable the engine does not have - unknown name - so none may be accepted; if one is, it must be usable"""
    texts = LIFE_TEXTS + ["if a is lo and b is hi then y is lo", "if a is then y is lo", "if a is lo then y is", "if ( a is lo then y is lo", "if a is lo then y is lo extra"]
    for text in texts:
        for how in ("Rule.create", "FllImporter"):
            ctx.count()
            case = {"text": text, "engine": "no components yet", "through": how}
            if how == "Rule.create":
                kind, val = outcome(lambda: fl.Rule.create(text, fl.Engine("empty")))
                rule = val if kind == "ok" else None
            else:
                kind, val = outcome(lambda: fl.FllImporter().from_string(f"Engine: early\nRuleBlock: rb\n  enabled: true\n  conjunction: Minimum\n  disjunction: Maximum\n  implication: Minimum\n  activation: General\n  rule: {text}\n" + FLL.split("\n", 1)[1]))
                rule = val.rule_blocks[0].rules[0] if kind == "ok" and val.rule_blocks and val.rule_blocks[0].rules else None
            if kind == "internal":
                ctx.violation(f"{how}/internal-{type(val).__name__}/empty-engine", case, "success or a syntax, value or lookup error", f"{type(val).__name__}: {val}")
            elif kind == "ok" and rule is not None:
                k2, v2 = outcome(lambda: (str(rule), rule.activate_with(fl.Minimum(), fl.Maximum())))
                if not rule.is_loaded() or k2 != "ok":
                    ctx.violation(f"{how}/accepted/unknown-name/empty-engine", case, "rejected (the engine has no variable of that name)", "accepted" + ("" if rule.is_loaded() else ", not loaded") + (f", {type(v2).__name__} on evaluation" if k2 != "ok" else ""),
                                  note=f"'{text}' names variables the engine does not have (yet) and was accepted")


def borrowed_term_leg(ctx, fl):
    """a term name is looked up in the proposition's OWN variable: a name that only another variable of the same rule has is an
    unknown name there, before or after that other variable was mentioned, in antecedents and in consequents"""
    tri = lambda n: fl.Triangle(n, 0.0, 0.5, 1.0)
    e = fl.Engine("own-terms", input_variables=[fl.InputVariable("a", minimum=0, maximum=1, terms=[tri("onlya"), tri("both")]), fl.InputVariable("b", minimum=0, maximum=1, terms=[tri("onlyb"), tri("both")])],
                  output_variables=[fl.OutputVariable("y", minimum=0, maximum=1, terms=[tri("onlyy"), tri("both")], defuzzifier=fl.Centroid(10), aggregation=fl.Maximum()),
                                    fl.OutputVariable("z", minimum=0, maximum=1, terms=[tri("onlyz"), tri("both")], defuzzifier=fl.Centroid(10), aggregation=fl.Maximum())],
                  rule_blocks=[fl.RuleBlock("rb", conjunction=fl.Minimum(), disjunction=fl.Maximum(), implication=fl.Minimum(), activation=fl.General())])
    bad = ["if a is onlya and b is onlya then y is both", "if b is onlyb and a is onlyb then y is both", "if a is onlyb and b is onlyb then y is both", "if a is onlya or b is very onlya then y is both",
           "if a is both then y is onlyy and z is onlyy", "if a is both then z is onlyz and y is onlyz", "if a is both then y is onlya", "if y is onlyy and a is onlyy then z is both",
           "if ( a is onlya and b is both ) or b is onlya then y is both"]
    good = ["if a is onlya and b is onlyb then y is onlyy and z is onlyz", "if a is both and b is both then y is both and z is both", "if b is onlyb or a is onlya then z is onlyz"]
    for text in bad + good:
        ctx.count()
        case = {"text": text, "engine": "every variable has one term of its own and one called `both`"}
        kind, val = outcome(lambda: fl.Rule.create(text, e))
        if kind == "internal":
            ctx.violation(f"Rule.create/internal-{type(val).__name__}/borrowed-term", case, "success or a syntax, value or lookup error", f"{type(val).__name__}: {val}")
        elif kind == "ok" and text in bad:
            ctx.violation("Rule.create/accepted/unknown-name/term-of-another-variable", case, "rejected (the variable has no term of that name)", "accepted", note=f"'{text}' was accepted")
        elif kind != "ok" and text in good:
            ctx.extra["borrowed_term_good_rejected"] = ctx.extra.get("borrowed_term_good_rejected", 0) + 1      # rejecting is always allowed by the property


def degenerate_leg(ctx, fl):
    """rule texts over an engine with legal but degenerate components - a variable without terms, reachable only through `any` -
    either are rejected cleanly or load into a rule that can be exported and evaluated, alone and inside Engine.process"""
    e = make_engine(fl)
    e.input_variables.append(fl.InputVariable("spare", minimum=0.0, maximum=1.0))
    e.output_variables.append(fl.OutputVariable("idle", minimum=0.0, maximum=1.0, aggregation=fl.Maximum(), defuzzifier=fl.Centroid(10)))
    for v in e.input_variables:
        v.value = 0.25
    texts = ["if spare is any then y is lo", "if spare is not any then y is lo", "if a is lo and spare is any then y is hi", "if ( spare is any ) or b is hi then y is lo with 0.5",
             "if spare is very any then y is lo and z is hi", "if a is lo then idle is lo", "if spare is lo then y is lo", "if a is lo then idle is any", "if idle is any then y is lo",
             "if a is any and spare is any then y is hi"]
    for text in texts:
        ctx.count()
        case = {"text": text, "engine": "two variables without terms: input spare, output idle"}
        kind, val = outcome(lambda: fl.Rule.create(text, e))
        if kind == "internal":
            ctx.violation(f"Rule.create/internal-{type(val).__name__}/term-less-variable", case, "success or a clean rejection", f"{type(val).__name__}: {val}")
        elif kind == "ok":
            rule = val
            rb = fl.RuleBlock("extra", conjunction=fl.Minimum(), disjunction=fl.Maximum(), implication=fl.Minimum(), activation=fl.General(), rules=[rule])
            e.rule_blocks.append(rb)
            k2, v2 = outcome(lambda: (str(rule), fl.FllExporter().rule(rule), rule.activate_with(fl.Minimum(), fl.Maximum()), rule.trigger(fl.Minimum()), e.process()))
            e.rule_blocks.pop()
            for ov in e.output_variables:
                ov.fuzzy.clear()
            if k2 != "ok":
                ctx.violation(f"accepted-rule-unusable/{type(v2).__name__}/term-less-variable", case, "export and evaluation work", f"{type(v2).__name__}: {v2}",
                              note=f"'{text}' was loaded, but cannot be evaluated")


def run(ctx: core.Ctx):
    fl = core.import_fuzzylite()
    lifecycle_leg(ctx, fl)
    degenerate_leg(ctx, fl)
    empty_engine_leg(ctx, fl)
    borrowed_term_leg(ctx, fl)
    rng = random.Random(ctx.seed)
    la, lc = (4, 4) if ctx.quick else (5, 5)
    head = "SPECIFICATION Spec\n" + CONSTS + f"  LenA = {la}\n  LenC = {lc}\n  Emit = TRUE\n"
    g = ctx.tlc("MC_RuleParse", write_cfg("MC_RuleParse", head + "INVARIANT AcceptsGrammar\nINVARIANT ValidAccepted\nINVARIANT ListedErrorsRejected\nINVARIANT EmitInv\nCHECK_DEADLOCK FALSE\n"), workers=16, timeout=3400)
    ctx.expect_holds(g, "MC_RuleParse")
    if len(g.emitted) < 30000:
        raise MachineryError(f"only {len(g.emitted)} texts")
    e = make_engine(fl)
    a, b = e.input_variables
    a.value, b.value = 0.25, 0.75
    div = 0
    accepted = 0
    for i, c in enumerate(g.emitted):
        text = " ".join(c["toks"])
        case = {"text": text, "class": c["cls"] or c["kind"], "model_verdict": c["verdict"], "in_grammar": c["grammar"]}
        ctx.count()
        kind, val = outcome(lambda: fl.Rule.create(text, e))
        ending = ("ends-in-is-or-hedge" if c["verdict"] in ("expected-hedge-or-term",) else c["verdict"])
        if kind == "internal":
            ctx.violation(f"Rule.create/internal-{type(val).__name__}/{ending}", case, "success or SyntaxError/ValueError/KeyError", f"{type(val).__name__}: {val}",
                          note=f"'{text}' -> {type(val).__name__}")
        elif kind == "ok":
            accepted += 1
            if c["cls"] in MUST_REJECT and not c["grammar"]:
                ctx.violation(f"Rule.create/accepted/{c['cls']}", case, "rejected", "accepted", note=f"'{text}' ({c['cls']}) was accepted")
            elif c["verdict"] != "ok" and not c["grammar"]:
                # neither derivable from the documented grammar nor accepted by the documented machines, yet loaded
                ctx.violation(f"Rule.create/accepted/not-in-grammar/{c['verdict']}", case, f"rejected ({c['verdict']})", "accepted", note=f"'{text}' was accepted")
            rule = val
            k2, v2 = outcome(lambda: (str(rule), fl.FllExporter().rule(rule), rule.activate_with(fl.Minimum(), fl.Maximum()), rule.trigger(fl.Minimum())))
            for ov in e.output_variables:
                ov.fuzzy.clear()
            if k2 != "ok":
                ctx.violation(f"accepted-rule-unusable/{type(v2).__name__}", case, "export and evaluation work", f"{type(v2).__name__}: {v2}")
            if not rule.is_loaded():
                ctx.violation("Rule.create/accepted-but-not-loaded", case, True, False)
        if (kind == "ok") != (c["verdict"] == "ok") and kind != "internal":
            div += 1
            if div <= 5:
                ctx.extra.setdefault("model_divergence_examples", []).append({"text": text, "model": c["verdict"], "code": kind})
        # failed load must not leave the rule reporting loaded
        if kind != "ok" and (i % 3 == 0 or c["kind"] == "mut"):
            r = fl.Rule()
            k3, v3 = outcome(lambda: (r.parse(text), r.load(e)))
            if k3 != "ok" and r.is_loaded():
                ctx.violation(f"Rule.load/loaded-after-failure/{c['cls'] or c['kind']}", case, False, True, note=f"'{text}': load failed but is_loaded() is true")
            if k3 == "internal" and kind != "internal":
                ctx.violation(f"Rule.load/internal-{type(v3).__name__}", case, "clean rejection", f"{type(v3).__name__}: {v3}")
            # the same on a rule that was loaded successfully before its text was edited: the failed re-load must not leave the
            # earlier parse behind
            r2 = fl.Rule.create("if a is lo then y is lo", e)
            kp, _ = outcome(lambda: r2.parse(text))
            if kp != "ok":
                continue_reload = False      # the text itself was refused: the rule keeps its previous, valid text and stays as it was
            else:
                continue_reload = True
            k5, v5 = outcome(lambda: r2.load(e)) if continue_reload else (k3, None)
            if continue_reload and k5 != "ok" and r2.is_loaded():
                ctx.violation(f"Rule.load/loaded-after-failed-reload/{c['cls'] or c['kind']}", case, False, True,
                              note=f"a loaded rule whose text became '{text}' failed to re-load but is_loaded() is still true")
            if continue_reload and k5 != k3:
                ctx.violation("Rule.load/reload-verdict-differs", case, k3, k5, note=f"'{text}': a fresh rule gives {k3}, a previously loaded one {k5}")
        # block- and document-level APIs on a sample
        if i % 17 == 0 or c["kind"] in ("mut", "valid"):
            rb = fl.RuleBlock(rules=[fl.Rule.create("if a is lo then y is lo"), fl.Rule()])
            k4, v4 = outcome(lambda: rb.rules[1].parse(text))
            if k4 == "ok":
                try:
                    rb.load_rules(e)
                    k4 = "ok"
                except RuntimeError:
                    k4 = "rejected"
                    if rb.rules[1].is_loaded():
                        ctx.violation("RuleBlock.load_rules/loaded-after-failure", case, False, True)
                    if not rb.rules[0].is_loaded():
                        ctx.violation("RuleBlock.load_rules/valid-rule-not-loaded", case, True, False)
                except BaseException as ex:  # noqa
                    ctx.violation(f"RuleBlock.load_rules/internal-{type(ex).__name__}", case, "RuntimeError listing the rules", f"{type(ex).__name__}: {ex}")
            doc = FLL.rstrip("\n") + f"\n  rule: {text}\n"
            k5, v5 = outcome(lambda: fl.FllImporter().from_string(doc))
            if k5 == "internal":
                ctx.violation(f"FllImporter/internal-{type(v5).__name__}/rule-line", case, "success or clean rejection", f"{type(v5).__name__}: {v5}")
            elif (k5 == "ok") != (kind == "ok") and kind != "internal" and "#" not in text:
                ctx.violation("FllImporter/verdict-differs-from-Rule.create", case, kind, k5)
        ctx.case(text, nontrivial=c["verdict"] not in ("expected-variable-or-operator",) or c["kind"] == "mut")
    ctx.traces += len(g.emitted)
    ctx.extra["model_divergence"] = div
    ctx.extra["texts_accepted_by_code"] = accepted
    ctx.sample({"text": " ".join(g.emitted[1234]["toks"]), "verdict": g.emitted[1234]["verdict"], "class": g.emitted[1234]["cls"]})
    if div > len(g.emitted) // 200:
        raise MachineryError(f"the model mispredicts the code's verdict on {div} of {len(g.emitted)} texts: the machines of RuleSyntax.tla do not describe the parser")
    # FLL documents mutated at line and token level
    lines = FLL.rstrip("\n").split("\n")
    nm = 0
    subs = ["nan", "true", "zz", "-1", "Triangle", "none", ":", "", "rule:", "term:", "#", "(", "1e999", "lo"]
    muts = []
    for li in range(len(lines)):
        muts.append(("delete-line", lines[:li] + lines[li + 1:]))
        muts.append(("duplicate-line", lines[:li + 1] + lines[li:]))
        muts.append(("truncate", lines[:li] + [lines[li][: max(1, len(lines[li]) // 2)]]))
        toks = lines[li].split()
        for ti in range(len(toks)):
            muts.append(("delete-token", lines[:li] + [" ".join(toks[:ti] + toks[ti + 1:])] + lines[li + 1:]))
            muts.append(("duplicate-token", lines[:li] + [" ".join(toks[:ti + 1] + toks[ti:])] + lines[li + 1:]))
            for sv in (rng.sample(subs, 3) if ctx.quick else subs):
                muts.append(("substitute-token", lines[:li] + [" ".join(toks[:ti] + [sv] + toks[ti + 1:])] + lines[li + 1:]))
        if li + 1 < len(lines):
            muts.append(("swap-lines", lines[:li] + [lines[li + 1], lines[li]] + lines[li + 2:]))
    for kind_m, ls in muts:
        doc = "\n".join(ls) + "\n"
        nm += 1
        ctx.count()
        k, v = outcome(lambda: fl.FllImporter().from_string(doc))
        case = {"mutation": kind_m, "document": doc}
        if k == "internal":
            ctx.violation(f"FllImporter/internal-{type(v).__name__}/{kind_m}", case, "success or SyntaxError/ValueError/KeyError", f"{type(v).__name__}: {v}",
                          note=f"{kind_m}: {type(v).__name__}: {v}")
        elif k == "ok":
            eng = v
            k2, v2 = outcome(lambda: fl.FllExporter().to_string(eng))
            if k2 != "ok":
                ctx.violation(f"FllImporter/accepted-but-not-exportable/{kind_m}", case, "export works", f"{type(v2).__name__}: {v2}")
            else:
                # one import/export cycle normalises accepted text to a fixed point
                k3, v3 = outcome(lambda: fl.FllExporter().to_string(fl.FllImporter().from_string(v2)))
                if k3 != "ok" or v3 != v2:
                    ctx.violation(f"FllImporter/not-a-fixed-point/{kind_m}", case, v2, str(v3)[:2000])
            for rb in eng.rule_blocks:
                for r in rb.rules:
                    if not r.is_loaded():
                        ctx.violation(f"FllImporter/accepted-with-unloaded-rule/{kind_m}", case, "loaded rules", r.text)
    ctx.extra["fll_mutants"] = nm
    ctx.exhaustive = True
    ctx.rule = (f"TLC enumerates every antecedent token sequence of length <= {la} over 12 symbols, every consequent sequence of length <= {lc} over 10 symbols and "
                f"every single-error mutant of 4 valid rules; {nm} line/token mutants of an FLL document; non-trivial = the text gets past the first token of "
                "the antecedent machine or is a mutant")
    ctx.assumptions += ["exceptions allowed for a rejection: SyntaxError, ValueError, KeyError (RuntimeError for RuleBlock.load_rules)",
                        "a difference between the model's and the code's accept/reject verdict on a text outside the must-reject classes is model_divergence, not an alarm"]


def replay(v) -> int:
    fl = core.import_fuzzylite()
    c = v["case"]
    if "text" in c:
        e = make_engine(fl)
        k, val = outcome(lambda: fl.Rule.create(c["text"], e))
        print(f"'{c['text']}' -> {k} {type(val).__name__ if k != 'ok' else ''} {val if k != 'ok' else ''}")
        if k == "internal" or (k == "ok" and c.get("class") in MUST_REJECT and not c.get("in_grammar")):
            print("VIOLATION property=C16 replay=(given)")
            return 1
        return 0
    k, val = outcome(lambda: fl.FllImporter().from_string(c["document"]))
    print(c["mutation"], "->", k, type(val).__name__, val if k != "ok" else "")
    if k == "internal":
        print("VIOLATION property=C16 replay=(given)")
        return 1
    return 0
