"""C02  Batch (vectorised) processing equals row-by-row float processing.

In spec/Engine.tla a batch *is* the sequence of its rows: ProcessRows folds the scalar step, carrying value /
previous value between rows (lock-previous, default, lock-range).  spec/Gen_Engine evaluates seeded
histories of 3-4 rows (and one of 8 = the defuzzifier resolution, the shape-confusion trap) over the General
engines of the C01 catalogue and lock-flag variants.  Each history is executed on the real engine in every
mode - one Python float at a time; every composition of the history into arrays set per variable; every
composition set through Engine.input_values - and every mode must give, row for row, the specification's
output values, fuzzy outputs and previous values, the same fuzzy_value() strings as the float mode, and
raise exactly when the float mode raises.
"""
from __future__ import annotations

import copy
import itertools
import math
import random

import numpy as np

from . import core, engine_run
from .catalogue import catalogue, rows_for
from .edl import build_engine, feq
from .tlc import MachineryError
from .xreal import to_float

from .xreal import NAN  # noqa: E402


def compositions(n):
    if n == 0:
        yield []
        return
    for k in range(1, n + 1):
        for rest in compositions(n - k):
            yield [k] + rest


def engines_for(quick):
    es = []
    for E in catalogue(quick):
        if any(b["activation"]["cls"] != "General" for b in E["blocks"]):
            continue
        es.append(E)
        # lock-flag variants of every third engine
    out = []
    for i, E in enumerate(es):
        out.append(E)
        if i % 3 == 0:
            for lp, df, lr in [(True, "nan", False), (True, "1/8", True), (False, "3", True)]:
                E2 = copy.deepcopy(E)
                E2["name"] += f"+lp{int(lp)}-def{df}-lr{int(lr)}"
                for o in E2["outputs"]:
                    o["lockPrev"], o["lockRange"] = lp, lr
                    from .edl import X

                    o["default"] = X(df)
                out.append(E2)
    return out


def per_row_obs(e, n):
    """project a (possibly batched) engine state onto n rows: outputs, previous (last row only), fuzzy degrees"""
    outs = []
    for v in e.output_variables:
        a = np.atleast_1d(np.asarray(v.value, dtype=float))
        outs.append(np.broadcast_to(a, (n,)) if a.size == 1 else a)
    fz = []
    for v in e.output_variables:
        acts = []
        for a in v.fuzzy.terms:
            d = np.atleast_1d(np.asarray(a.degree, dtype=float))
            acts.append((a.term.name, np.broadcast_to(d, (n,)) if d.size == 1 else d, type(a.implication).__name__ if a.implication is not None else "none"))
        fz.append(acts)
    return outs, fz


def compare_rows(exp_rows, outs, fz, n, skip_tainted, tie_prone=(), ref=None, k0=0, record=None):
    """exp_rows: list of n Observe records; returns description of the first mismatch or None.
    Under a tie-prone defuzzifier (Bisector, SOM, MOM, LOM) rounding may break a tie of the exact arithmetic (C09): the value of
    such an output is compared between the modes (the float mode records it, the batch modes must reproduce it), not with the
    specification; its fuzzy set is compared with the specification as everywhere."""
    for r in range(n):
        ex = exp_rows[r]
        if ex["tainted"]:
            continue
        for o in range(len(outs)):
            if len(outs[o]) != n:
                return f"row {r}: output[{o}] has {len(outs[o])} values for a batch of {n}"
            if o in tie_prone:
                if record is not None:
                    record[(k0 + r, o)] = float(outs[o][r])
                elif ref is not None and (k0 + r, o) in ref and not feq(ref[(k0 + r, o)], outs[o][r], 1e-12):
                    return f"row {r}: output[{o}] = {outs[o][r]}, but {ref[(k0 + r, o)]} when the same row is processed as a float"
            elif not feq(to_float(ex["out"][o]), outs[o][r]):
                return f"row {r}: output[{o}] = {outs[o][r]}, expected {to_float(ex['out'][o])}"
            if len(fz[o]) != len(ex["fuzzy"][o]):
                return f"row {r}: fuzzy[{o}] has {len(fz[o])} activations, expected {len(ex['fuzzy'][o])}"
            for k, (name, d, impl) in enumerate(fz[o]):
                x = ex["fuzzy"][o][k]
                if name != x["term"] or impl != x["impl"] or len(d) != n or not feq(to_float(x["degree"]), d[r]):
                    return f"row {r}: fuzzy[{o}][{k}] = ({name}, {d[r] if len(d) == n else d}, {impl}), expected ({x['term']}, {to_float(x['degree'])}, {x['impl']})"
    return None


TIE_PRONE = {"Bisector", "SmallestOfMaximum", "MeanOfMaximum", "LargestOfMaximum"}


def run_mode(fl, E, rows, parts, mode, expected, ref=None, record=None):
    """returns (mismatch description | None, exception text | None, fuzzy_value strings per row)"""
    e = build_engine(fl, E)
    tie_prone = {o for o, v in enumerate(E["outputs"]) if v["defuzzifier"]["cls"] in TIE_PRONE}
    k = 0
    fvs = []
    for n in parts:
        batch = rows[k:k + n]
        kept = []
        try:
            if mode == "float":
                for iv, x in zip(e.input_variables, batch[0]):
                    iv.value = to_float(x)
            elif mode == "arrays":
                for j, iv in enumerate(e.input_variables):
                    new = np.array([to_float(r[j]) for r in batch])
                    if (k + j) % 3 == 1:
                        new.setflags(write=False)           # the caller's array may be read-only ...
                    elif (k + j) % 3 == 2 and all(math.isfinite(v) and float(v).is_integer() for v in new):
                        new = new.astype(int)               # ... or hold its (integral) values as integers
                    kept.append((new, np.array(new, copy=True)))
                    cur = iv.value
                    if isinstance(cur, np.ndarray) and cur.shape == new.shape and cur.flags.writeable and cur.dtype == float and k % 2:
                        cur[...] = new          # the caller keeps one buffer per input and updates it in place between two process() calls
                        iv.value = cur
                    else:
                        iv.value = new
            else:
                mat = np.array([[to_float(x) for x in r] for r in batch])
                if k % 2:
                    mat.setflags(write=False)
                kept.append((mat, np.array(mat, copy=True)))
                e.input_values = mat
            e.process()
            for mine, before in kept:
                if not np.array_equal(mine, before, equal_nan=True):
                    return f"rows {k}..{k + n - 1}: the array the caller assigned to an input variable was modified ({before.tolist()} -> {mine.tolist()})", None, fvs
            ov = np.asarray(e.output_values, dtype=float)
            if ov.shape != (n, len(e.output_variables)):
                return f"rows {k}..{k + n - 1}: output_values has shape {ov.shape}, expected {(n, len(e.output_variables))}", None, fvs
        except Exception as ex:  # noqa
            return None, f"{type(ex).__name__}: {ex}", fvs
        outs, fz = per_row_obs(e, n)
        bad = compare_rows([expected[k + r + 1] for r in range(n)], outs, fz, n, True, tie_prone, ref, k, record)
        if bad:
            return f"rows {k}..{k + n - 1} as one batch: {bad}", None, fvs
        # the recorded previous value is the last value held before the call (C12): the value after row k, NaN at the start
        for o, v in enumerate(e.output_variables):
            if k == 0:
                want = math.nan
            elif expected[k]["tainted"]:
                continue
            elif o in tie_prone:
                src = record if record is not None else ref
                if src is None or (k - 1, o) not in src:
                    continue
                want = src[(k - 1, o)]
            else:
                want = to_float(expected[k]["out"][o])
            if E["outputs"][o]["enabled"] and not feq(want, float(np.asarray(v.previous_value))):
                return f"rows {k}..{k + n - 1}: previous_value[{o}] = {float(np.asarray(v.previous_value))}, expected {want}", None, fvs
        for r in range(n):
            fvs.append([str(np.atleast_1d(v.fuzzy_value())[r] if np.atleast_1d(v.fuzzy_value()).size > 1 else np.atleast_1d(v.fuzzy_value())[0]) for v in e.output_variables])
        k += n
    return None, None, fvs


def run(ctx: core.Ctx):
    fl = core.import_fuzzylite()
    rng = random.Random(ctx.seed)
    cases = []
    for E in engines_for(ctx.quick):
        pool = rows_for(E, limit=60, rng=rng)
        nh = 4 if ctx.quick else 12
        for h in range(nh):
            L = rng.choice([3, 4]) if h else 8
            cases.append({"engine": E, "rows": [rng.choice(pool) for _ in range(L)]})
        # rows with a missing (NaN) input next to complete rows in one batch: a shortcut taken for a whole batch at once
        # (an operand that is zero / NaN on every row) is not taken when the rows are processed one at a time
        finite = [r for r in pool if all(x[0] == 0 for x in r)]
        if finite and E["inputs"]:
            for h in range(3 if ctx.quick else 8):
                rows = []
                for j in range(4):
                    r = [list(x) for x in rng.choice(finite)]
                    if j % 2 == 0:
                        r[(h + j // 2) % len(r)] = list(NAN)
                    rows.append(r)
                cases.append({"engine": E, "rows": rows})
    exp = engine_run.evaluate(ctx, cases, "c02")
    for ci, case in enumerate(cases):
        expected = {k: v for (c, k), v in exp.items() if c == ci}
        L = len(case["rows"])
        if len(expected) < L:
            if any(v["raises"] for v in expected.values()):
                continue
            ctx.extra["histories_dropped_overflow"] = ctx.extra.get("histories_dropped_overflow", 0) + 1
            continue
        E = case["engine"]
        desc = {"engine": E, "rows": case["rows"]}
        float_outs = {}
        bad, exc0, fv0 = run_mode(fl, E, case["rows"], [1] * L, "float", expected, record=float_outs)
        ctx.count()
        if bad:
            ctx.violation(f"float-mode/{E['name'].split('+')[0]}", desc, None, bad, note=f"{E['name']}: {bad}")
            continue
        parts_list = list(compositions(L)) if L <= 4 else [[8], [3, 5], [1, 7], [4, 4]]
        for parts in parts_list:
            if all(p == 1 for p in parts) and L > 1:
                modes = ["arrays", "matrix"]  # batches of one row each, as arrays
            else:
                modes = ["arrays", "matrix"]
            for mode in modes:
                ctx.count()
                bad, exc, fv = run_mode(fl, E, case["rows"], parts, mode, expected, ref=float_outs)
                key_eng = E["name"].split("+")[0]
                if any(o["defuzzifier"]["cls"] not in ("WeightedAverage", "WeightedSum", "none") and o["defuzzifier"]["resolution"] == 1 for o in E["outputs"]):
                    key_eng = "resolution-1"  # the degenerate resolution recorded as a known finding of C09
                if (exc is None) != (exc0 is None):
                    ctx.violation(f"exception-parity/{mode}/{(exc or exc0).split(':')[0]}", dict(desc, partition=parts), f"float mode: {exc0}", f"{mode} mode: {exc}",
                                  note=f"{E['name']} partition {parts}: one mode raises on inputs the other accepts")
                elif bad:
                    ctx.violation(f"{mode}-mode/{key_eng}", dict(desc, partition=parts), None, bad, note=f"{E['name']} partition {parts}: {bad}")
                elif exc is None and fv != fv0:
                    ctx.violation(f"{mode}-mode/fuzzy_value-strings", dict(desc, partition=parts), fv0, fv)
        ctx.traces += 1
        ctx.case(("h", ci), nontrivial=any(len(f) for v in expected.values() for f in v["fuzzy"]))
        if ci in (3, 40):
            ctx.sample({"engine": E["name"], "rows": case["rows"], "partitions": len(parts_list)})
    # one batch of several thousand rows against the same rows as floats, one at a time (the float mode is what the histories
    # above compare with the specification): an internal chunk or size threshold must not show
    big = 0
    for E in engines_for(ctx.quick):
        nm = E["name"]
        if nm not in ("base", "base+lp1-defnan-lr0", "ts-WeightedAverage-none", "nan-under-connectives", "hedged-output-antecedent", "two-blocks") and not (not ctx.quick and big < 40):
            continue
        if any(o["defuzzifier"]["cls"] in TIE_PRONE or o["defuzzifier"].get("resolution") == 1 for o in E["outputs"]):
            continue
        pool = rows_for(E, limit=60, rng=rng)
        n = 2600 if big % 2 else 4100
        rows = [rng.choice(pool) for _ in range(n)]
        big += 1
        ctx.count()
        try:
            ef = build_engine(fl, E)
            fo, ff = [], []
            for r in rows:
                for iv, x in zip(ef.input_variables, r):
                    iv.value = to_float(x)
                ef.process()
                o1, f1 = per_row_obs(ef, 1)
                fo.append([float(a[0]) for a in o1])
                ff.append([[(nm_, float(d[0]), im) for nm_, d, im in acts] for acts in f1])
        except Exception:       # the float mode refuses some row of this engine: exception parity is judged on the short histories
            continue
        for mode in ("arrays", "matrix"):
            eb = build_engine(fl, E)
            try:
                if mode == "arrays":
                    for j, iv in enumerate(eb.input_variables):
                        iv.value = np.array([to_float(r[j]) for r in rows])
                else:
                    eb.input_values = np.array([[to_float(x) for x in r] for r in rows])
                eb.process()
            except Exception as ex:
                ctx.violation(f"large-batch/{mode}/raises-{type(ex).__name__}", {"engine": E, "rows": n}, "the values of the rows one at a time", f"{type(ex).__name__}: {ex}")
                continue
            ob, fb = per_row_obs(eb, n)
            bad = None
            for r in range(n):
                for o in range(len(ob)):
                    if len(ob[o]) != n or not feq(fo[r][o], ob[o][r]):
                        bad = f"row {r} of {n}: output[{o}] = {ob[o][r] if len(ob[o]) == n else ob[o]}, {fo[r][o]} when the row is processed alone after the rows before it"
                        break
                if bad:
                    break
                for o in range(len(fb)):
                    if [(a, b) for a, _, b in fb[o]] != [(a, b) for a, _, b in ff[r][o]] or any(len(d) != n or not feq(x[1], d[r]) for (_, d, _), x in zip(fb[o], ff[r][o])):
                        bad = f"row {r} of {n}: fuzzy[{o}] differs from the fuzzy output of the row processed alone"
                        break
                if bad:
                    break
            if bad:
                ctx.violation(f"large-batch/{mode}/{nm.split('+')[0]}", {"engine": E, "rows": [rows[r]] if bad.startswith("row") else [], "batch_length": n}, None, bad, note=f"{nm}: {bad}")
    ctx.extra["large_batches"] = big
    ctx.extra["histories"] = len(cases)
    ctx.rule = ("seeded histories of 3-4 rows (one of 8 = the resolution) per General engine of the C01 catalogue and its lock-previous/default/lock-range variants; "
                "each history in float mode and under every composition into batches, set per variable and through input_values; non-trivial = some rule contributes")
    ctx.assumptions += ["modes are compared with the specification to 1e-9 and their fuzzy_value() strings with each other exactly",
                        "an output that receives no contribution holds a 0-d value in batch mode; it is read as the same value on every row"]


def replay(v) -> int:
    fl = core.import_fuzzylite()
    ctx = core.Ctx("C02", "quick", v.get("seed", 0))
    case = {"engine": v["case"]["engine"], "rows": v["case"]["rows"]}
    exp = engine_run.evaluate(ctx, [case], "replay")
    expected = {k: o for (c, k), o in exp.items()}
    L = len(case["rows"])
    rc = 0
    for parts in ([v["case"]["partition"]] if "partition" in v["case"] else [[1] * L]):
        for mode in (["float"] if all(p == 1 for p in parts) and "partition" not in v["case"] else ["arrays", "matrix"]):
            bad, exc, _ = run_mode(fl, case["engine"], case["rows"], parts, mode, expected)
            print(mode, parts, "->", bad or exc or "conforms")
            rc = rc or (1 if (bad or exc) else 0)
    import shutil

    shutil.rmtree(ctx.work, ignore_errors=True)
    if rc:
        print("VIOLATION property=C02 replay=(given)")
    return rc
