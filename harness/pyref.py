"""Python mirrors of the rational closed forms of the specification, used ONLY to evaluate them at
off-grid doubles (exactly, on Fraction(double)).  Every mirror is cross-checked against TLC's exact
values at every grid point of every run (the drivers call `crosscheck`), so it cannot drift from the
TLA+ text.  Each function returns (value, margin): margin is the distance of the nearest branch
condition from its boundary (inf when there is none) so that drivers can skip points where rounding
may legitimately flip a branch."""
from __future__ import annotations

import math
from fractions import Fraction as F

INF = math.inf


def norm(op: str, a: F, b: F):
    """(exact value of the documented formula, sensitivity).  sensitivity is 0.0 when the branch condition of the
    formula, evaluated in binary64 on the same operands, differs from its exact evaluation (the only legitimate
    effect of rounding on a branch: a+b or a*b is computed, the operands themselves are compared exactly), else inf"""
    fa, fb = float(a), float(b)
    if op == "AlgebraicProduct":
        return a * b, INF
    if op == "BoundedDifference":
        return max(F(0), a + b - 1), INF
    if op == "DrasticProduct":
        return (min(a, b) if max(a, b) == 1 else F(0)), INF
    if op == "EinsteinProduct":
        return a * b / (2 - (a + b - a * b)), INF
    if op == "HamacherProduct":
        return (a * b / (a + b - a * b) if a + b != 0 else F(0)), (INF if (a + b != 0) == (fa + fb != 0.0) else 0.0)
    if op == "Minimum":
        return min(a, b), INF
    if op == "NilpotentMinimum":
        return (min(a, b) if a + b > 1 else F(0)), (INF if (a + b > 1) == (fa + fb > 1.0) else 0.0)
    if op == "AlgebraicSum":
        return a + b - a * b, INF
    if op == "BoundedSum":
        return min(F(1), a + b), INF
    if op == "DrasticSum":
        return (max(a, b) if min(a, b) == 0 else F(1)), INF
    if op == "EinsteinSum":
        return (a + b) / (1 + a * b), INF
    if op == "HamacherSum":
        return ((a + b - 2 * a * b) / (1 - a * b) if a * b != 1 else F(1)), (INF if (a * b != 1) == (fa * fb != 1.0) else 0.0)
    if op == "Maximum":
        return max(a, b), INF
    if op == "NilpotentMaximum":
        return (max(a, b) if a + b < 1 else F(1)), (INF if (a + b < 1) == (fa + fb < 1.0) else 0.0)
    if op == "NormalizedSum":
        return (a + b) / max(F(1), a + b), INF
    if op == "UnboundedSum":
        return a + b, INF
    raise ValueError(op)


def hedge(name: str, x: F):
    """rational hedges exactly; sqrt hedges as float; returns (value, margin)"""
    if name == "any":
        return F(1), INF
    if name == "not":
        return 1 - x, INF
    if name == "very":
        return x * x, INF
    if name == "somewhat":
        return math.sqrt(x), INF
    if name == "extremely":
        return (2 * x * x if x <= F(1, 2) else 1 - 2 * (1 - x) ** 2), abs(x - F(1, 2))
    if name == "seldom":
        return (math.sqrt(x / 2) if x <= F(1, 2) else 1 - math.sqrt((1 - x) / 2)), abs(x - F(1, 2))
    raise ValueError(name)


# ---------------------------------------------------------------------------------------------------
def weighted(cls, type_, acts, aggr, term_value, tsukamoto_value, term_type):
    """mirror of Defuzzifiers.Weighted on exact Fractions.  acts: list of (name, degree Fraction).
    term_value(name, w) / tsukamoto_value(name, w) -> Fraction | float; term_type(name) -> kind string.
    returns ("raises", None) or ("value", number) with number possibly nan"""
    def nn(d):
        if isinstance(d, float):
            return F(0) if (math.isnan(d) or d == -math.inf) else F(1) if d == math.inf else F(d)
        return d

    types = {term_type(n) for n, _ in acts}
    ty = type_
    if ty == "Automatic":
        ty = "Automatic" if not types else (types.pop() if len(types) == 1 else "error")
    if ty == "error":
        return "raises", None
    if ty == "Tsukamoto" and any(term_type(n) != "Tsukamoto" for n, _ in acts):
        return "raises", None
    groups = []
    op = "UnboundedSum" if aggr == "none" else aggr
    for n, d in acts:
        d = nn(d)
        for g in groups:
            if g[0] == n:
                g[1] = nn(norm(op, g[1], d)[0])
                break
        else:
            groups.append([n, d])
    if not acts:
        return "value", math.nan
    ws, wt = F(0), F(0)
    for n, w in groups:
        if w != 0:
            z = tsukamoto_value(n, w) if ty == "Tsukamoto" else term_value(n, w)
            ws = ws + w * z
        wt += w
    if wt == 0:
        return "value", math.nan
    return "value", ws / wt if cls == "WeightedAverage" else ws


# ---------------------------------------------------------------------------------------------------
# C09: the property's reductions from a sampled pair (x, y), applied to the arrays the CODE computed
# (link 2 of DESIGN.md C09).  x, y are lists of floats.  Returns a set of acceptable values (usually one):
# for Bisector every mean of a union of the groups of exactly tied points below / at / above one half.
def reductions(x, y):
    import itertools

    n = len(x)
    out = {}
    sy = math.fsum(v for v in y if not math.isnan(v))
    anynan = any(math.isnan(v) for v in y)
    if anynan:
        out["Centroid"] = [math.nan]
    else:
        out["Centroid"] = [math.fsum(a * b for a, b in zip(x, y)) / sy] if sy != 0 else [math.nan]
    ymax = max(y) if not anynan else math.nan
    idx = [i for i in range(n) if y[i] > 0 and y[i] == ymax] if not anynan else []
    # ties in y == y.max(): values that are equal exactly in rational arithmetic may differ by an ulp in floats
    near = [i for i in range(n) if not anynan and y[i] > 0 and abs(y[i] - ymax) <= 1e-12 * ymax]
    def pick(ix):
        if not ix:
            return {"SmallestOfMaximum": math.nan, "MeanOfMaximum": math.nan, "LargestOfMaximum": math.nan}
        xs = [x[i] for i in ix]
        return {"SmallestOfMaximum": min(xs), "MeanOfMaximum": math.fsum(xs) / len(xs), "LargestOfMaximum": max(xs)}
    strict, loose = pick(idx), pick(near)
    for k in strict:
        out[k] = [strict[k]] + ([loose[k]] if near != idx else [])
    # Bisector
    if sy == 0 or anynan and sy == 0:
        out["Bisector"] = [math.nan]
    else:
        cum, acc = [], F(0)
        for v in y:
            acc += F(0) if math.isnan(v) else F(v)
            cum.append(acc)
        tot = cum[-1]
        dev = [abs(c / tot - F(1, 2)) for c in cum]
        m = min(dev)
        tied = [i for i in range(n) if dev[i] - m <= F(1, 10**12)]
        below = [i for i in tied if cum[i] / tot < F(1, 2) - F(1, 10**13)]
        above = [i for i in tied if cum[i] / tot > F(1, 2) + F(1, 10**13)]
        at = [i for i in tied if i not in below and i not in above]
        vals = []
        for r in range(1, 4):
            for combo in itertools.combinations([g for g in (below, at, above) if g], r):
                ix = sorted(i for g in combo for i in g)
                vals.append(math.fsum(x[i] for i in ix) / len(ix))
        # a single point of a tied group is what rounding may leave, too
        vals += [x[i] for i in tied]
        out["Bisector"] = vals
    return out
