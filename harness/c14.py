"""C14  FuzzyLite Language export/import round-trips engines.

1. TLC: spec/MC_FllSyntax - on every engine enumerated component-wise (every term class x parameter pattern x
   height class, activation methods, defuzzifiers, operators, flags, weights, shapes) x decimals:
   Import(Export(e)) = Canon(e), Export(Import(Export(e))) = Export(e), and every meaning-preserving variant of
   the text (attributes reordered, defaults omitted or spelled out, `none` left empty, other number spellings,
   comments and blank lines, duplicated attributes) imports to Canon(e).  Canary: an importer that crosses
   lock-range and lock-previous must fail.
2. spec -> code: each emitted engine is built with constructors; the real FllExporter's text must equal the
   specification's token for token (indentation included); the real FllImporter's result, projected, must equal
   Canon(e); export-import-export must be textually stable; two variants per case are imported and must give
   Canon(e) and re-export to the canonical text; original and re-imported engine must compute identical outputs.
3. code -> spec: seeded random whole engines and the shipped examples: the text recorded from the real exporter is
   lexed and validated by TLC against the specification (it is the specification's export of the projected
   engine, and the specification's importer reads the projected engine back from it); arbitrary doubles are
   projected onto numerals by exact decimal rounding.
"""
from __future__ import annotations

import copy
import json
import math
import random

import numpy as np

from . import core, fll
from .tlc import MachineryError, write_cfg

HEAD = "SPECIFICATION Spec\nCONSTANTS FromFile = {ff}\n  Emit = {e}\n  CrossLocks = {c}\n  Decs = {d}\n"
INVS = "INVARIANT RoundTrip\nINVARIANT TextStable\nINVARIANT VariantsNormalise\n"


def rows_for(rng, eng, n=6):
    rows = []
    for _ in range(n):
        row = []
        for v in eng.input_variables:
            lo, hi = float(v.minimum), float(v.maximum)
            if not (math.isfinite(lo) and math.isfinite(hi)) or lo > hi:
                lo, hi = -1.0, 1.0
            row.append(rng.choice([lo, hi, (lo + hi) / 2, lo + (hi - lo) * rng.random(), math.nan if rng.random() < 0.1 else lo + (hi - lo) * 0.25]))
        rows.append(row)
    return rows


def outputs(eng, rows):
    """outputs of `eng` on the rows, or the exception class"""
    res = []
    for row in rows:
        try:
            eng.restart()
            for v, x in zip(eng.input_variables, row):
                v.value = x
            eng.process()
            res.append([float(np.asarray(o.value, dtype=float).reshape(-1)[-1]) for o in eng.output_variables])
        except Exception as ex:  # compared between the two engines
            res.append(type(ex).__name__)
    return res


def same(a, b):
    if isinstance(a, str):      # the original raises (degenerate parameters such as a zero width given as a Python float): nothing to compare
        return True
    if isinstance(b, str):
        return False
    return len(a) == len(b) and all((math.isnan(x) and math.isnan(y)) or x == y for x, y in zip(a, b))


def first_diff(a, b):
    for i, (x, y) in enumerate(zip(a, b)):
        if x != y:
            return i, x, y
    return min(len(a), len(b)), None, None


def where(a, b, path=""):
    """first path where two abstract engines differ"""
    if type(a) is not type(b):
        return f"{path}: {a!r} != {b!r}"
    if isinstance(a, dict):
        for k in a:
            if k not in b:
                return f"{path}.{k} missing"
            w = where(a[k], b[k], f"{path}.{k}")
            if w:
                return w
        return None
    if isinstance(a, list):
        if len(a) != len(b):
            return f"{path}: {len(a)} items != {len(b)} items"
        for i, (x, y) in enumerate(zip(a, b)):
            w = where(x, y, f"{path}[{i}]")
            if w:
                return w
        return None
    return None if a == b else f"{path}: {a!r} != {b!r}"


def check_case(ctx, fl, c, rng, origin):
    e, dec, canon = c["engine"], c["dec"], c["canon"]
    case = {"engine": e, "dec": dec, "origin": origin}
    with fl.settings.context(decimals=dec):
        try:
            real = fll.build(fl, e, dec)
        except Exception as ex:
            raise MachineryError(f"cannot build the engine of a case ({origin}): {type(ex).__name__}: {ex}\n{json.dumps(e)[:600]}")
        ctx.count()
        text = fl.FllExporter().to_string(real)
        want = fll.line_tokens(c["lines"])
        got = fll.tokens_of(text)
        if got != want:
            i, x, y = first_diff(got, want)
            ctx.violation(f"FllExporter/text/{(y or x or (0, ['?']))[1][0]}", case, y, x, note=f"line {i}: exported {x}, the language prescribes {y}")
            return
        if not text.endswith("\n"):
            ctx.violation("FllExporter/text/final-newline", case, "newline", text[-20:])
        # import
        ctx.count()
        try:
            imported = fl.FllImporter().from_string(text)
        except Exception as ex:
            ctx.violation(f"FllImporter/rejects-own-export/{type(ex).__name__}", dict(case, text=text), "an engine", f"{type(ex).__name__}: {ex}")
            return
        proj = fll.project(fl, imported, dec)
        if proj != canon:
            ctx.violation("FllImporter/structure/" + (where(canon, proj) or "?").split(":")[0].split("[")[0].strip("."), dict(case, text=text), canon, proj,
                          note=f"imported engine differs from the exported one at {where(canon, proj)}")
            return
        text2 = fl.FllExporter().to_string(imported)
        ctx.count()
        if text2 != text:
            i, x, y = first_diff(text2.split("\n"), text.split("\n"))
            ctx.violation("Fll/export-import-export/text-changes", dict(case, text=text), y, x, note=f"line {i}: '{y}' became '{x}'")
            return
        # variants: accepted spellings normalise in one cycle
        for v in c.get("variants", []):
            vt = fll.render(v["lines"])
            ctx.count()
            try:
                iv = fl.FllImporter().from_string(vt)
            except Exception as ex:
                ctx.violation(f"FllImporter/rejects-variant/{v['name']}/{type(ex).__name__}", dict(case, text=vt), "an engine", f"{type(ex).__name__}: {ex}")
                continue
            pv = fll.project(fl, iv, dec)
            if pv != canon:
                ctx.violation(f"FllImporter/variant/{v['name']}", dict(case, text=vt), canon, pv, note=f"variant '{v['name']}' imports differently: {where(canon, pv)}")
                continue
            tv = fl.FllExporter().to_string(iv)
            if tv != text:
                i, x, y = first_diff(tv.split("\n"), text.split("\n"))
                ctx.violation(f"Fll/variant-not-normalised/{v['name']}", dict(case, text=vt), y, x, note=f"line {i}")
        # every Function term of the imported engine sees what the original's sees: the engine's variables by name - inputs, outputs,
        # variables declared later in the text, its own variable - and the argument
        for eng_ in (real, imported):
            for k_, v_ in enumerate(eng_.input_variables + eng_.output_variables):
                v_.value = 0.25 + 0.125 * k_
        for va, vb in zip(real.input_variables + real.output_variables, imported.input_variables + imported.output_variables):
            for ta, tb in zip(va.terms, vb.terms):
                if type(ta).__name__ != "Function" or type(tb).__name__ != "Function" or ta.variables:
                    continue        # (a term's own variables are not part of the language: the text cannot hold them)
                ctx.count()
                res = []
                for t_ in (ta, tb):
                    try:
                        res.append(float(np.asarray(t_.membership(0.5), dtype=float)))
                    except Exception as ex:
                        res.append(f"{type(ex).__name__}")
                if not (res[0] == res[1] or (isinstance(res[0], float) and isinstance(res[1], float) and (math.isnan(res[0]) and math.isnan(res[1]) or abs(res[0] - res[1]) <= 1e-9 * max(1.0, abs(res[0]))))):
                    ctx.violation("Fll/re-imported-engine/function-term-differs", dict(case, text=text, variable=va.name, term=ta.name), res[0], res[1],
                                  note=f"term {va.name}.{ta.name} '{ta.formula}' at x = 0.5: original {res[0]}, re-imported {res[1]}")
        for eng_ in (real, imported):
            eng_.restart()
        # same outputs (engines whose heights and weights are 1 or far from 1: canon = engine)
        if canon == e and real.input_variables and real.output_variables:
            rows = rows_for(rng, real)
            ctx.count()
            a, b = outputs(real, rows), outputs(imported, rows)
            for row, x, y in zip(rows, a, b):
                if not same(x, y):
                    ctx.violation("Fll/re-imported-engine/outputs-differ", dict(case, row=row, text=text), x, y, note=f"inputs {row}: original {x}, re-imported {y}")
                    break
    return text


def replay_emitted(ctx, fl, emitted, rng, origin, stride=1):
    n = 0
    for i, c in enumerate(emitted):
        if i % stride:
            continue
        check_case(ctx, fl, c, rng, origin)
        n += 1
        ctx.traces += 1
        ctx.case((origin, i), nontrivial=bool(c["engine"]["inputs"] or c["engine"]["outputs"] or c["engine"]["blocks"]))
    return n


def example_engines(fl):
    import importlib
    import pkgutil

    import fuzzylite.examples as ex

    res = []
    for m in pkgutil.walk_packages(ex.__path__, ex.__name__ + "."):
        if m.ispkg:
            continue
        mod = importlib.import_module(m.name)
        for name in dir(mod):
            obj = getattr(mod, name)
            if isinstance(obj, type) and obj.__module__ == mod.__name__:
                try:
                    res.append((m.name, obj().engine))
                except Exception:
                    pass
    return res


def run(ctx: core.Ctx):
    fl = core.import_fuzzylite()
    rng = random.Random(ctx.seed)
    decs_mc = "{3}" if ctx.quick else "{0, 1, 3, 4, 9}"
    r = ctx.tlc("MC_FllSyntax", write_cfg("MC_FllSyntax", HEAD.format(ff="FALSE", e="FALSE", c="FALSE", d=decs_mc) + INVS + "CHECK_DEADLOCK FALSE\n"), workers=16, timeout=3000)
    ctx.expect_holds(r, "MC_FllSyntax")
    ctx.expect_canary(ctx.tlc("MC_FllSyntax", write_cfg("MC_FllSyntax_canary", HEAD.format(ff="FALSE", e="FALSE", c="TRUE", d="{3}") + INVS + "CHECK_DEADLOCK FALSE\n"), workers=16, timeout=3000), "CrossLocks")
    # spec -> code
    g = ctx.tlc("MC_FllSyntax", write_cfg("Gen_FllSyntax", HEAD.format(ff="FALSE", e="TRUE", c="FALSE", d="{3}" if ctx.quick else "{0, 3, 9}") + "INVARIANT EmitInv\nCHECK_DEADLOCK FALSE\n"), workers=16, timeout=3000)
    if len(g.emitted) < 3000:
        raise MachineryError(f"only {len(g.emitted)} engines emitted")
    n1 = replay_emitted(ctx, fl, g.emitted, rng, "enumerated", stride=2 if ctx.quick else 1)
    ctx.sample({"engine": g.emitted[len(g.emitted) // 3]["engine"], "dec": g.emitted[len(g.emitted) // 3]["dec"],
                "text": fll.render(g.emitted[len(g.emitted) // 3]["lines"])})
    # code -> spec: whole engines, real exports validated by TLC
    cases = []
    n_rand = 150 if ctx.quick else 1200
    for k in range(n_rand):
        dec = rng.choice([3, 3, 3, 0, 1, 2, 4, 6, 9])
        cases.append({"engine": fll.rengine(rng, dec, k), "dec": dec, "origin": f"seeded-{k}"})
    for k in range(3 if ctx.quick else 30):       # wide engines: more entries in every list than a printer's size limit would pass silently
        dec = rng.choice([3, 2, 6])
        cases.append({"engine": fll.rengine(rng, dec, 2000 + k, wide=True), "dec": dec, "origin": f"seeded-wide-{k}"})
    for name, eng in example_engines(fl):
        with fl.settings.context(decimals=3):
            cases.append({"engine": fll.project(fl, eng, 3), "dec": 3, "origin": name})
    # arbitrary doubles: perturb the numbers of built engines, project them back (structural clauses only)
    for k in range(40 if ctx.quick else 300):
        dec = rng.choice([3, 2, 5])
        with fl.settings.context(decimals=dec):
            real = fll.build(fl, fll.rengine(rng, dec, k), dec)
            for v in real.input_variables + real.output_variables:
                v.minimum = v.minimum + rng.uniform(-1e-4, 1e-4) if math.isfinite(v.minimum) else v.minimum
                for t in v.terms:
                    for a in fll.ATTRS.get(type(t).__name__, []):
                        x = getattr(t, a)
                        if math.isfinite(x):
                            setattr(t, a, x * (1 + rng.uniform(-1e-3, 1e-3)) + rng.uniform(-1e-7, 1e-7))
                    # heights and weights that are not 1.0 but print as 1 / lie well inside the comparison tolerance of 1
                    if type(t).__name__ in fll.ATTRS and type(t).__name__ != "Constant" and t.height == 1.0 and rng.random() < 0.5:
                        t.height = rng.choice([math.nextafter(1.0, 0.0), math.nextafter(1.0, 2.0), 0.7 + 0.2 + 0.1, 1.0 - 1e-7, 1.0 + 3e-4, 1.0 - 4e-4])
            for b in real.rule_blocks:
                for r_ in b.rules:
                    if r_.weight == 1.0 and rng.random() < 0.3:
                        r_.weight = rng.choice([math.nextafter(1.0, 0.0), math.nextafter(1.0, 2.0), 1.0 - 1e-7, 1.0 + 3e-4])
            cases.append({"engine": fll.project(fl, real, dec), "dec": dec, "origin": f"perturbed-{k}", "real": real})
    recorded = []
    for c in cases:
        with fl.settings.context(decimals=c["dec"]):
            real = c.pop("real", None) or fll.build(fl, c["engine"], c["dec"])
            c["text"] = fll.lex(fl.FllExporter().to_string(real), c["dec"])
        recorded.append(real)
    runs = ctx.tlc_cases("MC_FllSyntax", write_cfg("File_FllSyntax", HEAD.format(ff="TRUE", e="TRUE", c="FALSE", d="{3}") + INVS + "INVARIANT EmitInv\nCHECK_DEADLOCK FALSE\n"),
                         [{"engine": c["engine"], "dec": c["dec"], "text": c["text"]} for c in cases], label="engines", workers=16, timeout=3000)
    nf = 0
    for run_ in runs:
        ctx.expect_holds(run_, "MC_FllSyntax[file]")
        for c in run_.emitted:
            nf += 1
            origin = "recorded"
            v = c["verdict"]
            ctx.count()
            if not v["text_is_export"]:
                want = fll.line_tokens(c["lines"])
                ctx.violation("FllExporter/recorded-text-rejected", {"engine": c["engine"], "dec": c["dec"]}, want, None,
                              note="the text recorded from the real exporter is not the specification's export of the projected engine")
            elif not v["import_reads_engine"]:
                ctx.violation("FllExporter/recorded-text-import", {"engine": c["engine"], "dec": c["dec"]}, c["canon"], None,
                              note="the specification's importer does not read the projected engine back from the recorded text")
            check_case(ctx, fl, c, rng, origin)
            ctx.traces += 1
            ctx.case(("file", nf))
    if nf < len(cases) - ctx.extra.get("cases_dropped_overflow", 0):
        raise MachineryError(f"{nf} of {len(cases)} recorded texts validated")
    ctx.extra["recorded_texts_validated_by_tlc"] = nf
    # formulas written with runs of blanks and tabs between their tokens (the abstract engines hold single-spaced tokens: this clause
    # is checked on the real objects only): the text is a fixed point of export . import
    nsp = 0
    for k in range(400 if ctx.quick else 3000):
        dec = 3
        E_ = fll.rengine(rng, dec, 5000 + k)
        with fl.settings.context(decimals=dec):
            real = fll.build(fl, E_, dec)
            fts = [t for v in real.input_variables + real.output_variables for t in v.terms if type(t).__name__ == "Function" and " " in t.formula]
            if not fts:
                continue
            for t in fts:
                parts = t.formula.split(" ")
                t.formula = parts[0] + "".join(rng.choice(["  ", " \t ", "   ", " "]) + q for q in parts[1:])
                t.load()
            nsp += 1
            ctx.count()
            text = fl.FllExporter().to_string(real)
            try:
                text2 = fl.FllExporter().to_string(fl.FllImporter().from_string(text))
            except Exception as ex:
                ctx.violation(f"FllImporter/rejects-own-export/{type(ex).__name__}/spaced-formula", {"engine": E_, "text": text}, "an engine", f"{type(ex).__name__}: {ex}")
                continue
            if text2 != text:
                i, x, y = first_diff(text2.split("\n"), text.split("\n"))
                ctx.violation("Fll/export-import-export/text-changes/spaced-formula", {"engine": E_, "text": text}, y, x, note=f"line {i}: '{y}' became '{x}'")
        if nsp >= (25 if ctx.quick else 200):
            break
    ctx.extra["spaced_formula_engines"] = nsp
    ctx.extra["example_engines"] = len([c for c in cases if not c["origin"].startswith(("seeded", "perturbed"))])
    ctx.exhaustive = not ctx.quick      # the quick tier replays a stride of the enumerated cases (TLC checks all of them on the model)
    ctx.rule = (f"{n1} component-wise enumerated engines (every term class x parameter pattern x height class, activations, defuzzifiers, operators, flags, weights) "
                f"replayed on the real exporter and importer with two text variants each; {nf} whole engines (seeded random, perturbed doubles, the shipped examples) "
                "exported by the real code, validated by TLC and round-tripped")
    ctx.assumptions += ["names are identifiers, descriptions contain neither '#' nor line breaks (the language cannot hold them)",
                        "heights and rule weights are 1 or differ from 1 by more than twice the comparison tolerance where equality of outputs is required",
                        "Constant, Linear and Function terms have height 1 (their syntax has no height)"]


def replay(v) -> int:
    fl = core.import_fuzzylite()
    c = v["case"]
    with fl.settings.context(decimals=c["dec"]):
        real = fll.build(fl, c["engine"], c["dec"])
        text = c.get("text") or fl.FllExporter().to_string(real)
        print(text)
        try:
            imp = fl.FllImporter().from_string(text)
            t2 = fl.FllExporter().to_string(imp)
            print("--- re-exported ---")
            print(t2)
            same_struct = fll.project(fl, imp, c["dec"]) == v.get("expected") if isinstance(v.get("expected"), dict) else None
            print("structure as expected:", same_struct)
        except Exception as ex:
            print(f"{type(ex).__name__}: {ex}")
    print("expected:", json.dumps(v.get("expected"))[:400])
    print("observed:", json.dumps(v.get("observed"))[:400])
    print("VIOLATION property=C14 replay=(given)")
    return 1
