"""./check entry point.

  ./check Cxx [--tier quick|thorough]      run the check of one property
  ./check Cxx --replay FILE                re-run one stored violating case, step by step
  ./check --selftest                       setup_cmd: parse every module, import the harness and the library
  ./check --all [--tier T]                 every property in turn (dev aid)

exit 0: property held on everything explored; 1: VIOLATION line(s) printed; 2: machinery failure.
"""
from __future__ import annotations

import argparse
import importlib
import json
import os
import sys
import traceback

from . import core, tlc
from .tlc import MachineryError

PROPS = [f"C{i:02d}" for i in range(1, 21)]


def selftest() -> int:
    mods = sorted(p.stem for p in tlc.SPEC.glob("*.tla"))
    roots = [m for m in mods if m.startswith(("MC_", "Gen_", "Trace_"))] or mods
    bad = 0
    for m in roots:
        try:
            tlc.sany(m)
        except MachineryError as ex:
            bad += 1
            print(f"selftest: {ex}", file=sys.stderr)
    fl = core.import_fuzzylite()
    print(f"selftest: {len(roots)} root modules ({len(mods)} modules) parsed, fuzzylite from {fl.__file__}")
    for p in PROPS:
        try:
            importlib.import_module(f"harness.{p.lower()}")
        except ModuleNotFoundError as ex:
            if f"harness.{p.lower()}" not in str(ex):
                raise
    return 2 if bad else 0


def run_one(pid: str, tier: str, seed: int, replay: str | None) -> int:
    try:
        mod = importlib.import_module(f"harness.{pid.lower()}")
    except ModuleNotFoundError:
        print(f"no check for {pid}", file=sys.stderr)
        return 2
    ctx = None
    try:
        if replay:
            return mod.replay(json.load(open(replay)))
        ctx = core.Ctx(pid, tier, seed)
        mod.run(ctx)
        return ctx.finish()
    except MachineryError as ex:
        print(f"[{pid}] MACHINERY FAILURE: {ex}", file=sys.stderr)
        return 2
    except Exception as ex:
        # An exception that escapes from INSIDE the library, out of a call the driver makes on an input of the property's domain
        # without expecting a refusal, is the library's behaviour, not a failure of the machinery: the drivers guard every call
        # where the property allows a refusal, and on the unchanged tree no call raises.  It is reported as a violation.
        tb = traceback.extract_tb(ex.__traceback__)
        lib = str(core.REPO) + os.sep if hasattr(core, "REPO") else os.environ.get("VERIF_REPO", "/repo") + os.sep
        in_library = bool(tb) and tb[-1].filename.startswith((lib, "/venv/lib")) and any(f.filename.startswith(lib) for f in tb)
        if ctx is not None and in_library and not isinstance(ex, (MemoryError, KeyboardInterrupt)):
            site = next((f for f in reversed(tb) if "/harness/" in f.filename), tb[0])
            ctx.violation(f"library-raises/{type(ex).__name__}/{os.path.basename(site.filename)}:{site.name}", {"call_site": f"{site.filename}:{site.lineno}", "line": site.line,
                          "traceback": traceback.format_exception(ex)[-6:]}, "a value (the unchanged library returns one here)", f"{type(ex).__name__}: {ex}",
                          note=f"the library raised {type(ex).__name__} out of {os.path.basename(site.filename)}:{site.lineno} `{site.line}`; the check stopped there")
            ctx.finish()
            return 1
        print(f"[{pid}] MACHINERY FAILURE (harness exception):", file=sys.stderr)
        traceback.print_exc()
        return 2


def main() -> int:
    import faulthandler
    import signal

    faulthandler.register(signal.SIGUSR1)      # `kill -USR1 <pid>` prints the Python stack of a run that seems stuck
    ap = argparse.ArgumentParser()
    ap.add_argument("prop", nargs="?")
    ap.add_argument("--tier", default=os.environ.get("VERIF_TIER", "quick"), choices=["quick", "thorough"])
    ap.add_argument("--replay")
    ap.add_argument("--selftest", action="store_true")
    ap.add_argument("--all", action="store_true")
    ap.add_argument("--extras", action="store_true", help="specification growth beyond the listed properties (spec/EngineExtras.tla); not in MANIFEST.json")
    a = ap.parse_args()
    seed = int(os.environ.get("VERIF_SEED", "20261001"))
    if a.selftest:
        return selftest()
    if a.extras:
        try:
            from . import extras, factories
            worst = 0
            for xid, mod, name in (("X01", extras, "extras-evidence.json"), ("X02", factories, "factories-evidence.json")):
                ctx = core.Ctx(xid, a.tier, seed)
                mod.run(ctx)
                worst = max(worst, ctx.finish())
                ev = core.VERIF / "evidence" / f"{xid}.json"       # not a listed property: its evidence lives with the notes
                if ev.exists():
                    ev.replace(core.VERIF / "notes" / name)
            return worst
        except MachineryError as ex:
            print(f"[X01] MACHINERY FAILURE: {ex}", file=sys.stderr)
            return 2
    if a.all:
        worst = 0
        for p in PROPS:
            worst = max(worst, run_one(p, a.tier, seed, None))
        return worst
    if not a.prop:
        ap.error("property id required")
    return run_one(a.prop.upper(), a.tier, seed, a.replay)


if __name__ == "__main__":
    sys.exit(main())
