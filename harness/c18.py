"""C18  FuzzyLite Dataset export is a faithful tabulation of the engine.

1. TLC: spec/MC_FldGrid - Root(v, n) is the integer n-th root for all v <= 2000, n <= 4; the counter of
   Op.increment run as a state machine visits exactly the k^n index vectors in lexicographic order (last
   index fastest, also with inactive variables of radix 1) and then stops.  Canary: a root that is one too
   small on perfect cubes.
2. Replay: Op.increment against the visit sequences; real FldExporter on engines with 1-4 inputs for
   `all variables = v` (quick: v <= 130 and every perfect power <= 2000; thorough: every v) and
   `each variable = v` (v^inputs <= 4096): header, number of rows, every input column against the exact grid
   (min + i (max-min)/(k-1), within half a unit of the last printed decimal), every output column against
   the engine's own process() of that row one row at a time; header / inputs / outputs switches, separators,
   decimals 1..9; reader contents with blank / comment / indented-comment lines and skipped lines.
"""
from __future__ import annotations

import io
import itertools
import math
import random
from fractions import Fraction as F

import numpy as np

from . import core
from .tlc import MachineryError, write_cfg


def make_engine(fl, n, ranges):
    ins = [fl.InputVariable(f"i{j + 1}", minimum=lo, maximum=hi, terms=[fl.Ramp("up", lo, hi), fl.Triangle("mid", lo, (lo + hi) / 2, hi)]) for j, (lo, hi) in enumerate(ranges[:n])]
    outs = [fl.OutputVariable("o1", minimum=0.0, maximum=1.0, aggregation=fl.Maximum(), defuzzifier=fl.Centroid(10),
                              terms=[fl.Triangle("a", 0.0, 0.25, 0.5), fl.Triangle("b", 0.5, 0.75, 1.0)]),
            fl.OutputVariable("o2", minimum=-1.0, maximum=1.0, defuzzifier=fl.WeightedAverage(), terms=[fl.Constant("c1", -0.5), fl.Constant("c2", 0.75)])]
    rules = [fl.Rule.create(f"if i{j + 1} is up then o1 is {'a' if j % 2 else 'b'} and o2 is c{1 + j % 2}") for j in range(n)]
    rules += [fl.Rule.create(f"if i1 is mid then o1 is a and o2 is c1 with 0.5")]
    return fl.Engine("fld", input_variables=ins, output_variables=outs,
                     rule_blocks=[fl.RuleBlock("rb", conjunction=fl.Minimum(), disjunction=fl.Maximum(), implication=fl.Minimum(), activation=fl.General(), rules=rules)])


RANGES = [(0.0, 1.0), (-1.0, 3.0), (0.5, 0.75), (-10.0, 10.0)]
RANGES_REVERSED = [(1.0, 0.0), (-1.0, 3.0), (0.75, 0.5), (10.0, -10.0)]      # minimum above maximum: the grid runs downwards


def check_export(ctx, fl, e, n, v, scope, k, decimals=3, sep=" ", headers=True, inputs=True, outputs=True):
    # every second export goes through ONE long-lived exporter whose public options are re-assigned between exports
    pool = check_export.__dict__.setdefault("pool", {"n": 0})
    pool["n"] += 1
    if pool["n"] % 2 and "ex" in pool:
        ex = pool["ex"]
        ex.separator, ex.headers, ex.input_values, ex.output_values = sep, headers, inputs, outputs
    else:
        ex = pool["ex"] = fl.FldExporter(separator=sep, headers=headers, input_values=inputs, output_values=outputs)
    sc = fl.FldExporter.ScopeOfValues.AllVariables if scope == "all" else fl.FldExporter.ScopeOfValues.EachVariable
    case = {"inputs": n, "values": v, "scope": scope, "decimals": decimals, "separator": sep, "headers": headers, "input_values": inputs, "output_values": outputs,
            "reversed_ranges": bool(e.input_variables[0].minimum > e.input_variables[0].maximum)}
    cube = "perfect-power" if (scope == "all" and round(v ** (1 / n)) ** n == v and n > 1) else "generic"
    try:
        with fl.settings.context(decimals=decimals):
            text = ex.to_string_from_scope(e, values=v, scope=sc)
    except Exception as exn:
        ctx.violation(f"FldExporter/raises-{type(exn).__name__}", case, "a dataset", f"{type(exn).__name__}: {exn}")
        return
    ctx.count()
    lines = text.split("\n")
    if lines and lines[-1] == "":
        lines = lines[:-1]
    if headers:
        want_h = sep.join(([iv.name for iv in e.input_variables] if inputs else []) + ([ov.name for ov in e.output_variables] if outputs else []))
        if not lines or lines[0] != want_h:
            ctx.violation("FldExporter/header", case, want_h, lines[0] if lines else None)
            return
        lines = lines[1:]
    want_rows = k ** n
    if len(lines) != want_rows:
        ctx.violation(f"FldExporter/row-count/{scope}/{cube}/inputs={n}", case, want_rows, len(lines), note=f"{scope} variables = {v} over {n} inputs: {len(lines)} rows instead of {k}^{n}")
        return
    if not (inputs or outputs):
        return
    half = F(1, 2 * 10 ** decimals)
    grid = [[F(iv.minimum) + (F(i) * (F(iv.maximum) - F(iv.minimum)) / (k - 1) if k > 1 else 0) for i in range(k)] for iv in e.input_variables]
    idx_iter = itertools.product(range(k), repeat=n)      # lexicographic, last input fastest (cross-checked with TLC's visit sequences)
    check_out = outputs and (want_rows <= 300 or ctx.extra.get("_rng").random() < 0.15)
    for ln, (line, idx) in enumerate(zip(lines, idx_iter)):
        toks = line.split(sep)
        ncols = (n if inputs else 0) + (len(e.output_variables) if outputs else 0)
        if len(toks) != ncols:
            ctx.violation("FldExporter/columns", dict(case, line=line), ncols, len(toks))
            return
        if any(len(t.split(".")[-1]) != decimals for t in toks if t not in ("nan", "inf", "-inf")):
            ctx.violation("FldExporter/decimals", dict(case, line=line), decimals, line)
            return
        if inputs:
            for j in range(n):
                exact = grid[j][idx[j]]
                if abs(F(toks[j]) - exact) > half * (1 + F(1, 10 ** 6)):
                    ctx.violation(f"FldExporter/grid-value/{scope}", dict(case, row=ln, column=j), float(exact), toks[j],
                                  note=f"row {ln}: input {j} is {toks[j]}, the grid point is {float(exact)} (index {idx[j]} of {k})")
                    return
        if check_out and (ln % 7 == 0 or want_rows <= 64):
            for iv, j in zip(e.input_variables, range(n)):
                iv.value = float(grid[j][idx[j]]) if k > 1 else float(iv.minimum)
            e.process()
            for o, ov in enumerate(e.output_variables):
                val = float(np.asarray(ov.value))
                tok = toks[(n if inputs else 0) + o]
                ok = (tok == "nan" and math.isnan(val)) or (tok != "nan" and not math.isnan(val) and abs(F(tok) - F(val)) <= half * (1 + F(1, 10 ** 3)) + F(1, 10 ** 9))
                if not ok:
                    ctx.violation("FldExporter/output-value", dict(case, row=ln, output=o), val, tok, note=f"row {ln}: output {o} printed as {tok}, the engine produces {val}")
                    return


def locked_engine(fl, hi):
    """the abstract engine of FldGrid!Fires: input j has the integer grid 0..hi[j]; the rules read the last input"""
    n = len(hi)
    ins = [fl.InputVariable(f"i{j + 1}", minimum=0.0, maximum=float(h), terms=[fl.Triangle("t", 0.0, float(h) / 2, float(h))]) for j, h in enumerate(hi)]
    last = ins[-1]
    last.terms = [fl.Function("A", "le(abs(x % 8 - 1.5), 0.5)"), fl.Function("B", "eq(x % 8, 5)")]
    for t in last.terms:
        t.load()
    out = fl.OutputVariable("o", minimum=0.0, maximum=4.0, lock_previous=True, defuzzifier=fl.WeightedAverage(), terms=[fl.Constant("c1", 1.0), fl.Constant("c2", 2.0)])
    e = fl.Engine("locked", input_variables=ins, output_variables=[out],
                  rule_blocks=[fl.RuleBlock("rb", conjunction=fl.Minimum(), disjunction=fl.Maximum(), implication=None, activation=fl.General())])
    e.rule_blocks[0].rules = [fl.Rule.create(f"if {last.name} is A then o is c1", e), fl.Rule.create(f"if {last.name} is B then o is c2", e)]
    return e


def locked_table(ctx, fl, hi, col, stale=0):
    e = locked_engine(fl, hi)
    if stale:       # the engine was in use before the export: its output holds the constant of rule B
        for iv in e.input_variables:
            iv.value = 5.0
        e.process()
        if float(np.asarray(e.output_variables[0].value)) != float(stale):
            raise MachineryError("the locked engine does not hold the stale value")
    rows = 1
    for h in hi:
        rows *= h + 1
    equal = all(h == hi[0] for h in hi)
    case = {"radices": [h + 1 for h in hi], "rows": rows, "lock_previous": True, "value_held_before_the_export": stale}
    ctx.count()
    ctx.traces += 1
    ctx.case(("table", tuple(hi)), nontrivial=True)
    try:
        if equal:
            text = fl.FldExporter(input_values=False, headers=False).to_string_from_scope(e, values=hi[0] + 1, scope=fl.FldExporter.ScopeOfValues.EachVariable)
        else:       # unequal radices: the grid is handed over as a reader
            import itertools as it
            src = "\n".join(" ".join(f"{float(d):.3f}" for d in idx) for idx in it.product(*[range(h + 1) for h in hi])) + "\n"
            text = fl.FldExporter(input_values=False, headers=False).to_string_from_reader(e, io.StringIO(src))
    except Exception as exn:
        ctx.violation(f"FldExporter/locked-table/raises-{type(exn).__name__}", case, "a dataset", f"{type(exn).__name__}: {exn}")
        return
    got = [ln.strip() for ln in text.split("\n") if ln.strip()]
    want = ["nan" if c == 0 else f"{float(c):.3f}" for c in col]
    if len(got) != len(want):
        ctx.violation("FldExporter/locked-table/row-count", case, len(want), len(got))
        return
    for i, (a, b) in enumerate(zip(got, want)):
        if a != b:
            ctx.violation("FldExporter/locked-table/output-value", dict(case, row=i), b, a,
                          note=f"row {i} of {rows}: the output locks its previous value; the engine, carried from row to row after one restart, produces {b}, the export prints {a}")
            return


def run(ctx: core.Ctx):
    fl = core.import_fuzzylite()
    rng = random.Random(ctx.seed)
    ctx.extra["_rng"] = rng
    head = "SPECIFICATION Spec\nCONSTANTS VMax = 2000\n  KMax = 5\n  Emit = {e}\n  FloorRoot = {f}\n  RestartEvery = {r}\n  SkipFirstRestart = {s}\n"
    g = ctx.tlc("MC_FldGrid", write_cfg("MC_FldGrid", head.format(e="TRUE", f="FALSE", r=0, s="FALSE") + "INVARIANT RootIsIntegerRoot\nINVARIANT CounterIsLexicographic\nINVARIANT CounterStopsAtEnd\nINVARIANT HoldsAcrossRows\nINVARIANT EmitInv\nCHECK_DEADLOCK FALSE\n"), workers=16)
    ctx.expect_holds(g, "MC_FldGrid")
    ctx.expect_canary(ctx.tlc("MC_FldGrid", write_cfg("MC_FldGrid_canary", head.format(e="FALSE", f="TRUE", r=0, s="FALSE") + "INVARIANT RootIsIntegerRoot\nCHECK_DEADLOCK FALSE\n"), workers=4), "FloorRoot")
    ctx.expect_canary(ctx.tlc("MC_FldGrid", write_cfg("MC_FldGrid_canary2", head.format(e="FALSE", f="FALSE", r=1024, s="FALSE") + "INVARIANT HoldsAcrossRows\nCHECK_DEADLOCK FALSE\n"), workers=4), "RestartEvery")
    ctx.expect_canary(ctx.tlc("MC_FldGrid", write_cfg("MC_FldGrid_canary3", head.format(e="FALSE", f="FALSE", r=0, s="TRUE") + "INVARIANT HoldsAcrossRows\nCHECK_DEADLOCK FALSE\n"), workers=4), "SkipFirstRestart")
    roots = {(r["v"], r["n"]): r["k"] for r in g.emitted if r["kind"] == "root"}
    counts = [r for r in g.emitted if r["kind"] == "count"]
    if len(roots) != 8000 or len(counts) < 20:
        raise MachineryError(f"expected 8000 roots and >= 20 visit sequences, got {len(roots)} and {len(counts)}")
    # Op.increment against the specification's visit sequences (also cross-checks itertools.product order used below)
    for c in counts:
        hi = c["hi"]
        x = [0] * len(hi)
        seq = [list(x)]
        while fl.Op.increment(x, [0] * len(hi), list(hi)):
            seq.append(list(x))
            if len(seq) > 5000:
                break
        ctx.count()
        if seq != c["visited"]:
            ctx.violation("Op.increment/visit-order", {"maximum": hi}, c["visited"][:6], seq[:6], note="the counter does not visit the index vectors in lexicographic order / stops early or late")
        if all(h == hi[0] for h in hi) and seq and [list(t) for t in itertools.product(range(hi[0] + 1), repeat=len(hi))] != c["visited"]:
            raise MachineryError("itertools.product order differs from the specification's enumeration")
        ctx.traces += 1
    ctx.sample({"maximum": counts[3]["hi"], "visited_first": counts[3]["visited"][:5]})
    # the table of an engine that locks its previous output, over more than a thousand rows (spec: FldGrid!RowValue)
    tables = [r for r in g.emitted if r["kind"] == "table"]
    if len(tables) < 8:
        raise MachineryError(f"expected 8 tables, got {len(tables)}")
    for tb in tables:
        locked_table(ctx, fl, tb["hi"], tb["col"], tb["stale"])
    # exports
    engines = {n: make_engine(fl, n, RANGES) for n in (1, 2, 3, 4)}
    reversed_engines = {n: make_engine(fl, n, RANGES_REVERSED) for n in (1, 2, 3, 4)}
    powers = sorted({k ** n for n in (2, 3, 4) for k in range(2, 45) if k ** n <= 2000} | {k ** n - 1 for n in (2, 3, 4) for k in range(2, 45) if 1 < k ** n <= 2000})
    vs = sorted(set(range(1, 131)) | set(powers)) if ctx.quick else list(range(1, 2001))
    for n in (1, 2, 3, 4):
        for v in vs:
            if n == 1 and v > 300 and ctx.quick:
                continue
            k = roots[(v, n)]
            check_export(ctx, fl, engines[n] if v % 5 else reversed_engines[n], n, v, "all", k)
            ctx.traces += 1
            ctx.case(("all", n, v), nontrivial=k > 1)
        for v in range(1, 65):
            if v ** n > 4096:
                break
            check_export(ctx, fl, engines[n] if v % 4 else reversed_engines[n], n, v, "each", v)
            ctx.case(("each", n, v), nontrivial=v > 1)
    # the same exporter and the same engine again after the range of an input was changed in place: the grid follows the current range
    ex_ = fl.FldExporter()
    for n in (1, 2):
        e_ = make_engine(fl, n, RANGES)
        for (lo_, hi_) in ((0.0, 1.0), (0.25, 0.75), (-2.0, 6.0)):
            e_.input_variables[0].minimum, e_.input_variables[0].maximum = lo_, hi_
            pool = check_export.__dict__.get("pool", {})
            saved = dict(pool)
            pool["ex"], pool["n"] = ex_, 0          # check_export takes the pooled exporter on odd counts
            check_export.pool = pool
            check_export(ctx, fl, e_, n, 9 ** n, "all", 9)
            pool["n"] = 0
            check_export(ctx, fl, e_, n, 9, "each", 9)
            check_export.pool = saved or {"n": 0}
            ctx.case(("range-edited", n, lo_), nontrivial=True)
    # a disabled input variable is still an input variable: it is swept like the others (its column holds the grid, the rows are k^n)
    for n in (2, 3):
        e_ = make_engine(fl, n, RANGES)
        e_.input_variables[-1].enabled = False
        check_export(ctx, fl, e_, n, 4 ** n, "all", 4)
        check_export(ctx, fl, e_, n, 4, "each", 4)
        e_.input_variables[0].enabled = False
        check_export(ctx, fl, e_, n, 3 ** n, "all", 3)
        ctx.case(("disabled-input", n), nontrivial=True)
    # switches, separators, decimals
    for dec in range(1, 10):
        for sep in (" ", ",", ";", "\t"):
            n = rng.choice([1, 2, 3])
            v = rng.choice([9, 27, 30, 64])
            ins, outs = rng.random() < 0.8, rng.random() < 0.8
            if not ins and not outs:
                outs = True         # a dataset of no columns at all has no defined text: at least one of the two switches stays on
            check_export(ctx, fl, engines[n], n, v, "all", roots[(v, n)], decimals=dec, sep=sep, headers=rng.random() < 0.7, inputs=ins, outputs=outs)
    # reader contents
    e = engines[2]
    data = ["0.25 1.0", "0.5 -1", " 0.75 2.5 ", "1.0 3.0"]
    kinds = {"data": None, "blank": "", "spaces": "   ", "comment": "# a comment 1 2", "space-comment": "   # indented 3 4"}
    seqs = list(itertools.product(kinds, repeat=4)) if ctx.quick else list(itertools.product(kinds, repeat=5))
    for sq in seqs:
        for skip in range(0, 4):
            lines, kept, di = [], [], 0
            for i, kd in enumerate(sq):
                if kd == "data":
                    lines.append(data[di % len(data)])
                    if i >= skip:
                        kept.append(data[di % len(data)].split())
                    di += 1
                else:
                    lines.append(kinds[kd])
            ctx.count()
            case = {"lines": lines, "skip_lines": skip}
            try:
                txt = fl.FldExporter(headers=False, output_values=False).to_string_from_reader(e, io.StringIO("\n".join(lines) + "\n"), skip_lines=skip)
                got = [l.split() for l in txt.split("\n") if l]
            except Exception as exn:
                if kept:
                    ctx.violation(f"FldExporter.reader/raises-{type(exn).__name__}", case, kept, f"{type(exn).__name__}: {exn}")
                continue
            want = [[f"{float(t):.3f}" for t in row] for row in kept]
            if kept and got != want:
                ctx.violation("FldExporter.reader/rows", case, want, got, note="the rows tabulated from the reader are not the data lines after the skipped ones")
    ctx.extra.pop("_rng")
    ctx.exhaustive = not ctx.quick
    ctx.rule = ("TLC: all (v, n) with v <= 2000, n <= 4 and the counter on every radix vector up to 5^4 plus inactive-variable radices; exports for "
                f"{len(vs)} sizes x 1-4 inputs (all variables) and v^inputs <= 4096 (each variable), 36 switch/separator/decimals combinations, "
                f"{len(seqs) * 4} reader contents; non-trivial = more than one grid value per input")
    ctx.assumptions += ["printed numbers are compared with the exact grid value / the engine's own output within half a unit of the last printed decimal",
                        "for exports of more than 300 rows the output columns are checked on a seeded sample of the exports and every 7th row"]


def replay(v) -> int:
    fl = core.import_fuzzylite()
    c = v["case"]
    if "radices" in c:          # locked table: the column of FldGrid!RowValue recomputed here, the export compared row by row
        hi = [r - 1 for r in c["radices"]]
        col, prev = [], 0
        for idx in itertools.product(*[range(r) for r in c["radices"]]):
            d = idx[-1] % 8
            prev = 1 if d in (1, 2) else 2 if d == 5 else prev
            col.append(prev)

        class R:
            bad = 0
            def count(self): pass
            traces = 0
            def case(self, *a, **k): pass
            def violation(self, kind, case, want, got, note="", **k):
                R.bad += 1
                print(f"{kind}: expected {want}, observed {got}  {note}")
        locked_table(R(), fl, hi, col, c.get("value_held_before_the_export", 0))
        if R.bad:
            print("VIOLATION property=C18 replay=(given)")
            return 1
        print(f"locked table over {len(col)} rows: every row is the engine's value carried from the previous row")
        return 0
    if "inputs" not in c:
        print(c, v["expected"], v["observed"])
        return 1
    e = make_engine(fl, c["inputs"], RANGES_REVERSED if c.get("reversed_ranges") else RANGES)
    sc = fl.FldExporter.ScopeOfValues.AllVariables if c["scope"] == "all" else fl.FldExporter.ScopeOfValues.EachVariable
    txt = fl.FldExporter().to_string_from_scope(e, values=c["values"], scope=sc)
    rows = len([l for l in txt.split("\n") if l]) - 1
    print(f"{c['scope']} variables = {c['values']} over {c['inputs']} inputs: {rows} rows; expected {v['expected']}")
    if isinstance(v["expected"], int) and rows != v["expected"]:
        print("VIOLATION property=C18 replay=(given)")
        return 1
    return 0
