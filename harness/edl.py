"""Engine description language (EDL): one JSON document read by TLC (spec/Engine.tla) *and* by build_engine()
below, which builds the real fuzzylite objects from it with constructors only (rule text is printed from the
antecedent tree; the FLL importer is never used here, it is itself under test).

All numbers are XReal triples [k, n, d] (harness/xreal.py)."""
from __future__ import annotations

import math
from fractions import Fraction

import numpy as np

from .xreal import NAN, NINF, PINF, Q, from_number, to_float

ZERO, ONE = [0, 0, 1], [0, 1, 1]


# ------------------------------------------------------------------------------------------ constructors
def X(v):
    """number-ish -> XReal triple; accepts Fraction, int, float, 'nan', 'inf', '-inf', 'a/b' strings"""
    if isinstance(v, list):
        return v
    if isinstance(v, str):
        if v == "nan":
            return list(NAN)
        if v in ("inf", "+inf"):
            return list(PINF)
        if v == "-inf":
            return list(NINF)
        return from_number(Fraction(v))
    return from_number(v)


def fn(name, text, tree):
    """a Function term: its text for the real object, its tree (FunctionSyntax.tla shape) for the specification"""
    return {"name": name, "k": "Function", "p": [], "h": X(1), "text": text, "tree": tree}


def fvar(n):
    return {"k": "var", "n": n}


def fnum(tok):
    return {"k": "num", "tok": tok, "x": X(tok)}


def fbin(o, l, r):
    return {"k": "bin", "o": o, "l": l, "r": r}


def term(name, k, *p, h=1):
    return {"name": name, "k": k, "p": [X(v) for v in p], "h": X(h)}


def var(name, lo, hi, terms, enabled=True, lock_range=False):
    return {"name": name, "enabled": enabled, "min": X(lo), "max": X(hi), "lockRange": lock_range, "terms": terms}


def out(name, lo, hi, terms, defuzzifier="Centroid", resolution=8, type_="Automatic", aggregation="Maximum", enabled=True,
        lock_range=False, lock_prev=False, default="nan"):
    v = var(name, lo, hi, terms, enabled, lock_range)
    v.update({"lockPrev": lock_prev, "default": X(default), "aggregation": aggregation,
              "defuzzifier": {"cls": defuzzifier, "resolution": resolution, "type": type_}})
    return v


def P(v, t, *hs):
    return {"kind": "p", "v": v, "hs": list(hs), "t": t}


def AND(l, r):
    return {"kind": "and", "l": l, "r": r}


def OR(l, r):
    return {"kind": "or", "l": l, "r": r}


def C(v, t, *hs):
    return {"var": v, "hs": list(hs), "term": t}


def rule(ant, cons, weight=1, enabled=True, loaded=True):
    return {"enabled": enabled, "loaded": loaded, "weight": X(weight), "ant": ant, "cons": cons}


def activation(cls="General", rules=1, threshold=0, comparator=">"):
    return {"cls": cls, "rules": rules, "threshold": X(threshold), "comparator": comparator}


def block(name, rules, conjunction="Minimum", disjunction="Maximum", implication="Minimum", act=None, enabled=True):
    return {"name": name, "enabled": enabled, "conjunction": conjunction, "disjunction": disjunction, "implication": implication,
            "activation": act or activation(), "rules": rules}


def engine(name, inputs, outputs, blocks):
    return {"name": name, "inputs": inputs, "outputs": outputs, "blocks": blocks}


# ------------------------------------------------------------------------------------------ rule text
def ant_text(n, style=0) -> str:
    """style 0: minimal parentheses; 1: every operator node parenthesised; 2: also every proposition"""
    if n["kind"] == "p":
        s = " ".join([n["v"], "is"] + n["hs"] + ([n["t"]] if n["t"] else []))
        return f"( {s} )" if style == 2 else s
    l, r = n["l"], n["r"]

    def par(c, need):
        s = ant_text(c, style)
        return f"( {s} )" if (need or (style >= 1 and c["kind"] != "p")) else s

    if n["kind"] == "and":
        return f"{par(l, l['kind'] == 'or')} and {par(r, r['kind'] in ('or', 'and'))}"
    return f"{par(l, False)} or {par(r, r['kind'] == 'or')}"


def cons_text(cons) -> str:
    return " and ".join(" ".join([c["var"], "is"] + c["hs"] + [c["term"]]) for c in cons)


def weight_text(w, decimals=3) -> str:
    return f"{to_float(w):.{decimals}f}"


def rule_text(r, style=0) -> str:
    # `ant_text` may be supplied (the tokens printed by the TLA+ printer RuleSyntax.Show); otherwise printed here
    s = f"if {r.get('ant_text') or ant_text(r['ant'], style)} then {cons_text(r['cons'])}"
    if r["weight"] != ONE:
        s += f" with {weight_text(r['weight'])}"
    return s


# ------------------------------------------------------------------------------------------ builder
def build_term(fl, t):
    k = t["k"]
    p = [to_float(v) for v in t["p"]]
    h = to_float(t["h"])
    if k == "Linear":
        return fl.Linear(t["name"], p)
    if k == "Function":
        return fl.Function(t["name"], t["text"])        # loaded and bound to its engine by the Engine constructor
    if k == "Constant":
        return fl.Constant(t["name"], p[0])
    if k == "Discrete":
        return fl.Discrete(t["name"], fl.Discrete.to_xy(p[0::2], p[1::2]), h)
    return getattr(fl, k)(t["name"], *p, h)


def norm(fl, name):
    if name == "Mean":      # a user-supplied operator (Norms.tla: "Mean")
        return fl.NormLambda(lambda a, b: (a + b) / 2)
    return None if name == "none" else getattr(fl, name)()


def build_activation(fl, a):
    c = a["cls"]
    if c == "none":
        return None
    if c in ("General", "Proportional"):
        return getattr(fl, c)()
    if c in ("First", "Last"):
        return getattr(fl, c)(rules=a["rules"], threshold=to_float(a["threshold"]))
    if c in ("Highest", "Lowest"):
        return getattr(fl, c)(rules=a["rules"])
    return fl.Threshold(comparator=a["comparator"], threshold=to_float(a["threshold"]))


def build_defuzzifier(fl, d):
    c = d["cls"]
    if c == "none":
        return None
    if c in ("WeightedAverage", "WeightedSum"):
        return getattr(fl, c)(type=d["type"])
    return getattr(fl, c)(resolution=d["resolution"])


def share_components(e):
    """configure the engine the way Engine.configure does: ONE operator / defuzzifier object serves every rule block / output
    variable that uses this class with these parameters"""
    pool = {}
    for comp, fields in [(b, ("conjunction", "disjunction", "implication")) for b in e.rule_blocks] + [(v, ("aggregation", "defuzzifier")) for v in e.output_variables]:
        for f in fields:
            x = getattr(comp, f)
            if x is not None:
                setattr(comp, f, pool.setdefault(repr(x), x))
    return e


def build_engine(fl, E, style=0):
    ins = [fl.InputVariable(name=v["name"], enabled=v["enabled"], minimum=to_float(v["min"]), maximum=to_float(v["max"]),
                            lock_range=v["lockRange"], terms=[build_term(fl, t) for t in v["terms"]]) for v in E["inputs"]]
    outs = [fl.OutputVariable(name=v["name"], enabled=v["enabled"], minimum=to_float(v["min"]), maximum=to_float(v["max"]),
                              lock_range=v["lockRange"], lock_previous=v["lockPrev"], default_value=to_float(v["default"]),
                              aggregation=norm(fl, v["aggregation"]), defuzzifier=build_defuzzifier(fl, v["defuzzifier"]),
                              terms=[build_term(fl, t) for t in v["terms"]]) for v in E["outputs"]]
    blocks = []
    for b in E["blocks"]:
        rules = []
        for r in b["rules"]:
            ru = fl.Rule.create(rule_text(r, style))
            ru.weight = to_float(r["weight"])  # exact weight (the text carries it at 3 decimals)
            ru.enabled = r["enabled"]
            rules.append(ru)
        blocks.append(fl.RuleBlock(name=b["name"], enabled=b["enabled"], conjunction=norm(fl, b["conjunction"]),
                                   disjunction=norm(fl, b["disjunction"]), implication=norm(fl, b["implication"]),
                                   activation=build_activation(fl, b["activation"]), rules=rules))
    e = fl.Engine(name=E["name"], input_variables=ins, output_variables=outs, rule_blocks=blocks)
    for b, rb in zip(E["blocks"], e.rule_blocks):
        for r, ru in zip(b["rules"], rb.rules):
            if not r["loaded"]:
                ru.unload()
    return e


# ------------------------------------------------------------------------------------------ projection
def observe(e):
    """the projection compared with Engine.tla's Observe: plain floats / names / booleans"""
    def f(v):
        a = np.asarray(v, dtype=float)
        return float(a) if a.ndim == 0 else [float(x) for x in a.ravel()]

    return {
        "out": [f(v.value) for v in e.output_variables],
        "prev": [f(v.previous_value) for v in e.output_variables],
        "fuzzy": [[{"term": a.term.name, "degree": f(a.degree), "impl": type(a.implication).__name__ if a.implication is not None else "none"}
                   for a in v.fuzzy.terms] for v in e.output_variables],
        "deg": [[f(r.activation_degree) for r in b.rules] for b in e.rule_blocks],
        "trig": [[bool(np.all(r.triggered)) for r in b.rules] for b in e.rule_blocks],
    }


def feq(a, b, tol=1e-9):
    a, b = float(a), float(b)
    if math.isnan(a) or math.isnan(b):
        return math.isnan(a) and math.isnan(b)
    if math.isinf(a) or math.isinf(b):
        return a == b
    return abs(a - b) <= tol * max(1.0, abs(a), abs(b))


def diff_obs(exp, obs, tol=1e-9, skip_out=(), skip_prev=()):
    """exp: Observe record emitted by TLC (XReal triples); obs: observe(e).  Returns None or a description."""
    for o, (xs, ys) in enumerate(zip(exp["fuzzy"], obs["fuzzy"])):
        if len(xs) != len(ys):
            return f"fuzzy[{o}]: {len(ys)} activations, expected {len(xs)}"
        for k, (x, y) in enumerate(zip(xs, ys)):
            if x["term"] != y["term"] or x["impl"] != y["impl"] or not feq(to_float(x["degree"]), y["degree"], tol):
                return f"fuzzy[{o}][{k}]: {y}, expected term={x['term']} degree={to_float(x['degree'])} impl={x['impl']}"
    for b, (xs, ys) in enumerate(zip(exp["deg"], obs["deg"])):
        for r, (x, y) in enumerate(zip(xs, ys)):
            if not feq(to_float(x), y, tol):
                return f"degree[{b}][{r}]: {y}, expected {to_float(x)}"
    for b, (xs, ys) in enumerate(zip(exp["trig"], obs["trig"])):
        for r, (x, y) in enumerate(zip(xs, ys)):
            if bool(x) != bool(y):
                return f"triggered[{b}][{r}]: {y}, expected {x}"
    for o, (x, y) in enumerate(zip(exp["out"], obs["out"])):
        if o in skip_out:
            continue
        if not feq(to_float(x), y, tol):
            return f"output[{o}]: {y}, expected {to_float(x)}"
    for o, (x, y) in enumerate(zip(exp["prev"], obs["prev"])):
        if o in skip_out or o in skip_prev:
            continue
        if not feq(to_float(x), y, tol):
            return f"previous[{o}]: {y}, expected {to_float(x)}"
    return None
