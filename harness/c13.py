"""C13  Processing is history-free; restart and copy give clean independent engines.

1. TLC: spec/MC_Lifecycle - instances are (description, state) pairs of Engine.tla; every behaviour of
   MaxSteps actions over {set inputs (3 rows), process, restart, copy-and-switch, switch, edit a rule weight,
   toggle a rule, unload a rule} on 4 small engines (Mamdani, chained blocks, Takagi-Sugeno with a Linear
   term referencing the engine, lock-previous): history-freedom, restart = fresh, independence of the
   other instances, copy = duplicate.  Canary: a process() that skips the clearing of fuzzy outputs.
2. Replay on real engines: after every action the full projection (inputs, outputs, previous values, fuzzy
   outputs, rule degrees, triggered flags) of *every* instance is compared with the model, and an identity
   scan asserts that an engine and its copies share no mutable object and that Linear terms and loaded
   rules point at their own engine.
"""
from __future__ import annotations

import copy
import math

import numpy as np

from . import core
from .catalogue import in_a, in_b, out_ts, out_y, out_z
from .edl import AND, C, OR, P, block, build_engine, diff_obs, engine, feq, observe, rule
from .tlc import MachineryError, write_cfg
from .xreal import NAN, Q, to_float


def engines():
    es = []
    es.append(engine("mamdani", [in_a(), in_b()], [out_y()],
                     [block("rb", [rule(AND(P("a", "lo"), P("b", "hi")), [C("y", "s")]), rule(OR(P("a", "md"), P("b", "lo")), [C("y", "m")], weight="1/2"),
                                   rule(P("a", "hi"), [C("y", "l")])])]))
    es.append(engine("chained", [in_a(), in_b()], [out_y(), out_z()],
                     [block("first", [rule(P("a", "lo"), [C("y", "s")]), rule(P("b", "hi"), [C("y", "m")]), rule(P("a", "hi"), [C("y", "l")])]),
                      block("second", [rule(P("y", "m"), [C("z", "p")]), rule(AND(P("y", "s", "not"), P("a", "lo")), [C("z", "n")], weight="3/4")])]))
    es.append(engine("sugeno-linear", [in_a(), in_b()], [out_ts()],
                     [block("rb", [rule(P("a", "lo"), [C("u", "c1")]), rule(P("b", "hi"), [C("u", "lin")]), rule(P("a", "hi"), [C("u", "c3")], weight="1/2")],
                            implication="none")]))
    e = engine("lock-previous", [in_a(), in_b()], [out_y(lock_prev=True, default="1/8", lock_range=True)],
               [block("rb", [rule(P("a", "lo"), [C("y", "s")]), rule(P("b", "hi"), [C("y", "l")]), rule(P("a", "hi", "very"), [C("y", "m")])])])
    es.append(e)
    for e in es:
        e["coarse"] = True
    return es


ROWS = [[Q(1, 4), Q(3, 4)], [Q(3, 4), Q(1, 4)], [list(NAN), Q(1, 2)]]


def identity_scan(fl, es):
    """no mutable object shared between two instances; engine references point at the owning engine"""
    seen = {}
    for i, e in enumerate(es):
        objs = [e] + list(e.input_variables) + list(e.output_variables) + list(e.rule_blocks)
        for v in e.input_variables + e.output_variables:
            objs += list(v.terms)
            if hasattr(v, "fuzzy"):
                objs += [v.fuzzy, v.fuzzy.terms] + list(v.fuzzy.terms)
                if v.defuzzifier is not None:
                    objs.append(v.defuzzifier)
            for t in v.terms:
                if hasattr(t, "engine") and t.engine is not None and t.engine is not e:
                    return f"instance {i}: term {v.name}.{t.name} references another engine"
        for b in e.rule_blocks:
            objs += [b.rules] + list(b.rules)
            for r in b.rules:
                objs += [r.antecedent, r.consequent]
                for p in (r.consequent.conclusions or []):
                    if p.variable is not None and p.variable not in e.output_variables:
                        return f"instance {i}: a loaded conclusion references a variable of another engine"
                    if p.term is not None and all(p.term is not t for t in p.variable.terms):
                        return f"instance {i}: a loaded conclusion references a term of another engine"
        for o in objs:
            if id(o) in seen and seen[id(o)] != i:
                return f"instances {seen[id(o)]} and {i} share a {type(o).__name__} object"
            seen[id(o)] = i
    return None


def play(fl, case, beh):
    insts = [build_engine(fl, case["engine"])]
    cur = 0
    for k, (st, ex) in enumerate(zip(beh["steps"], beh["expect"])):
        e = insts[cur]
        a = st["act"]
        try:
            if a == "set":
                for iv, x in zip(e.input_variables, case["rows"][st["arg"] - 1]):
                    iv.value = to_float(x)
            elif a == "process":
                e.process()
            elif a == "restart":
                e.restart()
            elif a == "copy":
                insts.append(e.copy())
                cur = len(insts) - 1
            elif a == "switch":
                cur = st["arg"] - 1
            elif a == "edit":
                r = e.rule_blocks[0].rules[0]
                r.weight = 0.5 if r.weight == 1.0 else 1.0
            elif a == "toggle":
                r = e.rule_blocks[0].rules[-1]
                r.enabled = not r.enabled
            elif a == "unload":
                e.rule_blocks[0].rules[0].unload()
            else:
                raise MachineryError(a)
        except MachineryError:
            raise
        except Exception as exn:
            return k, f"{a} raised {type(exn).__name__}: {exn}"
        if ex["cur"] - 1 != cur:
            raise MachineryError("instance bookkeeping out of sync")
        for i, (inst, xi) in enumerate(zip(insts, ex["inst"])):
            if xi["obs"]["tainted"]:
                continue
            for iv, x in zip(inst.input_variables, xi["in"]):
                if not feq(to_float(x), float(np.asarray(iv.value))):
                    return k, f"instance {i}: input {iv.name} = {float(np.asarray(iv.value))}, expected {to_float(x)}"
            d = diff_obs(xi["obs"], observe(inst))
            if d:
                return k, f"instance {i}{' (current)' if i == cur else ' (not operated on)'}: {d}"
        bad = identity_scan(fl, insts)
        if bad:
            return k, bad
    return None


def run(ctx: core.Ctx):
    fl = core.import_fuzzylite()
    cases = [{"id": i, "engine": E, "rows": ROWS} for i, E in enumerate(engines())]
    n = 4 if ctx.quick else 5
    head = "SPECIFICATION Spec\nCONSTANTS MaxSteps = {n}\n  MaxInst = {m}\n  Emit = {e}\n  SkipClear = {s}\n"
    invs = "INVARIANT HistoryFree\nINVARIANT RestartIsFresh\nINVARIANT CopyIdentical\nPROPERTY Independent\n"
    runs = ctx.tlc_cases("MC_Lifecycle", write_cfg("MC_Lifecycle", head.format(n=n, m=3, e="TRUE", s="FALSE") + invs + "INVARIANT EmitInv\nCHECK_DEADLOCK FALSE\n"),
                         cases, label="life", workers=16, timeout=3400)
    behs = []
    for r in runs:
        ctx.expect_holds(r, "MC_Lifecycle")
        behs += r.emitted
    cr = ctx.tlc_cases("MC_Lifecycle", write_cfg("MC_Lifecycle_canary", head.format(n=4, m=2, e="FALSE", s="TRUE") + "INVARIANT HistoryFree\nVIEW View\nCHECK_DEADLOCK FALSE\n"),
                       cases[:1], label="life-canary", workers=16)
    if not any(r.violated for r in cr):
        raise MachineryError("canary SkipClear was expected to violate HistoryFree")
    ctx.extra.setdefault("canaries", []).append({"canary": "SkipClear", "violated": "HistoryFree"})
    if len(behs) < 1000:
        raise MachineryError(f"only {len(behs)} behaviours")
    for bi, beh in enumerate(behs):
        case = cases[beh["cid"]]
        ctx.count()
        bad = play(fl, case, beh)
        if bad:
            k, d = bad
            acts = [s["act"] for s in beh["steps"][:k + 1]]
            ctx.violation(f"{case['engine']['name']}/after-{acts[-1]}/{d.split(':')[0].split(' (')[0].split(' ')[0]}", {"engine": case["engine"]["name"], "steps": beh["steps"][:k + 1]},
                          None, d, note=f"{' '.join(acts)}: {d}", step=k)
        ctx.traces += 1
        ctx.case(("b", bi), nontrivial=sum(s["act"] == "process" for s in beh["steps"]) >= 1 and any(s["act"] in ("copy", "restart", "edit", "toggle", "unload") for s in beh["steps"]))
        if bi in (100, 5000):
            ctx.sample({"engine": case["engine"]["name"], "steps": beh["steps"]})
    ctx.exhaustive = True
    ctx.rule = (f"TLC enumerates every behaviour of {n} actions over set(3 rows)/process/restart/copy/switch/edit/toggle/unload with up to 3 instances on 4 engines; "
                "each is replayed on real engines with the projection of every instance compared after every action and an identity scan; non-trivial = "
                "at least one process and one of copy/restart/edit/toggle/unload")
    ctx.assumptions += ["edits are a rule weight, toggles a rule's enabled flag, unloading a rule; Function terms are covered once C17's evaluator joins the engine description"]


def replay(v) -> int:
    print("behaviour:", v["case"])
    print("observed:", v["observed"])
    print("re-run ./check C13 for the verdict")
    return 1
