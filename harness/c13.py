"""C13  Processing is history-free; restart and copy give clean independent engines.

1. TLC: spec/MC_Lifecycle - instances are (description, state) pairs of Engine.tla; every behaviour of
   MaxSteps actions over {set inputs (3 rows), process, restart, copy-and-switch, switch, edit a rule weight,
   toggle a rule, unload a rule} on 4 small engines (Mamdani, chained blocks, Takagi-Sugeno with a Linear
   term referencing the engine, lock-previous): history-freedom, restart = fresh, independence of the
   other instances, copy = duplicate.  Canary: a process() that skips the clearing of fuzzy outputs.
2. Replay on real engines: after every action the full projection (inputs, outputs, previous values, fuzzy
   outputs, rule degrees, triggered flags) of *every* instance is compared with the model, and an identity
   scan asserts that an engine and its copies share no mutable object and that Linear terms and loaded
   rules point at their own engine.
"""
from __future__ import annotations

import copy
import math

import numpy as np

from . import core
from .catalogue import in_a, in_b, out_ts, out_tsk, out_y, out_z
from .edl import AND, C, OR, P, X, activation, block, build_engine, diff_obs, engine, feq, observe, out, rule, term
from .tlc import MachineryError, write_cfg
from .xreal import NAN, Q, to_float


def engines():
    es = []
    es.append(engine("mamdani", [in_a(), in_b()], [out_y()],
                     [block("rb", [rule(AND(P("a", "lo"), P("b", "hi")), [C("y", "s")]), rule(OR(P("a", "md"), P("b", "lo")), [C("y", "m")], weight="1/2"),
                                   rule(P("a", "hi"), [C("y", "l")])])]))
    es.append(engine("chained", [in_a(), in_b()], [out_y(), out_z()],
                     [block("first", [rule(P("a", "lo"), [C("y", "s")]), rule(P("b", "hi"), [C("y", "m")]), rule(P("a", "hi"), [C("y", "l")])]),
                      block("second", [rule(P("y", "m"), [C("z", "p")]), rule(AND(P("y", "s", "not"), P("a", "lo")), [C("z", "n")], weight="3/4")])]))
    es.append(engine("sugeno-linear", [in_a(), in_b()], [out_ts()],
                     [block("rb", [rule(P("a", "lo"), [C("u", "c1")]), rule(P("b", "hi"), [C("u", "lin")]), rule(P("a", "hi"), [C("u", "c3")], weight="1/2")],
                            implication="none")]))
    e = engine("lock-previous", [in_a(), in_b()], [out_y(lock_prev=True, default="1/8", lock_range=True)],
               [block("rb", [rule(P("a", "lo"), [C("y", "s")]), rule(P("b", "hi"), [C("y", "l")]), rule(P("a", "hi", "very"), [C("y", "m")])])])
    es.append(e)
    # Function terms hold a reference to their engine and read its variables by name: a copy must read its own
    from .catalogue import catalogue
    es.append(copy.deepcopy(next(e for e in catalogue(True) if e["name"] == "ts-function")))
    for e in es:
        e["coarse"] = True
    return es


ROWS = [[Q(1, 4), Q(3, 4)], [Q(3, 4), Q(1, 4)], [list(NAN), Q(1, 2)]]

Z3 = [0, 0, 1]


def ed(kind, a=1, b=1, c=1, x=None, ox=None, s="", os="", n=0, on=0):
    return {"kind": kind, "a": a, "b": b, "c": c, "x": x or Z3, "ox": ox or Z3, "s": s, "os": os, "n": n, "on": on}


def edit_engines():
    """engines with the edits of their configuration that a user may make between two process() calls (1-based indices)"""
    es = engines()
    mam, chained, sug, lock = es[:4]
    es[4]["edits"] = [ed("weight", 1, 2, x=X("1"), ox=X("1/2")), ed("oterm-p", 1, 1, 1, x=X("1"), ox=X("-1/2")), ed("defuzz-cls", 2, s="WeightedAverage", os="WeightedSum")]
    # (not: disabling output f - a disabled variable keeps its value (C12), and the Function term of g reads it: by design the step then depends on history)
    mam["edits"] = [ed("weight", 1, 2, x=X("1/4"), ox=X("1/2")), ed("implication", 1, s="AlgebraicProduct", os="Minimum"), ed("conjunction", 1, s="AlgebraicProduct", os="Minimum"),
                    ed("aggregation", 1, s="BoundedSum", os="Maximum"), ed("defuzz-res", 1, n=4, on=8), ed("defuzz-cls", 1, s="MeanOfMaximum", os="Centroid"),
                    ed("oterm-p", 1, 1, 2, x=X("3/8"), ox=X("1/4")), ed("iterm-p", 1, 1, 2, x=X("1/8"), ox=X("1/4")), ed("iterm-p", 2, 2, 1, x=X("5/8"), ox=X("1/2")), ed("in-enabled", 2), ed("out-enabled", 1), ed("block-enabled", 1),
                    ed("lock-previous", 1), ed("default", 1, x=X("1/8"), ox=list(NAN)), ed("in-lock-range", 1), ed("in-lock-range", 2), ed("in-max", 1, x=X("1/2"), ox=X("1"))]
    chained["edits"] = [ed("block-enabled", 1), ed("block-enabled", 2), ed("oterm-p", 1, 2, 2, x=X("5/8"), ox=X("1/2")), ed("aggregation", 1, s="AlgebraicSum", os="Maximum"), ed("out-enabled", 1)]
    sug["edits"] = [ed("oterm-p", 1, 4, 1, x=X("-1"), ox=X("1/2")), ed("oterm-p", 1, 4, 3, x=X("1"), ox=X("1/8")), ed("oterm-p", 1, 1, 1, x=X("1"), ox=X("-1/2")),
                    ed("defuzz-cls", 1, s="WeightedSum", os="WeightedAverage"), ed("aggregation", 1, s="Maximum", os="none"), ed("weight", 1, 3, x=X("1"), ox=X("1/2"))]
    lock["edits"] = [ed("lock-previous", 1), ed("default", 1, x=list(NAN), ox=X("1/8")), ed("oterm-p", 1, 1, 3, x=X("3/4"), ox=X("1/2"))]
    # the kind of the activated terms decides how a weighted defuzzifier left on Automatic reads them: one rule concludes a
    # Constant, the other a Ramp, and the edit exchanges which of the two is enabled
    w = out("w", 0, 2, [term("c", "Constant", "3/2"), term("up", "Ramp", 0, 2), term("dn", "Ramp", 2, 0)], defuzzifier="WeightedAverage", aggregation="none")
    kinds = engine("weighted-kinds", [in_a(), in_b()], [w],
                   [block("rb", [rule(P("a", "lo"), [C("w", "c")]), rule(P("a", "lo"), [C("w", "up")], enabled=False), rule(P("b", "hi"), [C("w", "dn")], enabled=False, weight="1/2")],
                          implication="none")])
    kinds["edits"] = [ed("swap-enabled", 1, 1, 2), ed("swap-enabled", 1, 1, 3), ed("defuzz-type", 1, s="TakagiSugeno", os="Automatic"), ed("defuzz-cls", 1, s="WeightedSum", os="WeightedAverage")]
    es.append(kinds)
    for cls, kw, edits in [("Threshold", dict(threshold="1/4", comparator=">"), [ed("threshold", 1, x=X("5/8"), ox=X("1/4")), ed("comparator", 1, s="<=", os=">"), ed("comparator", 1, s="==", os=">")]),
                           ("First", dict(rules=1, threshold="1/4"), [ed("act-rules", 1, n=2, on=1), ed("threshold", 1, x=X("5/8"), ox=X("1/4"))]),
                           ("Highest", dict(rules=1), [ed("act-rules", 1, n=2, on=1), ed("weight", 1, 1, x=X("1/4"), ox=X("1"))]),
                           ("Last", dict(rules=2, threshold=0), [ed("act-rules", 1, n=1, on=2)]), ("Lowest", dict(rules=1), [ed("act-rules", 1, n=3, on=1)])]:
        e = engine(f"activation-{cls}", [in_a(), in_b()], [out_y()],
                   [block("rb", [rule(P("a", "lo"), [C("y", "s")]), rule(P("b", "hi"), [C("y", "m")], weight="3/4"), rule(P("a", "hi"), [C("y", "l")]), rule(P("b", "mid"), [C("y", "s")], weight="1/2")],
                          act=activation(cls, **kw))])
        e["edits"] = edits
        es.append(e)
    # a value is clipped when it is assigned; locking the range afterwards, or narrowing it, does not touch the stored value, and the
    # propositions read the stored value: terms that are not flat beyond the bound tell the difference
    from .edl import var
    c_in = var("c", 0, 1, [term("edge", "Triangle", "1/2", 1, "3/2"), term("low", "Ramp", 1, 0)])
    d_in = var("d", 0, 1, [term("mid", "Triangle", 0, "1/2", 1), term("top", "Ramp", "1/2", 1)], lock_range=True)
    rng_e = engine("range-edits", [c_in, d_in], [out_y()],
                   [block("rb", [rule(P("c", "edge"), [C("y", "s")]), rule(P("d", "mid"), [C("y", "m")]), rule(AND(P("c", "low"), P("d", "top")), [C("y", "l")], weight="1/2")])])
    rng_e["edits"] = [ed("in-lock-range", 1), ed("in-lock-range", 2), ed("in-max", 2, x=X("1/2"), ox=X("1")), ed("in-max", 1, x=X("3/4"), ox=X("1"))]
    rng_e["edit_rows"] = [[Q(1, 4), Q(1, 4)], [Q(5, 4), Q(3, 4)]]
    es.append(rng_e)
    for e in es:
        e["coarse"] = True
    return es


def identity_scan(fl, es):
    """no mutable object shared between two instances; engine references point at the owning engine"""
    seen = {}
    for i, e in enumerate(es):
        objs = [e] + list(e.input_variables) + list(e.output_variables) + list(e.rule_blocks)
        for v in e.input_variables + e.output_variables:
            objs += list(v.terms)
            if hasattr(v, "fuzzy"):
                objs += [v.fuzzy, v.fuzzy.terms] + list(v.fuzzy.terms)
                if v.defuzzifier is not None:
                    objs.append(v.defuzzifier)
            for t in v.terms:
                if hasattr(t, "engine") and t.engine is not None and t.engine is not e:
                    return f"instance {i}: term {v.name}.{t.name} references another engine"
        for b in e.rule_blocks:
            objs += [b.rules] + list(b.rules)
            for r in b.rules:
                objs += [r.antecedent, r.consequent]
                for p in (r.consequent.conclusions or []):
                    if p.variable is not None and p.variable not in e.output_variables:
                        return f"instance {i}: a loaded conclusion references a variable of another engine"
                    if p.term is not None and all(p.term is not t for t in p.variable.terms):
                        return f"instance {i}: a loaded conclusion references a term of another engine"
        for o in objs:
            if id(o) in seen and seen[id(o)] != i:
                return f"instances {seen[id(o)]} and {i} share a {type(o).__name__} object"
            seen[id(o)] = i
    return None


def apply_edit(fl, e, d, E):
    """the same edit on the real objects, by plain attribute assignment (what a user does between two process() calls)"""
    from .fll import ATTRS

    k, a, b, c = d["kind"], d["a"] - 1, d["b"] - 1, d["c"] - 1

    def flip(cur, new, orig, eq=lambda p, q: p == q):
        return orig if eq(cur, new) else new

    def fnum(p, q):
        return (math.isnan(p) and math.isnan(q)) or p == q
    x, ox = to_float(d["x"]), to_float(d["ox"])
    if k == "weight":
        r = e.rule_blocks[a].rules[b]
        r.weight = flip(float(r.weight), x, ox, fnum)
    elif k in ("oterm-p", "iterm-p"):
        v = (e.output_variables if k == "oterm-p" else e.input_variables)[a]
        t = v.terms[b]
        cls = type(t).__name__
        if cls == "Linear":
            new = list(t.coefficients)
            new[c] = flip(float(new[c]), x, ox, fnum)
            if c % 2:
                t.coefficients[c] = new[c]          # in place
            else:
                t.coefficients = new                # a new list
        elif cls == "Constant":
            t.value = flip(float(t.value), x, ox, fnum)
        else:
            setattr(t, ATTRS[cls][c], flip(float(getattr(t, ATTRS[cls][c])), x, ox, fnum))
    elif k == "threshold":
        act = e.rule_blocks[a].activation
        act.threshold = flip(float(act.threshold), x, ox, fnum)
    elif k == "comparator":
        act = e.rule_blocks[a].activation
        act.comparator = fl.Threshold.Comparator(flip(act.comparator.value, d["s"], d["os"]))
    elif k == "act-rules":
        act = e.rule_blocks[a].activation
        act.rules = flip(int(act.rules), d["n"], d["on"])
    elif k in ("implication", "conjunction"):
        cur = getattr(e.rule_blocks[a], k)
        name = flip("none" if cur is None else type(cur).__name__, d["s"], d["os"])
        setattr(e.rule_blocks[a], k, None if name == "none" else getattr(fl, name)())
    elif k == "aggregation":
        cur = e.output_variables[a].aggregation
        name = flip("none" if cur is None else type(cur).__name__, d["s"], d["os"])
        e.output_variables[a].aggregation = None if name == "none" else getattr(fl, name)()
    elif k == "defuzz-type":
        dz = e.output_variables[a].defuzzifier
        dz.type = fl.WeightedDefuzzifier.Type[flip(dz.type.name, d["s"], d["os"])]
    elif k == "defuzz-res":
        dz = e.output_variables[a].defuzzifier
        dz.resolution = flip(int(dz.resolution), d["n"], d["on"])
    elif k == "defuzz-cls":
        dz = e.output_variables[a].defuzzifier
        name = flip(type(dz).__name__, d["s"], d["os"])
        e.output_variables[a].defuzzifier = getattr(fl, name)(dz.resolution) if hasattr(dz, "resolution") else getattr(fl, name)(dz.type)
    elif k == "out-enabled":
        e.output_variables[a].enabled = not e.output_variables[a].enabled
    elif k == "in-enabled":
        e.input_variables[a].enabled = not e.input_variables[a].enabled
    elif k == "block-enabled":
        e.rule_blocks[a].enabled = not e.rule_blocks[a].enabled
    elif k == "swap-enabled":
        for i in (b, c):
            e.rule_blocks[a].rules[i].enabled = not e.rule_blocks[a].rules[i].enabled
    elif k == "lock-previous":
        e.output_variables[a].lock_previous = not e.output_variables[a].lock_previous
    elif k == "in-lock-range":
        e.input_variables[a].lock_range = not e.input_variables[a].lock_range
    elif k == "in-max":
        v = e.input_variables[a]
        v.maximum = flip(float(v.maximum), x, ox, fnum)
    elif k == "default":
        v = e.output_variables[a]
        v.default_value = flip(float(v.default_value), x, ox, fnum)
    else:
        raise MachineryError(f"unknown edit {k}")


def play(fl, case, beh):
    insts = [build_engine(fl, case["engine"])]
    cur = 0
    for k, (st, ex) in enumerate(zip(beh["steps"], beh["expect"])):
        e = insts[cur]
        a = st["act"]
        try:
            if a == "set":
                for iv, x in zip(e.input_variables, case["rows"][st["arg"] - 1]):
                    iv.value = to_float(x)
            elif a == "process":
                e.process()
            elif a == "restart":
                e.restart()
            elif a == "copy":
                insts.append(e.copy())
                cur = len(insts) - 1
            elif a == "switch":
                cur = st["arg"] - 1
            elif a == "edit":
                r = e.rule_blocks[0].rules[0]
                r.weight = 0.5 if r.weight == 1.0 else 1.0
            elif a == "toggle":
                r = e.rule_blocks[0].rules[-1]
                r.enabled = not r.enabled
            elif a == "unload":
                e.rule_blocks[0].rules[0].unload()
            elif a == "edit-k":
                apply_edit(fl, e, case["engine"]["edits"][st["arg"] - 1], case["engine"])
            else:
                raise MachineryError(a)
        except MachineryError:
            raise
        except Exception as exn:
            return k, f"{a} raised {type(exn).__name__}: {exn}"
        if ex["cur"] - 1 != cur:
            raise MachineryError("instance bookkeeping out of sync")
        for i, (inst, xi) in enumerate(zip(insts, ex["inst"])):
            if xi["obs"]["tainted"]:
                continue
            for iv, x in zip(inst.input_variables, xi["in"]):
                if not feq(to_float(x), float(np.asarray(iv.value))):
                    return k, f"instance {i}: input {iv.name} = {float(np.asarray(iv.value))}, expected {to_float(x)}"
            d = diff_obs(xi["obs"], observe(inst))
            if d:
                return k, f"instance {i}{' (current)' if i == cur else ' (not operated on)'}: {d}"
        bad = identity_scan(fl, insts)
        if bad:
            return k, bad
    return None


def edit_behaviours(ctx, steps, first_id=100):
    """configuration edits after first use: TLC enumerates, per (engine, edit), every behaviour `set; then any of set / process /
    restart / copy / edit` of `steps` actions; returns those with an edit and a process, and their cases"""
    head = "SPECIFICATION Spec\nCONSTANTS MaxSteps = {n}\n  MaxInst = 2\n  Emit = TRUE\n  SkipClear = FALSE\n  EditMode = TRUE\n"
    invs = "INVARIANT HistoryFree\nINVARIANT RestartIsFresh\nINVARIANT CopyIdentical\nPROPERTY Independent\n"
    # the second row lies outside the ranges of the input variables (3/2, -1/4)
    ecases = [{"id": first_id + i, "engine": E, "rows": E.get("edit_rows") or [ROWS[0], [Q(3, 2), Q(-1, 4)]], "edits": E["edits"]} for i, E in enumerate(edit_engines())]
    eruns = ctx.tlc_cases("MC_Lifecycle", write_cfg("MC_Lifecycle_edits", head.format(n=steps) + invs + "INVARIANT EmitInv\nCHECK_DEADLOCK FALSE\n"),
                          ecases, label="life-edits", workers=16, timeout=3400)
    behs = []
    for r in eruns:
        ctx.expect_holds(r, "MC_Lifecycle[edits]")
        for beh in r.emitted:
            if any(s["act"] == "edit-k" for s in beh["steps"]) and any(s["act"] == "process" for s in beh["steps"]):
                behs.append(beh)
    return behs, ecases


def replay_behaviours(ctx, fl, behs, cases, prefix=""):
    for bi, beh in enumerate(behs):
        case = next(c for c in cases if c["id"] == beh["cid"])
        ctx.count()
        bad = play(fl, case, beh)
        if bad:
            k, d = bad
            acts = [s["act"] for s in beh["steps"][:k + 1]]
            ctx.violation(f"{prefix}{case['engine']['name']}/after-{acts[-1]}/{d.split(':')[0].split(' (')[0].split(' ')[0]}", {"engine": case["engine"]["name"], "steps": beh["steps"][:k + 1]},
                          None, d, note=f"{' '.join(acts)}: {d}", step=k)
        ctx.traces += 1


def run(ctx: core.Ctx):
    fl = core.import_fuzzylite()
    cases = [{"id": i, "engine": E, "rows": ROWS} for i, E in enumerate(engines())]
    n = 4 if ctx.quick else 5
    head = "SPECIFICATION Spec\nCONSTANTS MaxSteps = {n}\n  MaxInst = {m}\n  Emit = {e}\n  SkipClear = {s}\n  EditMode = FALSE\n"
    invs = "INVARIANT HistoryFree\nINVARIANT RestartIsFresh\nINVARIANT CopyIdentical\nPROPERTY Independent\n"
    runs = ctx.tlc_cases("MC_Lifecycle", write_cfg("MC_Lifecycle", head.format(n=n, m=3, e="TRUE", s="FALSE") + invs + "INVARIANT EmitInv\nCHECK_DEADLOCK FALSE\n"),
                         cases, label="life", workers=16, timeout=3400)
    behs = []
    for r in runs:
        ctx.expect_holds(r, "MC_Lifecycle")
        behs += r.emitted
    cr = ctx.tlc_cases("MC_Lifecycle", write_cfg("MC_Lifecycle_canary", head.format(n=4, m=2, e="FALSE", s="TRUE") + "INVARIANT HistoryFree\nVIEW View\nCHECK_DEADLOCK FALSE\n"),
                       cases[:1], label="life-canary", workers=16)
    if not any(r.violated for r in cr):
        raise MachineryError("canary SkipClear was expected to violate HistoryFree")
    ctx.extra.setdefault("canaries", []).append({"canary": "SkipClear", "violated": "HistoryFree"})
    if len(behs) < 1000:
        raise MachineryError(f"only {len(behs)} behaviours")
    ebehs, ecases = edit_behaviours(ctx, n + 1)
    behs += ebehs
    cases = cases + ecases
    ctx.extra["edit_behaviours"] = len(ebehs)
    for bi, beh in enumerate(behs):
        case = next(c for c in cases if c["id"] == beh["cid"])
        ctx.count()
        bad = play(fl, case, beh)
        if bad:
            k, d = bad
            acts = [s["act"] for s in beh["steps"][:k + 1]]
            ctx.violation(f"{case['engine']['name']}/after-{acts[-1]}/{d.split(':')[0].split(' (')[0].split(' ')[0]}", {"engine": case["engine"]["name"], "steps": beh["steps"][:k + 1]},
                          None, d, note=f"{' '.join(acts)}: {d}", step=k)
        ctx.traces += 1
        ctx.case(("b", bi), nontrivial=sum(s["act"] == "process" for s in beh["steps"]) >= 1 and any(s["act"] in ("copy", "restart", "edit", "toggle", "unload") for s in beh["steps"]))
        if bi in (100, 5000):
            ctx.sample({"engine": case["engine"]["name"], "steps": beh["steps"]})
    ctx.exhaustive = True
    ctx.rule = (f"TLC enumerates every behaviour of {n} actions over set(3 rows)/process/restart/copy/switch/edit/toggle/unload with up to 3 instances on 4 engines; "
                "each is replayed on real engines with the projection of every instance compared after every action and an identity scan; non-trivial = "
                "at least one process and one of copy/restart/edit/toggle/unload")
    ctx.assumptions += ["edits are a rule weight, toggles a rule's enabled flag, unloading a rule; Function terms are covered once C17's evaluator joins the engine description"]


def replay(v) -> int:
    print("behaviour:", v["case"])
    print("observed:", v["observed"])
    print("re-run ./check C13 for the verdict")
    return 1
