"""Evaluator of the kernel expressions built by spec/KExpr.tla (JSON form: nested lists).
Exact Fractions as long as a sub-tree is rational, floats (math) for the kernels.  No fuzzy-logic
knowledge lives here: case analysis, scaling and arguments are all decided by the specification."""
from __future__ import annotations

import math
from fractions import Fraction

from .xreal import to_fraction


def _f(v) -> float:
    return float(v)


def ev(e, env=None):
    """returns Fraction (exact) or float; env = {"x": Fraction|float, "p": [..], "h": ..} for symbolic leaves"""
    k = e[0]
    if k == "q":
        return to_fraction(e[1])
    if k == "x":
        return env["x"]
    if k == "h":
        return env["h"]
    if k == "p":
        return env["p"][e[1] - 1]
    if k == "pi":
        return math.pi
    if k in ("add", "mul", "div"):
        a, b = ev(e[1], env), ev(e[2], env)
        exact = isinstance(a, Fraction) and isinstance(b, Fraction)
        if not exact and k == "mul":  # 0 * inf and friends follow IEEE
            pass
        if k == "add":
            return a + b if exact else _f(a) + _f(b)
        if k == "mul":
            if exact:
                return a * b
            a, b = _f(a), _f(b)
            return a * b
        if exact and b != 0:
            return a / b
        a, b = _f(a), _f(b)
        if b == 0:
            if a == 0 or math.isnan(a):
                return math.nan
            if env and env.get("signed_zero") == "unjudged":   # formulas (C17): the sign of a computed zero is not determined by the documentation
                raise Unjudged("sign of zero")
            return math.copysign(math.inf, a)
        return a / b
    if k == "fn1":
        return _fn1(e[1], _f(ev(e[2], env)), exact=(e[2][0] == "q"))
    if k == "fn2":
        return _fn2(e[1], _f(ev(e[2], env)), _f(ev(e[3], env)))
    a = ev(e[1], env)
    if k == "neg":
        return -a
    if k == "abs":
        return abs(a)
    x = _f(a)
    if env and env.get("signed_zero") == "unjudged" and k in ("sqrt", "log") and e[1][0] != "q" and abs(x) <= 1e-9:
        raise Unjudged("inexact argument at the end of the function's domain")
    if k == "sqrt":
        return math.sqrt(x) if x >= 0 else math.nan
    if k == "exp":
        try:
            return math.exp(x)
        except OverflowError:
            return math.inf
    if k == "cos":
        return math.cos(x) if math.isfinite(x) else math.nan
    if k == "log":
        return math.log(x) if x > 0 else (-math.inf if x == 0 else math.nan)
    if k == "powq":
        p = to_fraction(e[2])
        try:
            return math.pow(x, float(p))
        except (OverflowError, ValueError):
            return math.nan if x < 0 else math.inf
    raise ValueError(f"unknown kernel node {k}")


def value(e, env=None) -> float:
    return float(ev(e, env))


def has_node(e, kind) -> bool:
    return isinstance(e, list) and (e[0] == kind or any(has_node(c, kind) for c in e[1:] if isinstance(c, list)))


def is_exact(e) -> bool:
    return e[0] == "q"


class Unjudged(Exception):
    """the documented meaning does not determine the value (NaN operand of min/max, signed zero to a negative power)"""


def _pow(a, b):
    """IEEE 754 pow, which is what 'power' means on extended reals: x^0 = 1 and 1^y = 1 even for NaN"""
    if b == 0 or a == 1:
        return 1.0
    if math.isnan(a) or math.isnan(b):
        return math.nan
    odd = math.isfinite(b) and float(b).is_integer() and int(b) % 2 == 1
    if a == 0 and b < 0:
        if odd:
            raise Unjudged("sign of zero")
        return math.inf
    try:
        return math.pow(a, b)
    except ValueError:
        return math.nan
    except OverflowError:
        return -math.inf if (a < 0 and odd) else math.inf


def _safe(f, *a):
    try:
        return f(*a)
    except (ValueError, ZeroDivisionError):
        return math.nan
    except OverflowError:
        return math.inf


# where a function's domain ends: an argument computed in floating point that lands within rounding distance of such a point may
# fall on either side of it in another, equally accurate, evaluation (acosh(asin(sin(1))) is 0 or NaN): not judged
_EDGES = {"acos": (-1.0, 1.0), "asin": (-1.0, 1.0), "acosh": (1.0,), "atanh": (-1.0, 1.0), "log": (0.0,), "log10": (0.0,), "log1p": (-1.0,), "sqrt": (0.0,)}


def _fn1(name, x, exact=True):
    if not exact and name in _EDGES and any(abs(x - b) <= 1e-9 * max(1.0, abs(b)) for b in _EDGES[name]):
        raise Unjudged("inexact argument at the end of the function's domain")
    if name == "not-judged":
        raise Unjudged("discontinuous element on an operand binary64 cannot hold exactly")
    if name == "truthy":
        return 1.0 if x != 0 else 0.0
    if name == "not":
        return 1.0 if x == 0 else 0.0
    if math.isnan(x):
        return math.nan
    table = {"acos": math.acos, "asin": math.asin, "atan": math.atan, "ceil": math.ceil, "cos": math.cos, "cosh": math.cosh, "exp": math.exp,
             "abs": abs, "fabs": abs, "floor": math.floor, "log": math.log, "log10": math.log10, "sin": math.sin, "sinh": math.sinh, "sqrt": math.sqrt,
             "tan": math.tan, "tanh": math.tanh, "log1p": math.log1p, "acosh": math.acosh, "asinh": math.asinh, "atanh": math.atanh}
    if name == "round":
        return float(round(x)) if math.isfinite(x) else x  # Python's round is half-to-even, like numpy.round
    if name in ("floor", "ceil") and not math.isfinite(x):
        return x
    if (name in ("log", "log10") and x == 0) or (name == "log1p" and x == -1):
        return -math.inf
    if name == "atanh" and abs(x) == 1:
        return math.copysign(math.inf, x)
    try:
        return float(table[name](x))
    except ValueError:          # outside the domain
        return math.nan
    except OverflowError:       # exp, cosh, sinh
        return -math.inf if (name == "sinh" and x < 0) else math.inf


def _fn2(name, a, b):
    if name == "not-judged":
        raise Unjudged("discontinuous element on an operand binary64 cannot hold exactly")
    if name == "and":
        return 1.0 if (a != 0 and b != 0) else 0.0
    if name == "or":
        return 1.0 if (a != 0 or b != 0) else 0.0
    if name in ("gt", "ge", "eq", "neq", "le", "lt"):
        both_nan = math.isnan(a) and math.isnan(b)
        return float({"gt": a > b, "ge": a >= b or both_nan, "eq": a == b or both_nan, "neq": not (a == b or both_nan), "le": a <= b or both_nan, "lt": a < b}[name])
    if name == "pow":
        return _pow(a, b)
    if name == "div-by-zero":
        if a == 0 or math.isnan(a):
            return math.nan
        raise Unjudged("sign of zero")
    if name == "atan2-of-zero":
        if math.isnan(b):
            return math.nan
        if b > 0:
            return 0.0
        raise Unjudged("sign of zero")
    if math.isnan(a) or math.isnan(b):
        if name in ("min", "max"):
            raise Unjudged("NaN operand of min/max")
        return math.nan
    if name == "min":
        return min(a, b)
    if name == "max":
        return max(a, b)
    if name == "atan2":
        if a == 0 and b <= 0:
            raise Unjudged("sign of zero")
        return math.atan2(a, b)
    if name == "fmod":
        return float(_safe(math.fmod, a, b))
    if name == "remainder":
        if b == 0 or math.isinf(a):
            return math.nan
        return float(a - b * math.floor(a / b)) if math.isfinite(b) else (a if (a >= 0) == (b > 0) or a == 0 else b)
    raise ValueError(name)
