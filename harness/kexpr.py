"""Evaluator of the kernel expressions built by spec/KExpr.tla (JSON form: nested lists).
Exact Fractions as long as a sub-tree is rational, floats (math) for the kernels.  No fuzzy-logic
knowledge lives here: case analysis, scaling and arguments are all decided by the specification."""
from __future__ import annotations

import math
from fractions import Fraction

from .xreal import to_fraction


def _f(v) -> float:
    return float(v)


def ev(e, env=None):
    """returns Fraction (exact) or float; env = {"x": Fraction|float, "p": [..], "h": ..} for symbolic leaves"""
    k = e[0]
    if k == "q":
        return to_fraction(e[1])
    if k == "x":
        return env["x"]
    if k == "h":
        return env["h"]
    if k == "p":
        return env["p"][e[1] - 1]
    if k == "pi":
        return math.pi
    if k in ("add", "mul", "div"):
        a, b = ev(e[1], env), ev(e[2], env)
        exact = isinstance(a, Fraction) and isinstance(b, Fraction)
        if not exact and k == "mul":  # 0 * inf and friends follow IEEE
            pass
        if k == "add":
            return a + b if exact else _f(a) + _f(b)
        if k == "mul":
            if exact:
                return a * b
            a, b = _f(a), _f(b)
            return a * b
        if exact and b != 0:
            return a / b
        a, b = _f(a), _f(b)
        if b == 0:
            return math.nan if (a == 0 or math.isnan(a)) else math.copysign(math.inf, a)
        return a / b
    a = ev(e[1], env)
    if k == "neg":
        return -a
    if k == "abs":
        return abs(a)
    x = _f(a)
    if k == "sqrt":
        return math.sqrt(x) if x >= 0 else math.nan
    if k == "exp":
        try:
            return math.exp(x)
        except OverflowError:
            return math.inf
    if k == "cos":
        return math.cos(x) if math.isfinite(x) else math.nan
    if k == "log":
        return math.log(x) if x > 0 else (-math.inf if x == 0 else math.nan)
    if k == "powq":
        p = to_fraction(e[2])
        try:
            return math.pow(x, float(p))
        except (OverflowError, ValueError):
            return math.nan if x < 0 else math.inf
    raise ValueError(f"unknown kernel node {k}")


def value(e, env=None) -> float:
    return float(ev(e, env))


def has_node(e, kind) -> bool:
    return isinstance(e, list) and (e[0] == kind or any(has_node(c, kind) for c in e[1:] if isinstance(c, list)))


def is_exact(e) -> bool:
    return e[0] == "q"
