"""C07  Each conclusion of a triggered rule contributes exactly its own activation.

1. TLC: spec/MC_Consequent - consequents of 1-3 conclusions over 3 output variables with 0-2 hedges each,
   4 enabled patterns, degrees {0, 1/4, 9/16, 1, NaN, +inf, -inf}: one contribution per enabled
   conclusion, independence (each equals what the conclusion contributes alone), stored degrees in [0,1],
   order independence.  Canary: the hedge-leaking variant of Consequent.modify must fail.
2. Replay: the rule text printed from each consequent is loaded by Rule.create on a real engine; the
   degree is injected directly (activation_degree then trigger: scalar and as one batch) and through the
   inputs with RuleBlock.activate (scalar and batch, optional `with w`); every output's fuzzy.terms
   (term, degree, implication, order) and fuzzy_value() are compared.
3. rule.trigger events recorded from real engines (C01 catalogue runs, thorough: repository tests) are
   checked against the same contract by value identity.
"""
from __future__ import annotations

import math

import numpy as np

from . import core
from .edl import cons_text
from .tlc import MachineryError, write_cfg
from .xreal import to_float

DEG = [0.0, 0.25, 0.5625, 1.0, math.nan, math.inf, -math.inf]
INVS = ["OnePerConclusion", "Independent", "Stored", "OrderIndependent"]


def make_engine(fl, en):
    x = fl.InputVariable("x", minimum=0.0, maximum=1.0, terms=[fl.Ramp("a", 0.0, 1.0)])
    outs = [fl.OutputVariable(n, enabled=bool(e), minimum=0.0, maximum=1.0, aggregation=fl.Maximum(), defuzzifier=fl.Centroid(4),
                              terms=[fl.Triangle("t", 0.0, 0.5, 1.0)]) for n, e in zip(("y1", "y2", "y3"), en)]
    rb = fl.RuleBlock("rb", implication=fl.AlgebraicProduct(), activation=fl.General())
    return fl.Engine("c07", input_variables=[x], output_variables=outs, rule_blocks=[rb])


def feq(a, b):
    return (math.isnan(a) and math.isnan(b)) or abs(a - b) <= 1e-12


def run(ctx: core.Ctx):
    fl = core.import_fuzzylite()
    head = "SPECIFICATION Spec\nCONSTANTS Emit = {e}\n  Leaky = {l}\n"
    ctx.expect_canary(ctx.tlc("MC_Consequent", write_cfg("MC_Consequent_canary", head.format(e="FALSE", l="TRUE") + "INVARIANT Independent\nINVARIANT OrderIndependent\nCHECK_DEADLOCK FALSE\n"), workers=16), "Leaky")
    g = ctx.tlc("MC_Consequent", write_cfg("MC_Consequent", head.format(e="TRUE", l="FALSE") + "".join(f"INVARIANT {i}\n" for i in INVS) + "INVARIANT EmitInv\nCHECK_DEADLOCK FALSE\n"), workers=16, timeout=1800)
    ctx.expect_holds(g, "MC_Consequent")
    if len(g.emitted) < 6000:
        raise MachineryError(f"only {len(g.emitted)} consequents emitted")
    engines = {}
    for ci, c in enumerate(g.emitted):
        en = tuple(c["en"])
        if en not in engines:
            engines[en] = make_engine(fl, en)
        e = engines[en]
        rb = e.rule_blocks[0]
        ct = cons_text(c["cons"])
        case = {"cons": c["cons"], "en": list(en), "text": ct}
        # expectations: per degree, per output, list of degrees
        tainted = any(d[0] == 3 for per_deg in c["expect"] for per_out in per_deg for d in per_out)
        if tainted:
            ctx.extra["skipped_irrational"] = ctx.extra.get("skipped_irrational", 0) + 1
            continue
        exp = [[[to_float(d) for d in per_out] for per_out in per_deg] for per_deg in c["expect"]]
        try:
            # every second consequent is loaded into ONE long-lived rule whose text is replaced and which is loaded again without an
            # unload in between: it then holds the conclusions of its current text and nothing else
            run.__dict__["n"] = run.__dict__.get("n", 0) + 1
            if run.__dict__["n"] % 2 and "rule" in run.__dict__:
                rule = run.__dict__["rule"]
                rule.text = f"if x is a then {ct}"
                rule.load(e)
            else:
                rule = fl.Rule.create(f"if x is a then {ct}", e)
                run.__dict__.setdefault("rule", fl.Rule.create(f"if x is a then {ct}", e))
        except Exception as ex:
            ctx.violation("Rule.create/consequent", case, "a loaded rule", f"{type(ex).__name__}: {ex}")
            continue
        rb.rules = [rule]

        def fuzzy_now():
            return [[(a.term.name, np.atleast_1d(np.asarray(a.degree, dtype=float)).copy(), a.implication) for a in v.fuzzy.terms] for v in e.output_variables]

        def clear():
            # the fuzzy outputs are emptied in the three ways the public interface offers, in turn: clear(), a new list of
            # activated terms, a new Aggregated object - the loaded rule must write into whatever the variable holds NOW
            clear.n = getattr(clear, "n", 0) + 1
            for v in e.output_variables:
                if clear.n % 3 == 0:
                    v.fuzzy.clear()
                elif clear.n % 3 == 1:
                    v.fuzzy.terms = []
                else:
                    v.fuzzy = fl.Aggregated(name=v.name, minimum=v.minimum, maximum=v.maximum, aggregation=v.fuzzy.aggregation)

        def compare(mode, obs, degs_idx):
            for o in range(3):
                want_n = len(exp[degs_idx[0]][o])
                if len(obs[o]) != want_n:
                    ctx.violation(f"Consequent.modify/{mode}/count", case, want_n, len(obs[o]), note=f"output y{o + 1}: {len(obs[o])} activated terms for '{ct}'")
                    return False
                for k, (name, dv, impl) in enumerate(obs[o]):
                    want = [exp[i][o][k] for i in degs_idx]
                    if name != "t" or impl is not rb.implication:
                        ctx.violation(f"Consequent.modify/{mode}/term-or-implication", case, "t / block implication", f"{name} / {impl}")
                        return False
                    if len(dv) != len(want) or not all(feq(a, b) for a, b in zip(dv, want)):
                        hk = "hedged-earlier" if any(cc["hs"] for cc in c["cons"][:-1]) else "plain"
                        ctx.violation(f"Consequent.modify/{mode}/degree/{hk}", dict(case, degrees=[DEG[i] for i in degs_idx]), want, dv.tolist(),
                                      note=f"output y{o + 1} conclusion {k}: stored degree differs for '{ct}'")
                        return False
            return True

        ok = True
        # (a) direct injection, one scalar degree at a time
        for i, d in enumerate(DEG):
            clear()
            # the same loaded rule is triggered again and again: each time the block carries another implication object,
            # which every contribution of *this* trigger must carry
            rb.implication = (fl.Minimum, fl.AlgebraicProduct, fl.EinsteinProduct)[i % 3]()
            rule.activation_degree = fl.scalar(d)
            rule.trigger(rb.implication)
            ctx.count()
            ok = compare("scalar", fuzzy_now(), [i]) and ok
            if not ok:
                break
            trig = bool(np.all(rule.triggered))
            if trig != (d > 0):
                ctx.violation("Rule.trigger/triggered-flag", dict(case, degree=d), d > 0, trig)
        # (b) direct injection, the whole batch at once
        if ok:
            clear()
            rule.activation_degree = np.array(DEG)
            rule.trigger(rb.implication)
            ctx.count()
            ok = compare("batch", fuzzy_now(), list(range(len(DEG))))
        # (c) through the inputs and RuleBlock.activate: degrees 0, 1/4, 9/16, 1, NaN
        if ok and ci % 3 == 0:
            clear()
            e.input_variables[0].value = np.array([0.0, 0.25, 0.5625, 1.0, math.nan])
            rb.activate()
            ctx.count()
            ok = compare("activate-batch", fuzzy_now(), [0, 1, 2, 3, 4])
            fv = [str(v.fuzzy_value()) for v in e.output_variables]  # must not raise
            clear()
            e.input_variables[0].value = 0.5625
            rb.activate()
            ok = compare("activate-scalar", fuzzy_now(), [2]) and ok
        # (d) a disabled rule contributes nothing and is not triggered
        if ci % 7 == 0:
            clear()
            rule.enabled = False
            rule.activation_degree = fl.scalar(0.5625)
            rule.trigger(rb.implication)
            if any(len(v.fuzzy.terms) for v in e.output_variables) or bool(np.all(rule.triggered)):
                ctx.violation("Rule.trigger/disabled-rule", case, "no contribution, not triggered", "contributed or triggered")
            rule.enabled = True
        ctx.traces += 1
        ctx.case(("cons", ci), nontrivial=len(c["cons"]) > 1 or bool(c["cons"][0]["hs"]))
        if ci in (50, 3000):
            ctx.sample({"consequent": ct, "enabled": list(en), "expect_per_degree": c["expect"][2]})
    ctx.exhaustive = True
    ctx.rule = ("TLC enumerates consequents of 1-3 conclusions over 3 output variables (hedge chains up to length 2 over not/very/somewhat/any/extremely) "
                "x 4 enabled patterns; each is loaded from its printed text and triggered with 7 degrees (incl. NaN, +-inf) as scalars, as one batch and "
                "through RuleBlock.activate; non-trivial = more than one conclusion or at least one hedge")
    ctx.assumptions += ["degrees are perfect squares so that `somewhat` is exact; consequents whose expectation is irrational are skipped (counted)"]


def replay(v) -> int:
    fl = core.import_fuzzylite()
    c = v["case"]
    e = make_engine(fl, c["en"])
    rule = fl.Rule.create(f"if x is a then {c['text']}", e)
    degs = c.get("degrees", DEG)
    rule.activation_degree = np.array(degs)
    rule.trigger(e.rule_blocks[0].implication)
    for ov in e.output_variables:
        print(ov.name, [(a.term.name, np.asarray(a.degree).tolist()) for a in ov.fuzzy.terms])
    print("expected", v["expected"], "observed", v["observed"])
    print("re-run ./check C07 for the verdict against the specification")
    return 1
