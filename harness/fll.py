"""Abstract engines of spec/FllSyntax.tla <-> real fuzzylite objects <-> FLL text (shared by C14 and C15).

build():    abstract engine (JSON shape of the specification) -> real objects, with constructors and attribute
            assignment only (never through the importer, which is under test)
project():  real engine -> abstract engine; floats are projected onto the numerals the language can hold by exact
            decimal rounding (decimal.Decimal of the binary64 value, ROUND_HALF_EVEN)
render():   lines of tokens -> text;  lex(): text -> lines of tokens (spelling, numeral, integer)
"""
from __future__ import annotations

import math
import random
from decimal import ROUND_HALF_EVEN, Decimal

ATTRS = {
    "Arc": ["start", "end"], "Bell": ["center", "width", "slope"], "Binary": ["start", "direction"], "Concave": ["inflection", "end"],
    "Constant": ["value"], "Cosine": ["center", "width"], "Gaussian": ["mean", "standard_deviation"],
    "GaussianProduct": ["mean_a", "standard_deviation_a", "mean_b", "standard_deviation_b"],
    "PiShape": ["bottom_left", "top_left", "top_right", "bottom_right"], "Ramp": ["start", "end"], "Rectangle": ["start", "end"],
    "SemiEllipse": ["start", "end"], "Sigmoid": ["inflection", "slope"], "SigmoidDifference": ["left", "rising", "falling", "right"],
    "SigmoidProduct": ["left", "rising", "falling", "right"], "Spike": ["center", "width"], "SShape": ["start", "end"],
    "Trapezoid": ["bottom_left", "top_left", "top_right", "bottom_right"], "Triangle": ["left", "top", "right"], "ZShape": ["start", "end"],
}
INTEGRAL = ["Bisector", "Centroid", "LargestOfMaximum", "MeanOfMaximum", "SmallestOfMaximum"]
WEIGHTED = ["WeightedAverage", "WeightedSum"]
TNORMS = ["AlgebraicProduct", "BoundedDifference", "DrasticProduct", "EinsteinProduct", "HamacherProduct", "Minimum", "NilpotentMinimum"]
SNORMS = ["AlgebraicSum", "BoundedSum", "DrasticSum", "EinsteinSum", "HamacherSum", "Maximum", "NilpotentMaximum", "NormalizedSum", "UnboundedSum"]
NONUM = {"k": "none", "neg": False, "hi": "", "ip": 0, "fp": 0}
NAN = {"k": "nan", "neg": False, "hi": "", "ip": 0, "fp": 0}
PINF = {"k": "inf", "neg": False, "hi": "", "ip": 0, "fp": 0}
NINF = {"k": "-inf", "neg": True, "hi": "", "ip": 0, "fp": 0}
ONE = {"k": "num", "neg": False, "hi": "", "ip": 1, "fp": 0}


def split_int(i: int):
    """integer part -> (hi, ip): TLC integers are 32-bit, so ten digits and more are carried as a string of leading digits + nine digits"""
    if i < 10 ** 9:
        return "", i
    d = str(i)
    return d[:-9], int(d[-9:])


def int_part(n: dict) -> str:
    return str(n["ip"]) if not n.get("hi") else n["hi"] + str(n["ip"]).rjust(9, "0")


# ---- numerals ------------------------------------------------------------------------------------------------------
def num(x, dec: int) -> dict:
    """the numeral at `dec` decimals nearest to the exact value of the double x (what `f"{x:.{dec}f}"` must print)"""
    x = float(x)
    if math.isnan(x):
        return dict(NAN)
    if math.isinf(x):
        return dict(PINF if x > 0 else NINF)
    import decimal
    q = Decimal(x).quantize(Decimal(1).scaleb(-dec), rounding=ROUND_HALF_EVEN, context=decimal.Context(prec=1200))
    sign, digits, exp = q.as_tuple()
    n = int("".join(map(str, digits)))
    neg = bool(sign) or (x == 0 and math.copysign(1.0, x) < 0)
    hi, ip = split_int(n // 10 ** dec)
    return {"k": "num", "neg": neg, "hi": hi, "ip": ip, "fp": n % 10 ** dec}


def to_float(n: dict, dec: int) -> float:
    if n["k"] == "nan":
        return math.nan
    if n["k"] == "inf":
        return math.inf
    if n["k"] == "-inf":
        return -math.inf
    s = ("-" if n["neg"] else "") + f"{int_part(n)}." + str(n["fp"]).rjust(max(dec, 1), "0")
    return float(s)


def fmt(n: dict, dec: int) -> str:
    if n["k"] != "num":
        return n["k"]
    return ("-" if n["neg"] else "") + int_part(n) + ("" if dec == 0 else "." + str(n["fp"]).rjust(dec, "0"))


# ---- build -----------------------------------------------------------------------------------------------------------
def build_term(fl, t, dec, engine=None):
    cls = t["cls"]
    if cls == "Function":
        return fl.Function(t["name"], " ".join(t["f"]), engine, {x["n"]: to_float(x["v"], dec) for x in t.get("fv", [])}, load=True)
    p = [to_float(x, dec) for x in t["p"]]
    if cls == "Linear":
        return fl.Linear(t["name"], p, engine)
    if cls == "Discrete":
        term = fl.Discrete(t["name"], p if p else None)
    else:
        term = getattr(fl, cls)(t["name"])
        for a, v in zip(ATTRS[cls], p):
            setattr(term, a, v)
    term.height = to_float(t["h"], dec)
    return term


def build_defuzz(fl, d):
    if d["cls"] == "none":
        return None
    if d["cls"] in INTEGRAL:
        return getattr(fl, d["cls"])(d["res"])
    return getattr(fl, d["cls"])(d["type"])


def build_act(fl, a, dec):
    c = a["cls"]
    if c == "none":
        return None
    if c in ("First", "Last"):
        return getattr(fl, c)(a["n"], to_float(a["thr"], dec))
    if c in ("Highest", "Lowest"):
        return getattr(fl, c)(a["n"])
    if c == "Threshold":
        return fl.Threshold(a["cmp"], to_float(a["thr"], dec))
    return getattr(fl, c)()


def norm(fl, name):
    return None if name == "none" else getattr(fl, name)()


def build(fl, e, dec):
    eng = fl.Engine(e["name"], " ".join(e["desc"]))
    for v in e["inputs"]:
        iv = fl.InputVariable(v["name"], " ".join(v["desc"]), v["enabled"], to_float(v["min"], dec), to_float(v["max"], dec), v["lockRange"])
        eng.input_variables.append(iv)
    for v in e["outputs"]:
        ov = fl.OutputVariable(v["name"], " ".join(v["desc"]), v["enabled"], to_float(v["min"], dec), to_float(v["max"], dec), v["lockRange"],
                               v["lockPrev"], to_float(v["default"], dec), norm(fl, v["aggr"]), build_defuzz(fl, v["defuzz"]))
        eng.output_variables.append(ov)
    for v, var in zip(e["inputs"] + e["outputs"], eng.input_variables + eng.output_variables):
        var.terms = [build_term(fl, t, dec, eng) for t in v["terms"]]
    for b in e["blocks"]:
        rb = fl.RuleBlock(b["name"], " ".join(b["desc"]), b["enabled"], norm(fl, b["conj"]), norm(fl, b["disj"]), norm(fl, b["impl"]), build_act(fl, b["act"], dec))
        for r in b["rules"]:
            rule = fl.Rule.create(" ".join(r["toks"]), eng)
            rule.weight = to_float(r["w"], dec)
            rb.rules.append(rule)
        eng.rule_blocks.append(rb)
    return eng


# ---- project ---------------------------------------------------------------------------------------------------------
def project_term(fl, t, dec):
    cls = type(t).__name__
    out = {"name": t.name, "cls": cls, "p": [], "h": num(t.height, dec), "f": [], "fv": []}
    if cls == "Function":
        out["f"] = t.formula.split()
        out["fv"] = [{"n": k, "v": num(float(v), dec)} for k, v in t.variables.items()]
        out["h"] = dict(ONE)
    elif cls == "Linear":
        out["p"] = [num(c, dec) for c in t.coefficients]
        out["h"] = dict(ONE)
    elif cls == "Discrete":
        out["p"] = [num(v, dec) for xy in t.values for v in xy] if t.values.size else []
    else:
        out["p"] = [num(getattr(t, a), dec) for a in ATTRS[cls]]
        if cls == "Constant":
            out["h"] = dict(ONE)
    return out


def project_var(fl, v, dec):
    return {"name": v.name, "desc": v.description.split(), "enabled": bool(v.enabled), "min": num(v.minimum, dec), "max": num(v.maximum, dec),
            "lockRange": bool(v.lock_range), "terms": [project_term(fl, t, dec) for t in v.terms]}


def project_defuzz(d):
    if d is None:
        return {"cls": "none", "res": 0, "type": ""}
    c = type(d).__name__
    return {"cls": c, "res": int(d.resolution) if c in INTEGRAL else 0, "type": d.type.name if c in WEIGHTED else ""}


def project_act(a, dec):
    if a is None:
        return {"cls": "none", "n": 0, "thr": dict(NONUM), "cmp": ""}
    c = type(a).__name__
    return {"cls": c, "n": int(a.rules) if c in ("First", "Last", "Highest", "Lowest") else 0,
            "thr": num(a.threshold, dec) if c in ("First", "Last", "Threshold") else dict(NONUM),
            "cmp": a.comparator.value if c == "Threshold" else ""}


def cname(x):
    return "none" if x is None else type(x).__name__


def project(fl, eng, dec):
    outs = []
    for v in eng.output_variables:
        o = project_var(fl, v, dec)
        o.update({"aggr": cname(v.aggregation), "defuzz": project_defuzz(v.defuzzifier), "default": num(v.default_value, dec), "lockPrev": bool(v.lock_previous)})
        outs.append(o)
    blocks = []
    for b in eng.rule_blocks:
        rules = []
        for r in b.rules:
            rules.append({"toks": ["if"] + r.antecedent.text.split() + ["then"] + r.consequent.text.split(), "w": num(r.weight, dec)})
        blocks.append({"name": b.name, "desc": b.description.split(), "enabled": bool(b.enabled), "conj": cname(b.conjunction), "disj": cname(b.disjunction),
                       "impl": cname(b.implication), "act": project_act(b.activation, dec), "rules": rules})
    return {"name": eng.name, "desc": eng.description.split(), "inputs": [project_var(fl, v, dec) for v in eng.input_variables], "outputs": outs, "blocks": blocks}


# ---- text ------------------------------------------------------------------------------------------------------------
def render(lines, indent="  ") -> str:
    out = []
    for ln in lines:
        if ln["key"] == "":
            out.append("")
            continue
        if ln["key"] == "#":
            out.append("# " + " ".join(t["s"] for t in ln["val"]))
            continue
        s = indent * ln["ind"] + " ".join([ln["key"] + ":"] + [t["s"] for t in ln["val"]])
        if ln.get("cmt"):
            s += "  # trailing: comment"
        out.append(s)
    return "\n".join(out) + "\n"


def tokens_of(text: str):
    """[(indent, [tokens])] of the non-empty lines of a real export (for the token-exact comparison)"""
    res = []
    for raw in text.split("\n"):
        if not raw.strip():
            continue
        ind = (len(raw) - len(raw.lstrip(" "))) // 2
        res.append((ind, raw.split()))
    return res


def line_tokens(lines):
    return [(ln["ind"], [ln["key"] + ":"] + [t["s"] for t in ln["val"]]) for ln in lines if ln["key"] not in ("", "#")]


_NUM = __import__("re").compile(r"^-?\d+(\.\d+)?$")


def lex(text: str, dec: int):
    """text of a real export -> lines of token records for the specification's importer (spelling -> value is a lexical matter)"""
    lines = []
    for raw in text.split("\n"):
        if not raw.strip():
            continue
        ind = (len(raw) - len(raw.lstrip(" "))) // 2
        key, _, rest = raw.strip().partition(":")
        val = []
        for s in rest.split():
            if s in ("inf", "-inf", "nan"):
                val.append({"s": s, "n": dict({"inf": PINF, "-inf": NINF, "nan": NAN}[s]), "i": -1})
            elif _NUM.match(s) and "." in s:
                ip, fp = s.lstrip("-").split(".")
                hi_, ip_ = split_int(int(ip))
                val.append({"s": s, "n": {"k": "num", "neg": s.startswith("-"), "hi": hi_, "ip": ip_, "fp": int(fp) * 10 ** (dec - len(fp)) if len(fp) <= dec else int(fp)}, "i": -1})
            elif _NUM.match(s):
                neg = s.startswith("-")
                hi_, ip_ = split_int(abs(int(s)))
                val.append({"s": s, "n": ({"k": "num", "neg": neg, "hi": hi_, "ip": ip_, "fp": 0} if dec == 0 else dict(NONUM)), "i": int(s) if abs(int(s)) < 2 ** 31 else -1})
            else:
                val.append({"s": s, "n": dict(NONUM), "i": -1})
        lines.append({"ind": ind, "key": key, "val": val, "cmt": False})
    return lines


# ---- seeded random abstract engines ----------------------------------------------------------------------------------
def rnum(rng: random.Random, dec: int, lo=-3.0, hi=3.0, special=0.06) -> dict:
    r = rng.random()
    if r < special:
        return dict(rng.choice([NAN, PINF, NINF]))
    if r > 0.985:       # a magnitude beyond 10^16 that binary64 holds exactly (whole numbers: representable at any number of decimals)
        big = rng.choice([2 ** 63 + 2 ** 40, 2 ** 70 + 2 ** 30, 2 ** 54 + 4, 10 ** 22, 3 * 2 ** 60]) * rng.choice([1, -1])
        h_, i_ = split_int(abs(big))
        return {"k": "num", "neg": big < 0, "hi": h_, "ip": i_, "fp": 0}
    scale = 10 ** dec
    v = rng.randint(int(lo * scale), int(hi * scale))
    return {"k": "num", "neg": v < 0 or (v == 0 and rng.random() < 0.05), "hi": "", "ip": abs(v) // scale, "fp": abs(v) % scale}


def rheight(rng, dec) -> dict:
    r = rng.random()
    if r < 0.03:
        return dict(NAN)        # a height that is not a number is not "close to one": it is written, and read back
    if r < 0.5 or dec == 0:
        return dict(ONE)
    scale = 10 ** dec
    if dec >= 4 and r > 0.9:        # not 1, but well inside the comparison tolerance of 1 (at most 0.0008 away): the language writes no height
        v = scale + rng.choice([-1, 1]) * rng.randint(1, 8 * scale // 10000)
        return {"k": "num", "neg": False, "hi": "", "ip": v // scale, "fp": v % scale}
    while True:
        v = rng.randint(0, 3 * scale)
        if abs(v - scale) * 500 > scale:        # further from 1 than twice the comparison tolerance
            return {"k": "num", "neg": False, "hi": "", "ip": v // scale, "fp": v % scale}


def poly_term(rng, name, dec, n) -> dict:
    """a Function term whose formula is a polynomial in x with n coefficients held as the term's own variables"""
    return {"name": name, "cls": "Function", "p": [], "h": dict(ONE),
            "f": ["c0"] + [tok for j in range(1, n) for tok in ("+", f"c{j}", "*", "x", "^", str(j))],
            "fv": [{"n": f"c{j}", "v": rnum(rng, dec, special=0)} for j in range(n)]}


def rterm(rng, name, dec, classes=None, formula_vars=("x",), wide=False) -> dict:
    cls = rng.choice(classes or list(ATTRS) + ["Discrete", "Linear", "Function"])
    t = {"name": name, "cls": cls, "p": [], "h": dict(ONE), "f": [], "fv": []}
    if cls == "Function":
        v = rng.choice(formula_vars)
        if rng.random() < 0.35:     # a Function term with its own variables (Python representation only: the language cannot hold them)
            if rng.random() < 0.3:      # a polynomial with five to seven coefficients of its own
                return poly_term(rng, name, dec, rng.randint(5, 7))
            t["f"] = ["gain", "*", "x", "+", v, "-", "bias"]
            t["fv"] = [{"n": "gain", "v": rnum(rng, dec, special=0)}, {"n": "bias", "v": rnum(rng, dec, special=0.2)}]
            return t
        t["f"] = rng.choice([["x"], [fmt(rnum(rng, dec, 0, 3, special=0), dec).lstrip("-"), "*", v, "+", "x"], ["max", "(", v, ",", "x", ")", "^", "2"], ["sin", "(", v, ")", "/", "(", "x", "+", "1.5", ")"]])
    elif cls == "Linear":
        t["p"] = [rnum(rng, dec, special=0) for _ in range(rng.randint(7, 10) if wide else rng.randint(0, 3))]
    elif cls == "Discrete":
        xs = sorted(rng.sample(range(-30, 31), rng.randint(12, 40) if wide else rng.randint(1, 4)))
        scale = 10 ** dec
        for x in xs:
            v = x * scale // 10
            t["p"] += [{"k": "num", "neg": v < 0, "hi": "", "ip": abs(v) // scale, "fp": abs(v) % scale}, rnum(rng, dec, 0.0, 1.0, special=0)]
        if len(xs) >= 2 and rng.random() < 0.25:     # a point written twice in a row (two segments joined end to end): the table keeps both
            j_ = 2 * rng.randrange(len(xs))
            t["p"][j_:j_] = [dict(t["p"][j_]), dict(t["p"][j_ + 1])]
        if len(xs) >= 2 and rng.random() < 0.2:      # open-ended tables: the first / last abscissa infinite
            if rng.random() < 0.6:
                t["p"][0] = dict(NINF)
            if rng.random() < 0.6:
                t["p"][-2] = dict(PINF)
        t["h"] = rheight(rng, dec)
    else:
        t["p"] = [rnum(rng, dec) for _ in ATTRS[cls]]
        if cls != "Constant":
            t["h"] = rheight(rng, dec)
    return t


HEDGES = ["not", "very", "somewhat", "seldom", "extremely", "any"]


def rrule(rng, e, dec) -> dict:
    ins = [v for v in e["inputs"] + e["outputs"] if v["terms"]]
    outs = [v for v in e["outputs"] if v["terms"]]

    def prop(v):
        hs = [rng.choice(HEDGES[:5]) for _ in range(rng.choice([0, 0, 0, 1, 2]))]
        if rng.random() < 0.05:
            return [v["name"], "is"] + hs + ["any"]
        return [v["name"], "is"] + hs + [rng.choice(v["terms"])["name"]]

    props = [prop(rng.choice(ins)) for _ in range(rng.choice([1, 1, 2, 3, 3]))]
    ops = [rng.choice(["and", "or"]) for _ in props[1:]]
    if len(props) == 3 and rng.random() < 0.6:       # parentheses that may override the precedence of `and` over `or`
        if rng.random() < 0.5:
            toks = ["if", "("] + props[0] + [ops[0]] + props[1] + [")", ops[1]] + props[2]
        else:
            toks = ["if"] + props[0] + [ops[0], "("] + props[1] + [ops[1]] + props[2] + [")"]
    else:
        toks = ["if"] + props[0]
        for o, q in zip(ops, props[1:]):
            toks += [o] + q
    def cprop(v):       # `any` is not a term of a conclusion: the variable's own first term stands in for it
        q = prop(v)
        return [t if t != "any" else v["terms"][0]["name"] for t in q]

    toks += ["then"] + cprop(rng.choice(outs))
    if len(outs) > 1 and rng.random() < 0.3:
        toks += ["and"] + cprop(rng.choice(outs))
    return {"toks": toks, "w": rheight(rng, dec) if rng.random() < 0.4 else dict(ONE)}


def rengine(rng: random.Random, dec: int, k: int, wide: bool = False) -> dict:
    """wide: more of everything than any container-size limit of a printer would allow silently (7-9 inputs, 7-8 terms each,
    tables of 12-40 pairs, 8-12 rules, long descriptions)"""
    e = {"name": rng.choice(["", "engine", f"e{k}"]), "desc": rng.choice([[], ["seeded", "engine", str(k)]]), "inputs": [], "outputs": [], "blocks": []}
    if wide:
        e["desc"] = [f"word{j}" for j in range(rng.randint(30, 60))]
    # (names are identifiers; some are also reserved words of Python - `lambda`, `class`, `pass` - which is no concern of the language)
    names = iter(["alpha", "lambda", "gamma", "power", "class", "tip", "delta", "omega", "kappa", "sigma", "theta", "beta"])
    KW = ["pass", "return", "None", "global"]
    tname = lambda pre, j: KW[j % 4] if rng.random() < 0.12 else f"{pre}{j}"
    nterms = (lambda: rng.choice([7, 8])) if wide else (lambda: rng.choice([0, 1, 2, 3]))
    for _ in range(rng.choice([7, 8, 9]) if wide else rng.choice([0, 1, 2, 2, 3])):
        nm = next(names)
        e["inputs"].append({"name": nm, "desc": rng.choice([[], ["input", nm]]), "enabled": rng.random() < 0.85, "min": rnum(rng, dec, -3, 0), "max": rnum(rng, dec, 0, 3),
                            "lockRange": rng.random() < 0.3,
                            "terms": [rterm(rng, tname("t", j), dec, [c for c in list(ATTRS) + ["Discrete"] if c != "Constant"], wide=wide) for j in range(nterms())]})
    invars = tuple(v["name"] for v in e["inputs"]) or ("x",)
    for _ in range(rng.choice([0, 1, 1, 2])):
        nm = next(names)
        ts = rng.random() < 0.4
        e["outputs"].append({"name": nm, "desc": rng.choice([[], ["output", nm]]), "enabled": rng.random() < 0.85, "min": rnum(rng, dec, -3, 0), "max": rnum(rng, dec, 0, 3),
                             "lockRange": rng.random() < 0.3, "lockPrev": rng.random() < 0.3, "default": rng.choice([dict(NAN), rnum(rng, dec)]),
                             "aggr": rng.choice(["none"] + SNORMS),
                             "defuzz": (rng.choice([{"cls": "none", "res": 0, "type": ""}] + [{"cls": c, "res": 0, "type": ty} for c in WEIGHTED for ty in ("Automatic", "TakagiSugeno", "Tsukamoto")])
                                        if ts else rng.choice([{"cls": c, "res": r, "type": ""} for c in INTEGRAL for r in (1000, 100, 7, 1000)])),
                             "terms": [rterm(rng, tname("u", j), dec, (["Constant", "Linear", "Function", "Ramp", "Sigmoid"] if ts else None), invars, wide=wide) for j in range(nterms())]})
    for bi in range(rng.choice([0, 1, 1, 2])):
        act = rng.choice([{"cls": "none", "n": 0, "thr": dict(NONUM), "cmp": ""}, {"cls": "General", "n": 0, "thr": dict(NONUM), "cmp": ""}, {"cls": "Proportional", "n": 0, "thr": dict(NONUM), "cmp": ""},
                          {"cls": rng.choice(["First", "Last"]), "n": rng.randint(0, 4), "thr": rnum(rng, dec, 0, 1, special=0), "cmp": ""},
                          {"cls": rng.choice(["Highest", "Lowest"]), "n": rng.randint(0, 4), "thr": dict(NONUM), "cmp": ""},
                          {"cls": "Threshold", "n": 0, "thr": rnum(rng, dec, 0, 1, special=0), "cmp": rng.choice(["<", "<=", "==", "!=", ">=", ">"])}])
        b = {"name": rng.choice(["", f"rules{bi}"]), "desc": rng.choice([[], ["block", str(bi)]]), "enabled": rng.random() < 0.85, "conj": rng.choice(["none"] + TNORMS),
             "disj": rng.choice(["none"] + SNORMS), "impl": rng.choice(["none"] + TNORMS), "act": act, "rules": []}
        if any(v["terms"] for v in e["outputs"]) and any(v["terms"] for v in e["inputs"] + e["outputs"]):
            b["rules"] = [rrule(rng, e, dec) for _ in range(rng.choice([8, 10, 12]) if wide else rng.choice([0, 1, 2, 4]))]
        e["blocks"].append(b)
    # formulas may name ANY variable of the engine - inputs, outputs, variables declared later in the text, the term's own variable
    allnames = [v["name"] for v in e["inputs"] + e["outputs"]]
    for v in e["inputs"] + e["outputs"]:
        for t in v["terms"]:
            if t["cls"] == "Function" and not t["fv"] and allnames and rng.random() < 0.6:
                t["f"] = [(rng.choice(allnames) if tok in invars and tok != "x" else tok) for tok in t["f"]]
    return e
