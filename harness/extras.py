"""Growth of the specification beyond the listed properties (DESIGN.md section 10.6): spec/EngineExtras.tla evaluated by TLC
on engine descriptions and compared with the real library - Engine.infer_type, Variable.fuzzify, Variable.highest_membership,
Aggregated.highest_activated_term.  Run with `./check --extras`; not a check of a listed property (nothing is claimed in
MANIFEST.json for it), but it uses the same machinery, exit codes and replay files (replays/X01)."""
from __future__ import annotations

import copy
import math
import random
import re

import numpy as np

from . import core
from .catalogue import catalogue, in_a, in_b, out_ts, out_tsk, out_y, out_z, rows_for
from .edl import C, P, block, build_engine, engine, feq, out, rule, term
from .tlc import MachineryError
from .xreal import to_float


def extra_engines():
    es = []
    mixed = out("v", 0, 2, [term("c", "Constant", "3/2"), term("t", "Triangle", 0, 1, 2)], defuzzifier="WeightedAverage", aggregation="none")
    es.append(engine("weighted-mixed-kinds", [in_a()], [mixed], [block("rb", [rule(P("a", "lo"), [C("v", "c")])], implication="none")]))
    es.append(engine("ts-then-mixed", [in_a()], [out_ts(), copy.deepcopy(mixed)], [block("rb", [rule(P("a", "lo"), [C("u", "c1")])], implication="none")]))
    inv = out("q", 0, 2, [term("t", "Triangle", 0, 1, 2), term("r", "Rectangle", 0, 1)], defuzzifier="WeightedSum", aggregation="none")
    es.append(engine("inverse-tsukamoto-only", [in_a()], [inv], [block("rb", [rule(P("a", "lo"), [C("q", "t")])], implication="none")]))
    es.append(engine("tsukamoto-only", [in_a(), in_b()], [out_tsk()], [block("rb", [rule(P("a", "lo"), [C("w", "up")])], implication="none")]))
    es.append(engine("hybrid-integral-weighted", [in_a(), in_b()], [out_y(), out_ts()], [block("rb", [rule(P("a", "lo"), [C("y", "s"), C("u", "c1")])])]))
    es.append(engine("no-defuzzifier", [in_a(), in_b()], [out_y(), out_z(defuzzifier="none")], [block("rb", [rule(P("a", "lo"), [C("y", "s")])])]))
    es.append(engine("no-outputs", [in_a()], [], []))
    es.append(engine("larsen-two-blocks", [in_a(), in_b()], [out_y()], [block("b1", [rule(P("a", "lo"), [C("y", "s")])], implication="AlgebraicProduct"),
                                                                      block("b2", [rule(P("b", "hi"), [C("y", "l")])], implication="AlgebraicProduct")]))
    es.append(engine("mamdani-one-larsen-block", [in_a(), in_b()], [out_y()], [block("b1", [rule(P("a", "lo"), [C("y", "s")])], implication="AlgebraicProduct"),
                                                                             block("b2", [rule(P("b", "hi"), [C("y", "l")])])]))
    es.append(engine("integral-no-blocks", [in_a()], [out_y()], []))
    es.append(engine("empty-weighted-output", [in_a()], [out("e", 0, 1, [], defuzzifier="WeightedAverage", aggregation="none")], []))
    for e in es:
        e["coarse"] = True
    return es


def parse_fuzzy(s):
    """'0.500/lo + 0.250/md - 0.100/hi' -> [(0.5, 'lo'), (0.25, 'md'), (-0.1, 'hi')]"""
    res = []
    for sign, d, name in re.findall(r"([+-]?)\s*([0-9.]+|nan|inf)/(\w+)", str(s)):
        res.append(((-1 if sign == "-" else 1) * float(d), name))
    return res


def run(ctx: core.Ctx):
    fl = core.import_fuzzylite()
    rng = random.Random(ctx.seed)
    engines = catalogue(True) + extra_engines()
    cases = [{"id": i, "engine": E, "rows": rows_for(E, limit=24, rng=rng) if E["inputs"] else [[]]} for i, E in enumerate(engines)]
    runs = ctx.tlc_cases("Gen_Extras", None, cases, label="extras", workers=16, timeout=3000)
    recs = []
    for r in runs:
        ctx.expect_holds(r, "Gen_Extras")
        recs += r.emitted
    if len(recs) < 500:
        raise MachineryError(f"only {len(recs)} states")
    built = {}
    for rec in recs:
        case = cases[rec["cid"]]
        E = case["engine"]
        if rec["cid"] not in built:
            built[rec["cid"]] = build_engine(fl, E)
            e = built[rec["cid"]]
            ctx.count()
            try:
                got = e.infer_type().name
            except TypeError:
                got = "TypeError"
            if got != rec["type"]:
                ctx.violation(f"Engine.infer_type/{rec['type']}", {"engine": E["name"]}, rec["type"], got)
        e = built[rec["cid"]]
        row = case["rows"][rec["k"] - 1]
        for i, iv in enumerate(e.input_variables):
            x = to_float(row[i])
            iv.value = x
            xv = float(np.asarray(iv.value))
            want = [(to_float(f["degree"]), f["term"]) for f in rec["fuzzify"][i]]
            if any(f["degree"][0] >= 3 for f in rec["fuzzify"][i]):
                continue
            ctx.count()
            got = parse_fuzzy(iv.fuzzify(xv))
            if len(got) != len(want) or any(n1 != n2 or not ((math.isnan(a) and math.isnan(b)) or abs(a - b) <= 0.00051) for (a, n1), (b, n2) in zip(got, want)):
                ctx.violation("Variable.fuzzify", {"engine": E["name"], "variable": iv.name, "x": xv}, want, got)
            h = rec["highest"][i]
            ctx.count()
            hm = iv.highest_membership(xv)
            gname, gdeg = ("", 0.0) if hm is None else (hm.term.name, float(np.asarray(hm.degree)))
            if gname != h["term"] or not feq(gdeg, to_float(h["degree"])):
                ctx.violation("Variable.highest_membership", {"engine": E["name"], "variable": iv.name, "x": xv}, [h["term"], to_float(h["degree"])], [gname, gdeg])
        for i, per_term in enumerate(rec.get("discrete") or []):
            iv = e.input_variables[i]
            for t, d in zip(iv.terms, per_term):
                for key, mid in (("mid", True), ("lin", False)):
                    if any(p[1][0] >= 3 for p in d[key]):
                        continue
                    ctx.count()
                    got = t.discretize(float(iv.minimum), float(iv.maximum), 4, midpoints=mid)
                    want = [(to_float(p[0]), to_float(p[1])) for p in d[key]]
                    have = [(float(a), float(b)) for a, b in got.values]
                    if type(got).__name__ != "Discrete" or got.name != t.name or len(have) != len(want) or any(not feq(a, c) or not feq(b, dd) for (a, b), (c, dd) in zip(have, want)):
                        ctx.violation(f"Term.discretize/{'midpoints' if mid else 'linspace'}", {"engine": E["name"], "variable": iv.name, "term": t.name}, want, have)
        if rec["activated"] and not rec["raises"] and E["outputs"]:
            try:
                e.process()
            except Exception:
                continue
            for o, ov in enumerate(e.output_variables):
                h = rec["activated"][o]
                if h["degree"][0] >= 3:
                    continue
                ctx.count()
                ha = ov.fuzzy.highest_activated_term()
                gname, gdeg = ("", 0.0) if ha is None else (ha.term.name, float(np.asarray(ha.degree)))
                if gname != h["term"] or not feq(gdeg, to_float(h["degree"])):
                    ctx.violation("Aggregated.highest_activated_term", {"engine": E["name"], "output": ov.name, "row": [to_float(v) for v in row]},
                                  [h["term"], to_float(h["degree"])], [gname, gdeg])
        ctx.traces += 1
        ctx.case((rec["cid"], rec["k"]))
    ctx.sample(recs[10])
    ctx.rule = f"{len(engines)} engine descriptions x up to 24 rows: engine type, fuzzification and highest membership of every input, highest activated term of every output"
    ctx.assumptions += ["not a listed property: growth of the specification; fuzzify strings are compared at the printed 3 decimals"]
