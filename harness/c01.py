"""C01  Engine output equals the documented inference pipeline.

spec/Engine.tla interprets an engine description (EDL) row by row; spec/Gen_Engine.tla runs it on a
catalogue of engines, each aimed at one wiring aspect, over the full product of interesting input
points, checks design invariants in every state and emits the observable projection after every
process() - output values, previous values, every fuzzy output (term, degree, implication, order),
every rule's activation degree and triggered flag.  harness/edl.py builds the real engines with
constructors and the same rows are processed on them as Python floats; the projections must agree.
Thorough adds seeded random engines (harness/gen_engine.py).
"""
from __future__ import annotations

import json
import math
import random

import numpy as np

from . import core, engine_run
from .catalogue import catalogue, rows_for
from .edl import build_engine, diff_obs, observe, share_components
from .tlc import MachineryError
from .xreal import to_float

TIE_PRONE = {"Bisector", "SmallestOfMaximum", "MeanOfMaximum", "LargestOfMaximum"}


# the forms in which the same input values may reach the engine: the observation must not depend on them
FORMS = ["float", "numpy-scalar", "0-d-array", "int-when-integral", "batch-of-one", "matrix-of-one-row", "read-only-0-d"]


def set_inputs(e, xs, form):
    if form == "matrix-of-one-row" and e.input_variables:
        e.input_values = np.array([xs], dtype=float)
        return
    for iv, x in zip(e.input_variables, xs):
        if form == "numpy-scalar":
            iv.value = np.float64(x)
        elif form == "0-d-array":
            iv.value = np.array(x)
        elif form == "read-only-0-d":
            a = np.array(x)
            a.setflags(write=False)
            iv.value = a
        elif form == "int-when-integral" and math.isfinite(x) and float(x).is_integer():
            iv.value = int(x)
        elif form == "batch-of-one":
            iv.value = np.array([x])
        else:
            iv.value = x


def unwrap(obs):
    """a batch of one row is observed as lists of one element"""
    def u(v):
        return v[0] if isinstance(v, list) and len(v) == 1 and not isinstance(v[0], dict) else v
    return {"out": [u(v) for v in obs["out"]], "prev": [u(v) for v in obs["prev"]],
            "fuzzy": [[dict(a, degree=u(a["degree"])) for a in f] for f in obs["fuzzy"]],
            "deg": [[u(d) for d in b] for b in obs["deg"]], "trig": obs["trig"]}


def replay_case(fl, case, expected, ctx=None, pid="C01", tie_ok=None):
    """process the rows on a real engine; returns list of (k, description) mismatches"""
    E = case["engine"]
    e = build_engine(fl, E, style=case.get("style", 0))
    if case.get("shared"):
        share_components(e)
    bad = []
    tied = frozenset()
    for k, row in enumerate(case["rows"], start=1):
        exp = expected.get(k)
        if exp is None:
            break
        raised = None
        form = FORMS[(k + len(E["name"])) % len(FORMS)] if case.get("forms", True) else "float"
        if form in ("batch-of-one", "matrix-of-one-row") and any(b["activation"]["cls"] != "General" for b in E["blocks"]):
            form = "0-d-array"      # the six other activation methods are defined for scalar inputs only and may refuse any batch (C08)
        try:
            set_inputs(e, [to_float(x) for x in row], form)
            e.process()
        except Exception as ex:  # noqa
            raised = f"{type(ex).__name__}: {ex} [inputs given as {form}]"
        if exp["tainted"]:
            if ctx:
                ctx.extra["rows_skipped_irrational"] = ctx.extra.get("rows_skipped_irrational", 0) + 1
            if raised:
                bad.append((k, f"process() raised {raised}"))
                break
            continue
        if exp["raises"]:
            if not raised:
                bad.append((k, "process() completed although an operator the evaluation needs is missing"))
            break
        if raised:
            bad.append((k, f"process() raised {raised}"))
            break
        # an output whose value was accepted as a broken tie in the previous row (C09) leaves the code's own value as previous value
        obs_now = unwrap(observe(e)) if form in ("batch-of-one", "matrix-of-one-row") else observe(e)
        d = diff_obs(exp, obs_now, skip_prev=tied)
        now = set()
        while d and tie_ok is not None and d.startswith("output["):
            o = int(d[7:d.index("]")])
            if o in now or not tie_ok(e, o, exp):
                break
            now.add(o)
            d = diff_obs(exp, obs_now, skip_out=now, skip_prev=tied)
        tied = frozenset(now)
        if d:
            bad.append((k, d + (f" [inputs given as {form}]" if form != "float" else "")))
            break  # later rows of a history depend on this one
    return bad


def run(ctx: core.Ctx):
    fl = core.import_fuzzylite()
    rng = random.Random(ctx.seed)
    engines = catalogue(ctx.quick)
    cases = []
    for E in engines:
        rows = rows_for(E, limit=160 if ctx.quick else None, rng=rng)
        cases.append({"engine": E, "rows": rows, "shared": len(cases) % 2 == 1})
    if not ctx.quick:
        from .gen_engine import random_engines

        for E in random_engines(rng, 200):
            cases.append({"engine": E, "rows": rows_for(E, limit=60, rng=rng)})
    exp = engine_run.evaluate(ctx, cases, "c01")
    from .c09 import tie_tolerant

    nrows = 0
    for ci, case in enumerate(cases):
        expected = {k: v for (c, k), v in exp.items() if c == ci}
        if len(expected) == 0:
            if case["engine"]["name"].startswith("random-") and ctx.extra.get("cases_dropped_overflow"):
                ctx.extra["random_engines_without_expectation"] = ctx.extra.get("random_engines_without_expectation", 0) + 1
                continue        # the exact arithmetic of this seeded engine left TLC's 32-bit integers: dropped, counted
            raise MachineryError(f"no expectation for case {ci} ({case['engine']['name']})")
        bad = replay_case(fl, case, expected, ctx, tie_ok=tie_tolerant)
        nrows += len(expected)
        ctx.count(len(expected))
        ctx.traces += 1
        for k in expected:
            ob = expected[k]
            ctx.case((ci, k), nontrivial=any(len(f) > 0 for f in ob["fuzzy"]))
        for k, d in bad:
            what = d.split(":")[0].split("[")[0]
            ctx.violation(f"Engine.process/{case['engine']['name']}/{what}", {"engine": case["engine"], "rows": case["rows"][:k], "shared": case.get("shared", False)},
                          {kk: expected[k][kk] for kk in ("out", "fuzzy", "deg", "trig")}, d, note=f"{case['engine']['name']} row {k}: {d}", step=k)
        if ci in (0, 13):
            ctx.sample({"engine": case["engine"]["name"], "row": case["rows"][5], "expected": expected.get(6)})
    # the pipeline on engines that were used before and edited since (spec/MC_Lifecycle in edit mode): set, process, edit, process
    from . import c13

    ebehs, ecases = c13.edit_behaviours(ctx, 4 if ctx.quick else 5)
    c13.replay_behaviours(ctx, fl, ebehs, ecases, prefix="Engine.process/edited-after-use/")
    ctx.extra["edit_behaviours"] = len(ebehs)
    # code -> spec: recorded process() calls validated by spec/Trace_Engine.tla
    from . import trace_engine

    def runner(case):
        def go():
            e = build_engine(fl, case["engine"], style=case.get("style", 0))
            for row in case["rows"][: (12 if ctx.quick else 40)]:
                try:
                    for iv, x in zip(e.input_variables, row):
                        iv.value = to_float(x)
                    e.process()
                except Exception:
                    pass
        return go
    trace_engine.validate(ctx, fl, [runner(c) for c in cases[: (60 if ctx.quick else 260)]])
    ctx.extra["engines"] = len(cases)
    ctx.extra["rows"] = nrows
    ctx.exhaustive = ctx.quick is False
    ctx.rule = (f"{len(cases)} engine descriptions (catalogue: one per wiring aspect - weights, distinguishable operator mixes, 7 activation methods, "
                "disabled rule/block/input/output, unloaded rule, chained blocks, output variables in antecedents, shared and hedged conclusions, "
                "every defuzzifier and resolution, Takagi-Sugeno/Tsukamoto/hybrid, lock flags) x rows over breakpoints, midpoints, bounds, outside, "
                "+-inf, NaN of each input (full product, sampled to 160 rows per engine in the quick tier); non-trivial = some rule contributes")
    ctx.assumptions += ["terms in engine-level models are the kinds with rational closed forms; rows whose expectation contains a non-square root are skipped (counted)",
                        "outputs compared to 1e-9; under tie-prone defuzzifiers a mismatch is accepted only if the value is the reduction of the code's own sampled set up to tie tolerance (C09 link 2)"]


def replay(v) -> int:
    fl = core.import_fuzzylite()
    if "steps" in v["case"] or "trace" in v["case"]:     # a behaviour on an edited engine / a recorded process() trace
        print(json.dumps(v["case"])[:3000])
        print("observed:", v.get("observed"), "| note:", v.get("note"))
        print("re-run ./check C01 for the verdict on the current tree")
        return 1
    ctx = core.Ctx("C01", "quick", v.get("seed", 0))
    case = {"engine": v["case"]["engine"], "rows": v["case"]["rows"], "shared": v["case"].get("shared", False)}
    exp = engine_run.evaluate(ctx, [case], "replay", shards=1)
    expected = {k: o for (c, k), o in exp.items()}
    from .c09 import tie_tolerant

    bad = replay_case(fl, case, expected, tie_ok=tie_tolerant)
    import shutil

    shutil.rmtree(ctx.work, ignore_errors=True)
    for k, d in bad:
        print(f"row {k}: {d}")
    if bad:
        print("VIOLATION property=C01 replay=(given)")
        return 1
    print("engine conforms on the stored rows")
    return 0
