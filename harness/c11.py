"""C11  Tsukamoto values invert the monotonic membership functions.

1. TLC: spec/MC_Tsukamoto - the 6 monotonic kinds, both directions, 3 heights, dyadic and decimal
   palettes, y over 13 fractions of the height: where the inverse is rational, Mu(Tsukamoto(y)) = y
   exactly on the model, and z is strictly monotone in y in the term's direction.
2. Replay on the real terms: z = term.tsukamoto(y) is finite, equals the documented inverse evaluated
   exactly at the doubles used, term.membership(z) returns y, z is ordered like the term; y also next
   to 0, h/2 (both neighbours) and h; arrays give elementwise results; every non-monotonic kind refuses.
"""
from __future__ import annotations

import math
from fractions import Fraction

import numpy as np

from . import core, kexpr
from .c03 import build
from .tlc import MachineryError, write_cfg
from .xreal import to_float

NONMONO = {"Bell": (0.5, 0.25, 2.0), "Binary": (0.5, math.inf), "Cosine": (0.5, 1.0), "Gaussian": (0.5, 0.25),
           "GaussianProduct": (0.25, 0.25, 0.75, 0.25), "PiShape": (0.0, 0.25, 0.75, 1.0), "Rectangle": (0.25, 0.75),
           "SemiEllipse": (0.25, 0.75), "SigmoidDifference": (0.25, 4.0, 4.0, 0.75), "SigmoidProduct": (0.25, 4.0, -4.0, 0.75),
           "Spike": (0.5, 1.0), "Trapezoid": (0.0, 0.25, 0.75, 1.0), "Triangle": (0.0, 0.5, 1.0), "Constant": (0.5,)}


def relclose(a, b, tol):
    return abs(a - b) <= tol * max(1.0, abs(a), abs(b))


def run(ctx: core.Ctx):
    fl = core.import_fuzzylite()
    exact_states = 0
    worst = 0.0
    for palette in ("dyadic", "decimal"):
        head = f'SPECIFICATION Spec\nCONSTANTS Palette = "{palette}"\n'
        g = ctx.tlc("MC_Tsukamoto", write_cfg(f"MC_Tsukamoto_{palette}", head + "  Emit = TRUE\nINVARIANT InverseExact\nINVARIANT MonotoneZ\nINVARIANT EmitInv\nCHECK_DEADLOCK FALSE\n"), workers=16)
        ctx.expect_holds(g, "MC_Tsukamoto")
        groups = {}
        for c in g.emitted:
            groups.setdefault((c["k"], repr(c["p"]), repr(c["h"])), []).append(c)
            exact_states += kexpr.is_exact(c["z"])
        for (k, _, _), cases in groups.items():
            p = [to_float(v) for v in cases[0]["p"]]
            h = to_float(cases[0]["h"])
            term = build(fl, k, p, h)
            env0 = {"p": [Fraction(v) for v in p], "h": Fraction(h)}
            base = {"k": k, "p": cases[0]["p"], "h": cases[0]["h"], "palette": palette}
            sym = {c["piece"]: c["f"] for c in cases}
            ys = sorted({to_float(c["y"]) for c in cases} | {h * 1e-12, h * 2.0 ** -40, math.nextafter(h / 2, 0), h / 2, math.nextafter(h / 2, h), math.nextafter(h, 0), h * (1 - 2.0 ** -30)})
            ys = [y for y in ys if 0 < y < h]
            zs = []
            for yd in ys:
                ctx.count()
                try:
                    z = float(term.tsukamoto(yd))
                except Exception as ex:
                    ctx.violation(f"{k}.tsukamoto/raises", dict(base, y=yd), "a finite value", f"{type(ex).__name__}: {ex}")
                    zs.append(math.nan)
                    continue
                zs.append(z)
                if not math.isfinite(z):
                    ctx.violation(f"{k}.tsukamoto/finite/{palette}", dict(base, y=yd), "finite", z)
                    continue
                # documented inverse at the doubles used (piece chosen by y <= h/2 for the S/Z shapes)
                piece = ("lower" if yd <= h / 2 else "upper") if k in ("SShape", "ZShape") else cases[0]["piece"]
                f = sym.get(piece)
                singular = (kexpr.has_node(sym.get(piece) or ['q'], 'sqrt') or kexpr.has_node(sym.get(piece) or ['q'], 'log')) and min(yd, h - yd) < 1e-6 * h
                if f is not None and not singular:  # next to 0 and h the inverse is ill-conditioned: only the relation is judged there
                    exp = kexpr.value(f, dict(env0, x=Fraction(yd)))
                    tol = 1e-7 if (kexpr.has_node(f, "sqrt") or kexpr.has_node(f, "log")) else 1e-9
                    if not relclose(z, exp, tol):
                        ctx.violation(f"{k}.tsukamoto/formula/{palette}", dict(base, y=yd, f=f), exp, z, note=f"{k}{tuple(p)} h={h} y={yd!r}")
                    else:
                        worst = max(worst, abs(z - exp))
                m = float(term.membership(z))
                ok = (abs(m * m - yd * yd) <= 1e-9 * h * h or abs(m - yd) <= 1e-9) if k == "Arc" else abs(m - yd) <= 1e-9 * max(1.0, 1.0 / min(yd, h - yd) * 1e-6)
                if not ok:
                    ctx.violation(f"{k}.tsukamoto/inverse/{palette}", dict(base, y=yd), yd, m, note=f"membership(tsukamoto(y)) != y for {k}{tuple(p)} h={h}: z={z!r}")
                ctx.case((palette, k, tuple(p), h, yd))
            d = cases[0]["dir"]
            fz = [z for z in zs if math.isfinite(z)]
            if len(fz) == len(zs) and not all((b - a) * d >= -1e-12 for a, b in zip(fz, fz[1:])):
                ctx.violation(f"{k}.tsukamoto/monotone/{palette}", base, "monotone in the direction of the term", fz)
            try:
                arg = np.array(ys)
                A = np.asarray(term.tsukamoto(arg), dtype=float)
                if not np.array_equal(arg, np.array(ys)):
                    ctx.violation(f"{k}.tsukamoto/argument-mutated", base, ys, arg.tolist(), note="the caller's array of degrees was modified in place")
                A2 = np.asarray(term.tsukamoto(np.array(ys + ys).reshape(2, -1)), dtype=float)
                ctx.count(2)
                if A.shape != (len(ys),) or not np.allclose(A, zs, rtol=0, atol=1e-12, equal_nan=True) or A2.shape != (2, len(ys)) or not np.allclose(A2[1], zs, rtol=0, atol=1e-12, equal_nan=True):
                    ctx.violation(f"{k}.tsukamoto/array", base, zs, A.tolist())
                from . import forms
                forms.check(ctx, f"{k}.tsukamoto", base, term.tsukamoto, np.array(ys), np.array(zs), atol=1e-12)
                for sh in ((1,), (1, 1)):       # batches of length one keep their shape
                    r1 = np.asarray(term.tsukamoto(np.full(sh, ys[len(ys) // 2])), dtype=float)
                    ctx.count()
                    if r1.shape != sh or not np.allclose(r1.ravel(), [zs[len(ys) // 2]], rtol=0, atol=1e-12, equal_nan=True):
                        ctx.violation(f"{k}.tsukamoto/single-element-array", dict(base, shape=list(sh)), list(sh), list(r1.shape))
                # a long-lived term of this kind, used before with other parameters and re-parameterised by plain attribute
                # assignment, then called with arrays of the same shape as an earlier call: nothing may survive from earlier uses
                from .fll import ATTRS
                pool = run.__dict__.setdefault("pool", {})
                if k in pool:
                    lt = pool[k]
                    for a_, v_ in zip(ATTRS[k], p):
                        setattr(lt, a_, float(v_))
                    lt.height = float(h)
                    first = np.asarray(lt.tsukamoto(np.array(ys[::-1])), dtype=float)
                    keep = first.copy()
                    B = np.asarray(lt.tsukamoto(np.array(ys)), dtype=float)
                    ctx.count(2)
                    if not np.array_equal(first, keep, equal_nan=True):
                        ctx.violation(f"{k}.tsukamoto/result-aliased", base, "unchanged by a later call", "modified")
                    elif not np.allclose(B, zs, rtol=0, atol=1e-12, equal_nan=True) or not np.allclose(first, zs[::-1], rtol=0, atol=1e-12, equal_nan=True):
                        ctx.violation(f"{k}.tsukamoto/re-parameterised-object-differs", base, zs, B.tolist(), note="a long-lived term re-parameterised by attribute assignment differs from a fresh one")
                    m1 = [float(lt.membership(z)) for z in zs if math.isfinite(z)]
                    m2 = [float(term.membership(z)) for z in zs if math.isfinite(z)]
                    if m1 != m2:
                        ctx.violation(f"{k}.membership/re-parameterised-object-differs", base, m2, m1)
                else:
                    pool[k] = build(fl, k, p, h)
                    pool[k].tsukamoto(np.array(ys))
            except Exception as ex:
                ctx.violation(f"{k}.tsukamoto/array-raises", base, "elementwise values", f"{type(ex).__name__}: {ex}")
        ctx.traces += len(g.emitted)
        ctx.sample({kk: g.emitted[100][kk] for kk in ("k", "p", "h", "y", "z", "f")})
    # parameters at the ends of the binary64 range (a palette outside TLC's enumeration: the exact model has no overflow).  The
    # true inverse is finite and inside the term's range there, so z must be finite and membership(z) = y; the palette is the
    # set of (kind, start, end, height) on which the documented inverse can be evaluated in binary64 without leaving its range
    EXTREME = [("Ramp", 0.0, 1.0, 1e-300), ("Ramp", 0.0, 1.0, 1e-310), ("Ramp", 1.0, 0.0, 1e-310), ("Ramp", -8e307, 8e307, 0.5), ("Ramp", 8e307, -8e307, 0.5),
               ("Ramp", 0.0, 1e-300, 1.0), ("Ramp", -1e-310, 1e-310, 0.5), ("Concave", 0.0, 1.0, 1e-300), ("Concave", 0.0, 1.0, 1e-310), ("Concave", 1.0, 0.0, 1e-310),
               ("Concave", 0.0, 1e-300, 1.0), ("SShape", 0.0, 1.0, 1e-300), ("SShape", -8e307, 8e307, 0.5), ("ZShape", 0.0, 1.0, 1e-300), ("ZShape", -8e307, 8e307, 0.5),
               ("SShape", 0.0, 1e-300, 1.0), ("ZShape", 0.0, 1e-300, 1.0), ("Arc", 0.0, 1.0, 1e-300), ("Arc", 1.0, 0.0, 1e-310)]
    for k, s_, e_, h in EXTREME:
        term = getattr(fl, k)("t", s_, e_, h)
        for f in (0.125, 0.25, 0.5, 0.75, 0.875):
            y = h * f
            ctx.count()
            z = float(term.tsukamoto(y))
            m = float(term.membership(z)) if math.isfinite(z) else math.nan
            if not math.isfinite(z) or not abs(m - y) <= 1e-6 * y:
                ctx.violation(f"{k}.tsukamoto/extreme-parameters", {"k": k, "start": s_, "end": e_, "height": h, "y": y}, y, [z, m],
                              note=f"{k}({s_}, {e_}, height={h}): z({y}) = {z}, membership(z) = {m}")
    if exact_states < 500:
        raise MachineryError(f"only {exact_states} states with an exact inverse: InverseExact is nearly vacuous")
    ctx.extra["states_with_exact_inverse"] = exact_states
    ctx.extra["max_deviation"] = worst
    # refusal
    for k, p in NONMONO.items():
        t = build(fl, k, list(p), 1.0)
        # whatever the degree: inside (0, h), exactly 0 (a rule that did not fire), 0-d, a vector of zeros, a mixed vector
        for y_ in (0.5, 0.0, np.array(0.0), np.zeros(3), np.array([0.0, 0.5]), 1.0):
            ctx.count()
            try:
                r = t.tsukamoto(y_)
                ctx.violation(f"{k}.tsukamoto/refusal", {"k": k, "y": np.asarray(y_).tolist()}, "an exception", repr(r), note=f"{k} is not monotonic but answers tsukamoto({np.asarray(y_).tolist()}) with {r!r}")
                break
            except Exception:
                pass
        if t.is_monotonic():
            ctx.violation(f"{k}.is_monotonic", {"k": k}, False, True)
    # a term of any other kind: either it does not declare itself monotonic and refuses, or it declares itself monotonic and then
    # the inverse relation is owed for it as for the six (tables: increasing, decreasing, not spanning [0, 1], flat, not monotone)
    tables = {"increasing": ([0.0, 0.25, 1.0], [0.0, 0.5, 1.0]), "decreasing": ([0.0, 0.5, 1.0], [1.0, 0.25, 0.0]), "partial-increasing": ([0.0, 1.0], [0.25, 0.75]),
              "partial-decreasing": ([-1.0, 0.0, 2.0], [0.75, 0.5, 0.125]), "hat": ([0.0, 0.5, 1.0], [0.0, 1.0, 0.0]), "two-points": ([0.0, 1.0], [0.0, 1.0])}
    for name, (xs_, ys_) in tables.items():
        for h in (1.0, 0.5):
            d = fl.Discrete("d", fl.Discrete.to_xy(xs_, ys_), h)
            ctx.count()
            if not d.is_monotonic():
                try:
                    r = d.tsukamoto(0.5 * h)
                    ctx.violation("Discrete.tsukamoto/refusal", {"k": "Discrete", "table": name, "height": h}, "an exception (the term does not declare itself monotonic)", repr(r))
                except Exception:
                    pass
                continue
            lo_, hi_ = min(ys_) * h, max(ys_) * h
            zs_ = []
            for f in (0.125, 0.25, 0.5, 0.75, 0.875):
                y = lo_ + f * (hi_ - lo_)
                try:
                    z = float(np.asarray(d.tsukamoto(y), dtype=float))
                    m = float(np.asarray(d.membership(z), dtype=float))
                except Exception as ex:
                    ctx.violation("Discrete.tsukamoto/declared-monotonic/raises", {"k": "Discrete", "table": name, "height": h, "y": y}, "a finite z with membership(z) = y", f"{type(ex).__name__}: {ex}")
                    break
                zs_.append(z)
                if not math.isfinite(z) or abs(m - y) > 1e-9:
                    ctx.violation("Discrete.tsukamoto/declared-monotonic/inverse", {"k": "Discrete", "table": name, "height": h, "y": y}, y, [z, m],
                                  note=f"the table declares itself monotonic: z({y}) = {z}, membership(z) = {m}")
                    break
            else:
                inc = ys_[-1] > ys_[0]
                if any((b <= a) if inc else (b >= a) for a, b in zip(zs_, zs_[1:])):
                    ctx.violation("Discrete.tsukamoto/declared-monotonic/order", {"k": "Discrete", "table": name, "height": h}, "monotone in the direction of the term", zs_)
    # the same for every other term object the library has - wrappers included: it either does not declare itself monotonic and
    # refuses, or it declares itself monotonic and then owes the inverse relation on (0, height)
    others = {"Activated(Ramp)/Minimum": fl.Activated(fl.Ramp("r", 0.0, 1.0), 0.5, fl.Minimum()),
              "Activated(Ramp)/AlgebraicProduct": fl.Activated(fl.Ramp("r", 0.0, 1.0), 0.5, fl.AlgebraicProduct()),
              "Activated(Sigmoid)/AlgebraicProduct": fl.Activated(fl.Sigmoid("s", 0.5, 4.0), 0.25, fl.AlgebraicProduct()),
              "Activated(Triangle)/Minimum": fl.Activated(fl.Triangle("t", 0.0, 0.5, 1.0), 0.5, fl.Minimum()),
              "Aggregated(Ramp)": fl.Aggregated("a", 0.0, 1.0, fl.Maximum(), [fl.Activated(fl.Ramp("r", 0.0, 1.0), 0.5, fl.Minimum())]),
              "Constant": fl.Constant("c", 0.5), "Linear": fl.Linear("l", [1.0, 0.5]), "Function": fl.Function("f", "x")}
    for name, t in others.items():
        ctx.count()
        try:
            mono = bool(t.is_monotonic())
        except Exception:
            mono = False
        h_ = float(getattr(t, "height", 1.0))
        if not mono:
            try:
                r = t.tsukamoto(0.5 * h_)
                ctx.violation(f"{name.split('(')[0].split('/')[0]}.tsukamoto/refusal", {"k": name}, "an exception (the term does not declare itself monotonic)", repr(r))
            except Exception:
                pass
            continue
        for f in (0.125, 0.25, 0.5, 0.75, 0.875):
            y = f * h_
            try:
                z = float(np.asarray(t.tsukamoto(y), dtype=float))
                m = float(np.asarray(t.membership(z), dtype=float))
            except Exception as ex:
                ctx.violation(f"{name.split('(')[0]}.tsukamoto/declared-monotonic/raises", {"k": name, "y": y}, "a finite z with membership(z) = y", f"{type(ex).__name__}: {ex}")
                break
            if not math.isfinite(z) or abs(m - y) > 1e-9:
                ctx.violation(f"{name.split('(')[0]}.tsukamoto/declared-monotonic/inverse", {"k": name, "y": y}, y, [z, m], note=f"{name} declares itself monotonic: z({y}) = {z}, membership(z) = {m}")
                break
    ctx.exhaustive = True
    ctx.rule = ("TLC enumerates 6 monotonic kinds x all parameter pairs of the two palettes (both directions) x 3 heights x 13 fractions of the height; "
                "the driver adds y next to 0, h/2 (both neighbours) and h; distinct = (term, y) pairs, all non-trivial (0 < y < h)")
    ctx.assumptions += ["'next to 0' means 1e-12*h and 2^-40*h (denormal y overflow h/y and are not representable inputs of the documented formulas)",
                        "membership(tsukamoto(y)) is compared with y to 1e-9 (Arc: on squares, the arc has a vertical tangent at its start)"]


def replay(v) -> int:
    fl = core.import_fuzzylite()
    c = v["case"]
    if "y" not in c:
        print("aggregate case: re-run ./check C11")
        return 2
    p = [to_float(q) for q in c["p"]]
    h = to_float(c["h"])
    t = build(fl, c["k"], p, h)
    z = float(t.tsukamoto(c["y"]))
    m = float(t.membership(z))
    print(f"{c['k']}{tuple(p)} h={h}: tsukamoto({c['y']!r}) = {z!r}; membership(z) = {m!r}")
    if not math.isfinite(z) or abs(m - c["y"]) > 1e-6:
        print("VIOLATION property=C11 replay=(given)")
        return 1
    return 0
