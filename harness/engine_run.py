"""Evaluate EDL cases with spec/Gen_Engine.tla (TLC) and hand the expected observations to a driver.
Cases are sharded over several single-worker TLC processes (PrintT from several workers interleaves)."""
from __future__ import annotations

import json
from concurrent.futures import ThreadPoolExecutor

from .tlc import MachineryError

INVS = ["DegreesStored", "TriggeredPositive", "NoDisabledContribution", "RangeLocked", "IntegralInRange"]


def evaluate(ctx, cases, label="cases", shards=12, timeout=3000):
    """cases: list of {"engine": EDL, "rows": [[X..]..]} -> dict (case index, k) -> obs (k = 1..len(rows))"""
    if not cases:
        return {}
    shards = max(1, min(shards, len(cases)))
    # balance by number of rows
    order = sorted(range(len(cases)), key=lambda i: -len(cases[i]["rows"]))
    buckets = [[] for _ in range(shards)]
    loads = [0] * shards
    for i in order:
        j = loads.index(min(loads))
        buckets[j].append(i)
        loads[j] += len(cases[i]["rows"]) * (1 + sum(len(b["rules"]) for b in cases[i]["engine"]["blocks"]))
    for i, c in enumerate(cases):
        c["id"] = i

    def one(j):
        return ctx.tlc_cases("Gen_Engine", None, [cases[i] for i in buckets[j]], label=f"{label}{j}", workers=1, timeout=timeout,
                             tag=f"{ctx.pid}-{label}{j}", heap="3g")

    with ThreadPoolExecutor(max_workers=shards) as ex:
        runs = list(ex.map(one, range(shards)))
    res = {}
    for j, rs in enumerate(runs):
        for r in rs:
            if r.violated:
                raise MachineryError(f"Gen_Engine: model invariant {r.violated} violated on shard {j} ({label})\n{r.trace[:2500]}")
            for rec in r.emitted:
                res[(rec["cid"], rec["k"])] = rec["obs"]
    return res
