"""Evaluate EDL cases with spec/Gen_Engine.tla (TLC) and hand the expected observations to a driver.
Cases are sharded over several single-worker TLC processes (PrintT from several workers interleaves)."""
from __future__ import annotations

import json
from concurrent.futures import ThreadPoolExecutor

from .tlc import MachineryError

INVS = ["DegreesStored", "TriggeredPositive", "NoDisabledContribution", "RangeLocked", "IntegralInRange"]


def evaluate(ctx, cases, label="cases", shards=12, timeout=3000):
    """cases: list of {"engine": EDL, "rows": [[X..]..]} -> dict (case index, k) -> obs (k = 1..len(rows))"""
    if not cases:
        return {}
    for i, c in enumerate(cases):
        c["id"] = i
    runs = ctx.tlc_cases("Gen_Engine", None, cases, label=label, workers=16, timeout=timeout, tag=f"{ctx.pid}-{label}", heap="8g")
    res = {}
    for r in runs:
        if r.violated:
            raise MachineryError(f"Gen_Engine: model invariant {r.violated} violated ({label})\n{r.trace[:2500]}")
        for rec in r.emitted:
            res[(rec["cid"], rec["k"])] = rec["obs"]
    return res
