"""C05  Hedges compute their formulas and keep degrees in [0,1].

1. TLC: spec/MC_Hedges - the 6 hedges on the grid k/32 (thorough k/128): range, fixed points, monotone
   (not antitone), very <= id <= somewhat, inverse pairs, involution, NaN rule.
2. Replay of the table into Hedge.hedge (float, numpy scalar, 1-D and 2-D arrays): exact for the
   rational hedges, kernel tolerance for the sqrt hedges (the sqrt is evaluated by harness/kexpr.py on
   TLC's exact argument).
3. Random doubles and the branch point 0.5 with both neighbours: formulas evaluated exactly on
   Fraction(double) (mirror cross-checked against TLC on the grid), relations on the code's outputs.
"""
from __future__ import annotations

import math
import random
from fractions import Fraction

import numpy as np

from . import core, forms, kexpr, pyref
from .tlc import MachineryError, write_cfg
from .xreal import to_float, to_fraction

NAMES = ["any", "extremely", "not", "seldom", "somewhat", "very"]
INVS = "RangeOK FixedPoints MonotoneQ VeryBelowId SomewhatAboveId Inverses NotInvolutive NaNRule".split()
TOL = 1e-12


def feq(a, b):
    return (math.isnan(a) and math.isnan(b)) or a == b


def run(ctx: core.Ctx):
    fl = core.import_fuzzylite()
    G = 32 if ctx.quick else 128
    cfg = write_cfg("MC_Hedges", f"SPECIFICATION Spec\nCONSTANTS G = {G}\n  Emit = TRUE\n" + "".join(f"INVARIANT {i}\n" for i in INVS) + "INVARIANT EmitInv\nCHECK_DEADLOCK FALSE\n")
    g = ctx.tlc("MC_Hedges", cfg, workers=8)
    ctx.expect_holds(g, "MC_Hedges")
    if len(g.emitted) != 6 * (G + 1):
        raise MachineryError(f"expected {6 * (G + 1)} rows, got {len(g.emitted)}")
    hs = {n: fl.settings.factory_manager.hedge.construct(n) for n in NAMES}
    table = {}
    for row in g.emitted:
        h, x = row["h"], to_float(row["x"])
        exact = kexpr.is_exact(row["e"])
        v = kexpr.value(row["e"])
        table.setdefault(h, []).append((x, v, exact))
        m, _ = pyref.hedge(h, to_fraction(row["x"]))
        if (exact and Fraction(m) != to_fraction(row["e"][1])) or (not exact and abs(float(m) - v) > 1e-15):
            raise MachineryError(f"pyref.hedge disagrees with the specification at {h} {row['x']}")
        for form, got in (("float", float(hs[h].hedge(x))), ("numpy-scalar", float(hs[h].hedge(np.float64(x))))):
            ctx.count()
            ok = feq(got, v) if exact else abs(got - v) <= TOL
            if not ok:
                ctx.violation(f"{h}.hedge/formula/{form}", {"hedge": h, "x": row["x"]}, v, got, note=f"{h}({x})")
        ctx.case((h, x), nontrivial=0 < x < 1)
    ctx.traces += len(g.emitted)
    ctx.sample(g.emitted[40])
    for h, rows in table.items():
        X = np.array([r[0] for r in rows])
        V = np.array([r[1] for r in rows])
        for form, arg in (("array", X), ("2d-array", X.reshape(3, -1) if len(X) % 3 == 0 else X.reshape(1, -1))):
            keep = arg.copy()
            got = np.asarray(hs[h].hedge(arg), dtype=float)
            if not np.array_equal(arg, keep):
                ctx.violation(f"{h}.hedge/argument-mutated", {"hedge": h}, "unchanged", "modified", note="the caller's array was modified in place")
            ctx.count()
            if got.shape != arg.shape or not np.allclose(got.ravel(), V, rtol=0, atol=TOL, equal_nan=True):
                ctx.violation(f"{h}.hedge/formula/{form}", {"hedge": h}, "table", "differs", note="array call differs from elementwise values")
            # a second call of the same shape on the same object (reversed argument): results must be independent arrays
            first = got.copy()
            again = np.asarray(hs[h].hedge(arg.ravel()[::-1].reshape(arg.shape).copy()), dtype=float)
            ctx.count()
            if not np.array_equal(got, first, equal_nan=True):
                ctx.violation(f"{h}.hedge/result-aliased", {"hedge": h}, "unchanged by a later call", "modified", note="an earlier result array was overwritten by a later call of the same shape")
            elif again.shape != arg.shape or not np.allclose(again.ravel(), V[::-1], rtol=0, atol=TOL, equal_nan=True):
                ctx.violation(f"{h}.hedge/formula/second-{form}-call", {"hedge": h}, "table (reversed)", "differs")
            if form == "array":
                forms.check(ctx, f"{h}.hedge", {"hedge": h}, hs[h].hedge, X, V, atol=TOL, exact32=True)
                forms.check_int(ctx, f"{h}.hedge", {"hedge": h}, hs[h].hedge, np.array([0.0, 1.0]), atol=TOL)
            # batches of length one keep their shape: (1,) and (1, 1)
            for one in (np.array([X[len(X) // 2]]), np.array([[X[len(X) // 3]]])):
                r1 = np.asarray(hs[h].hedge(one))
                ctx.count()
                if r1.shape != one.shape or not np.allclose(r1.ravel(), [float(hs[h].hedge(float(one.ravel()[0])))], rtol=0, atol=TOL, equal_nan=True):
                    ctx.violation(f"{h}.hedge/single-element-array", {"hedge": h, "shape": list(one.shape)}, list(one.shape), list(r1.shape),
                                  note="an array holding one degree must give an array of the same shape holding the value of that degree")
            # the caller's own array, updated in place between two calls (degrees[:] = ...), as a rule block reprocessing new inputs does
            buf = arg.copy()
            hs[h].hedge(buf)
            buf[...] = arg.ravel()[::-1].reshape(arg.shape)
            third = np.asarray(hs[h].hedge(buf), dtype=float)
            ctx.count()
            if third.shape != arg.shape or not np.allclose(third.ravel(), V[::-1], rtol=0, atol=TOL, equal_nan=True):
                ctx.violation(f"{h}.hedge/formula/same-array-updated-in-place", {"hedge": h}, "table (reversed)", "differs",
                              note="the same array object, updated in place between two calls, gives the result of its earlier contents")
        got = float(hs[h].hedge(math.nan))
        if h != "any" and not math.isnan(got):
            ctx.violation(f"{h}.hedge/nan", {"hedge": h, "x": "nan"}, "nan", got)
    # random doubles and the branch point
    rng = random.Random(ctx.seed)
    n = 3000 if ctx.quick else 30000
    pts = [0.5, math.nextafter(0.5, 0), math.nextafter(0.5, 1), 0.0, -0.0, 1.0, math.nextafter(0, 1), 1e-300, 2.0 ** -53, 1e-160, math.nextafter(1, 0), 0.25, 0.75]
    worst = 0.0
    for i in range(n):
        x = pts[i] if i < len(pts) else rng.random()
        y = rng.random()
        vals = {}
        for h in NAMES:
            got = float(hs[h].hedge(x))
            vals[h] = got
            ref, _ = pyref.hedge(h, Fraction(x))
            ctx.count()
            dev = abs(got - float(ref))
            worst = max(worst, dev)
            if math.isnan(got) or dev > TOL:
                ctx.violation(f"{h}.hedge/formula/random-double", {"hedge": h, "x": x}, float(ref), got)
            if not (-TOL <= got <= 1 + TOL):
                ctx.violation(f"{h}.hedge/range", {"hedge": h, "x": x}, "[0,1]", got)
            gy = float(hs[h].hedge(y))
            lo, hi = (got, gy) if x <= y else (gy, got)
            if h == "not":
                lo, hi = hi, lo
            if lo > hi + TOL:
                ctx.violation(f"{h}.hedge/monotone", {"hedge": h, "x": x, "y": y}, "monotone", [got, gy])
        if not (vals["very"] <= x + TOL and x <= vals["somewhat"] + TOL):
            ctx.violation("very<=id<=somewhat", {"x": x}, "very(x) <= x <= somewhat(x)", [vals["very"], vals["somewhat"]])
        inv = {"very(somewhat)": float(hs["very"].hedge(hs["somewhat"].hedge(x))), "somewhat(very)": float(hs["somewhat"].hedge(hs["very"].hedge(x))),
               "extremely(seldom)": float(hs["extremely"].hedge(hs["seldom"].hedge(x))), "seldom(extremely)": float(hs["seldom"].hedge(hs["extremely"].hedge(x))),
               "not(not)": float(hs["not"].hedge(hs["not"].hedge(x)))}
        for k, w in inv.items():
            if abs(w - x) > 1e-9:
                ctx.violation(f"inverse/{k}", {"x": x}, x, w)
    ctx.extra["max_deviation_random_doubles"] = worst
    ctx.exhaustive = True
    ctx.rule = (f"TLC enumerates 6 hedges x grid k/{G}; every point replayed as float / numpy scalar / 1-D / 2-D array (exact for rational hedges); "
                f"non-trivial = x strictly inside (0,1); plus {n} doubles (0.5 and both neighbours, end points, seeded random) against the exactly "
                "evaluated formulas and the relations between hedges")
    ctx.assumptions += ["sqrt evaluated by libm on TLC's exact argument (tolerance 1e-12)"]


def replay(v) -> int:
    fl = core.import_fuzzylite()
    c = v["case"]
    if "hedge" not in c:
        print("relation case: re-run ./check C05")
        return 2
    h = fl.settings.factory_manager.hedge.construct(c["hedge"])
    x = to_float(c["x"]) if isinstance(c["x"], list) else float(c["x"])
    got = float(h.hedge(x))
    ref = float(pyref.hedge(c["hedge"], Fraction(x))[0]) if not math.isnan(x) else math.nan
    print(f"{c['hedge']}({x!r}) = {got!r}; documented formula gives {ref!r}")
    if not (feq(got, ref) or abs(got - ref) <= TOL):
        print("VIOLATION property=C05 replay=(given)")
        return 1
    return 0
