"""C04  T-norms and S-norms compute their formulas and obey the norm laws.

1. TLC: spec/MC_Norms - all 16 norms on all pairs of the dyadic grid k/16 (thorough k/32), the laws
   quantified over a third grid point (commutative, monotone, associative, identity, annihilator,
   T<=min, S>=max, duality), as invariants of every state.
2. Replay: TLC's exact value of every (operator, a, b) is compared bit for bit with Norm.compute on
   Python floats, numpy scalars and one array call (all operands and the single division are exact /
   correctly rounded on the grid).
3. Random doubles: Norm.compute against the formulas evaluated exactly on Fraction(double) (mirror
   cross-checked against TLC at every grid point), and the laws on the code's own outputs.
"""
from __future__ import annotations

import math
import random
from fractions import Fraction

import numpy as np

from . import core, forms, pyref
from .tlc import MachineryError, write_cfg
from .xreal import to_float, to_fraction, ulps

TN = ["AlgebraicProduct", "BoundedDifference", "DrasticProduct", "EinsteinProduct", "HamacherProduct", "Minimum", "NilpotentMinimum"]
SN = ["AlgebraicSum", "BoundedSum", "DrasticSum", "EinsteinSum", "HamacherSum", "Maximum", "NilpotentMaximum", "NormalizedSum", "UnboundedSum"]
DUAL = dict(zip(TN, ["AlgebraicSum", "BoundedSum", "DrasticSum", "EinsteinSum", "HamacherSum", "Maximum", "NilpotentMaximum"]))
TOL = 1e-12  # laws on off-grid doubles hold up to rounding of ill-conditioned formulas (HamacherSum near (1,1)); exact on the grid
INVS = "RangeOK Commutative Monotone Associative Identity Annihilator Bound Duality NaNRules".split()


def feq(a, b):
    return (math.isnan(a) and math.isnan(b)) or a == b


def run(ctx: core.Ctx):
    fl = core.import_fuzzylite()
    G = 16 if ctx.quick else 32
    cfg = write_cfg("MC_Norms", f"SPECIFICATION Spec\nCONSTANTS G = {G}\n  Emit = TRUE\n" + "".join(f"INVARIANT {i}\n" for i in INVS) + "INVARIANT EmitInv\nCHECK_DEADLOCK FALSE\n")
    g = ctx.tlc("MC_Norms", cfg, workers=16)
    ctx.expect_holds(g, "MC_Norms")
    if len(g.emitted) != 16 * (G + 1) ** 2:
        raise MachineryError(f"expected {16 * (G + 1) ** 2} table rows, got {len(g.emitted)}")
    objs = {n: getattr(fl, n)() for n in TN + SN}
    by_op = {}
    nan_div = 0
    for row in g.emitted:
        op, a, b, v = row["op"], to_float(row["a"]), to_float(row["b"]), to_float(row["v"])
        by_op.setdefault(op, []).append((a, b, v))
        # mirror cross-check (exact)
        mv, _ = pyref.norm(op, to_fraction(row["a"]), to_fraction(row["b"]))
        if mv != to_fraction(row["v"]):
            raise MachineryError(f"pyref.norm disagrees with the specification at {op} {row['a']} {row['b']}")
        o = objs[op]
        got_f = float(o.compute(a, b))
        got_s = float(o.compute(np.float64(a), np.float64(b)))
        ctx.count(2)
        for form, got in (("float", got_f), ("numpy-scalar", got_s)):
            if not feq(got, v):
                ctx.violation(f"{op}.compute/formula/{form}", {"op": op, "a": row["a"], "b": row["b"]}, v, got, note=f"{op}({a},{b})")
        ctx.case((op, a, b), nontrivial=(0 < a < 1 and 0 < b < 1))
        vn = float(o.compute(math.nan, b))
        if not feq(vn, to_float(row["vn"])):
            nan_div += 1
    for op, rows in by_op.items():
        A = np.array([r[0] for r in rows])
        B = np.array([r[1] for r in rows])
        V = np.array([r[2] for r in rows])
        A0, B0 = A.copy(), B.copy()
        got = np.asarray(objs[op].compute(A, B), dtype=float)
        if not (np.array_equal(A, A0) and np.array_equal(B, B0)):
            ctx.violation(f"{op}.compute/argument-mutated", {"op": op}, "unchanged", "modified", note="the caller's arrays were modified in place")
        ctx.count(1)
        if got.shape != V.shape or not np.array_equal(got, V, equal_nan=True):
            i = int(np.flatnonzero(~((got == V) | (np.isnan(got) & np.isnan(V))))[0]) if got.shape == V.shape else -1
            ctx.violation(f"{op}.compute/formula/array", {"op": op, "a": float(A[i]), "b": float(B[i])}, float(V[i]), float(got[i]) if i >= 0 else str(got.shape), note="array call differs from elementwise value")
        # a second call of the same shape on the same object (reversed operands): neither result may depend on, or alias, the other
        first = got.copy()
        again = np.asarray(objs[op].compute(A[::-1].copy(), B[::-1].copy()), dtype=float)
        ctx.count(1)
        if not np.array_equal(got, first, equal_nan=True):
            ctx.violation(f"{op}.compute/result-aliased", {"op": op}, "the first result is unchanged by a later call", "modified", note="an earlier result array was overwritten by a later call of the same shape")
        elif again.shape != V.shape or not np.array_equal(again, V[::-1], equal_nan=True):
            ctx.violation(f"{op}.compute/formula/second-array-call", {"op": op}, "table (reversed)", "differs", note="a second array call of the same shape on the same object differs from the elementwise values")
        # the result belongs to the caller: overwriting it must not change what a later call returns
        mine = objs[op].compute(A.copy(), B.copy())
        if isinstance(mine, np.ndarray) and mine.flags.writeable:
            mine[...] = -7.0
            ctx.count(1)
            later = np.asarray(objs[op].compute(A.copy(), B.copy()), dtype=float)
            if later.shape != V.shape or not np.array_equal(later, V, equal_nan=True):
                ctx.violation(f"{op}.compute/result-shared-between-calls", {"op": op}, "table", "differs", note="after the caller overwrote the array returned by one call, the next call returns other values")
        # other forms of the same operands: read-only, views with strides, a column, 3-D, transposed / Fortran order, float32
        for (label, fa, back, shape), (_, fb, _, _) in zip(forms.variants(A, True), forms.variants(B, True)):
            ctx.count(1)
            try:
                r = np.asarray(objs[op].compute(fa, fb), dtype=float)
            except Exception as ex:
                ctx.violation(f"{op}.compute/argument-form/{label}/raises-{type(ex).__name__}", {"op": op, "form": label}, "elementwise values", f"{type(ex).__name__}: {ex}")
                continue
            n2_ = shape[0] * shape[1] if label == "matrix-subclass-square" else len(V)
            if r.shape != shape or not np.array_equal(back(r)[:n2_], V[:n2_], equal_nan=True):
                ctx.violation(f"{op}.compute/argument-form/{label}/values", {"op": op, "form": label}, "table", "differs",
                              note=f"{label} operands give other values than the same values in plain vectors")
        # the same operands repeated into vectors of more than 4096 elements
        kk = -(-forms.LONG // len(A))
        ctx.count(1)
        try:
            rl = np.asarray(objs[op].compute(np.tile(A, kk), np.tile(B, kk)), dtype=float)
            if rl.shape != (kk * len(A),) or not np.array_equal(rl, np.tile(V, kk), equal_nan=True):
                j = int(np.flatnonzero(~((rl == np.tile(V, kk)) | (np.isnan(rl) & np.isnan(np.tile(V, kk)))))[0]) if rl.shape == (kk * len(A),) else 0
                ctx.violation(f"{op}.compute/argument-form/long-vector/values", {"op": op, "a": float(np.tile(A, kk)[j]), "b": float(np.tile(B, kk)[j]), "index": j, "length": kk * len(A)}, float(np.tile(V, kk)[j]),
                              float(rl[j]) if rl.size > j else str(rl.shape), note=f"in vectors of {kk * len(A)} elements the value at index {j} differs from the value of that pair alone")
        except Exception as ex:
            ctx.violation(f"{op}.compute/argument-form/long-vector/raises-{type(ex).__name__}", {"op": op}, "elementwise values", f"{type(ex).__name__}: {ex}")
        # Python ints are acceptable floats
        for ia, ib in ((0, 0), (0, 1), (1, 0), (1, 1)):
            ctx.count(1)
            ri, rf = float(np.asarray(objs[op].compute(ia, ib), dtype=float)), float(np.asarray(objs[op].compute(float(ia), float(ib)), dtype=float))
            ra = np.asarray(objs[op].compute(np.array([ia, ib]), np.array([ib, ia])), dtype=float)
            rfa = np.asarray(objs[op].compute(np.array([float(ia), float(ib)]), np.array([float(ib), float(ia)])), dtype=float)
            if ri != rf or not np.array_equal(ra, rfa, equal_nan=True):
                ctx.violation(f"{op}.compute/argument-form/python-int/values", {"op": op, "a": ia, "b": ib}, rf, ri, note="integer operands give another value than the same numbers as floats")
        # batches of length one keep their shape
        for sh in ((1,), (1, 1)):
            a1, b1 = np.full(sh, A[len(A) // 2]), np.full(sh, B[len(B) // 3])
            r1 = np.asarray(objs[op].compute(a1, b1))
            ctx.count(1)
            if r1.shape != sh or not np.array_equal(r1.ravel(), [float(objs[op].compute(float(a1.ravel()[0]), float(b1.ravel()[0])))], equal_nan=True):
                ctx.violation(f"{op}.compute/single-element-array", {"op": op, "shape": list(sh)}, list(sh), list(r1.shape))
        # the caller's own arrays, updated in place between two calls
        bufA, bufB = A.copy(), B.copy()
        objs[op].compute(bufA, bufB)
        bufA[...] = A[::-1]
        bufB[...] = B[::-1]
        third = np.asarray(objs[op].compute(bufA, bufB), dtype=float)
        ctx.count(1)
        if third.shape != V.shape or not np.array_equal(third, V[::-1], equal_nan=True):
            ctx.violation(f"{op}.compute/formula/same-arrays-updated-in-place", {"op": op}, "table (reversed)", "differs",
                          note="the same array objects, updated in place between two calls, give the result of their earlier contents")
        # nested array calls, as a three-operand conjunction / disjunction on batched inputs evaluates them: op(op(A, B), C)
        Cc = A[::-1].copy()
        nested = np.asarray(objs[op].compute(objs[op].compute(A, B), Cc), dtype=float)
        each = np.array([float(objs[op].compute(float(objs[op].compute(float(x), float(y))), float(z))) for x, y, z in zip(A, B, Cc)])
        ctx.count(1)
        if nested.shape != each.shape or not np.allclose(nested, each, rtol=0, atol=1e-15, equal_nan=True):
            ctx.violation(f"{op}.compute/nested-array-call", {"op": op}, "elementwise values of op(op(a,b),c)", "differs", note="op(op(A,B),C) on arrays differs from the element-by-element evaluation")
        # 2-D broadcast: column against row
        n = G + 1
        col = np.array(sorted(set(A)))[:, None]
        rowv = np.array(sorted(set(B)))[None, :]
        got2 = np.asarray(objs[op].compute(col, rowv), dtype=float)
        exp2 = {(r[0], r[1]): r[2] for r in rows}
        ok2 = got2.shape == (n, n) and all(feq(got2[i, j], exp2[(col[i, 0], rowv[0, j])]) for i in range(n) for j in range(n))
        if not ok2:
            ctx.violation(f"{op}.compute/formula/broadcast", {"op": op}, "table", "differs", note="column x row broadcast differs from the table")
        # one operand a scalar (Python float, numpy scalar, 0-d array), the other a vector - in both orders
        vec = np.array(sorted(set(B)))
        for sv in sorted(set(A)):
            for label, sc in (("float", float(sv)), ("numpy-scalar", np.float64(sv)), ("0-d", np.array(float(sv)))):
                for order in ("scalar-array", "array-scalar"):
                    ctx.count(1)
                    try:
                        r = np.asarray(objs[op].compute(sc, vec) if order == "scalar-array" else objs[op].compute(vec, sc), dtype=float)
                    except Exception as ex:
                        ctx.violation(f"{op}.compute/mixed/{order}/{label}/raises-{type(ex).__name__}", {"op": op, "scalar": float(sv)}, "elementwise values", f"{type(ex).__name__}: {ex}")
                        continue
                    want = np.array([exp2[(float(sv), float(y))] if order == "scalar-array" else exp2[(float(y), float(sv))] for y in vec])
                    if r.shape != want.shape or not np.array_equal(r, want, equal_nan=True):
                        j = int(np.flatnonzero(~((r == want) | (np.isnan(r) & np.isnan(want))))[0]) if r.shape == want.shape else 0
                        ctx.violation(f"{op}.compute/mixed/{order}/{label}", {"op": op, "a": float(sv), "b": float(vec[j])}, float(want[j]), float(r.ravel()[j]) if r.size > j else str(r.shape),
                                      note=f"{op}: a {label} scalar {float(sv)} against the vector of grid values differs from the elementwise value at {float(vec[j])}")
    ctx.traces += len(g.emitted)
    ctx.sample({"op": g.emitted[100]["op"], "a": g.emitted[100]["a"], "b": g.emitted[100]["b"], "v": g.emitted[100]["v"]})
    ctx.extra["nan_operand_model_divergence"] = nan_div
    # random doubles
    rng = random.Random(ctx.seed)
    n = 2000 if ctx.quick else 20000
    worst = 0.0
    specials = [0.0, 1.0, 0.5, math.nextafter(0.5, 0), math.nextafter(0.5, 1), math.nextafter(1.0, 0), math.nextafter(0.0, 1), 5e-324, 1e-300]
    edge = [0.0, -0.0, 5e-324, 1e-300, 1e-17, 2.0 ** -53, 1e-9, 2.0 ** -10, 0.25, math.nextafter(0.5, 0), 0.5, math.nextafter(0.5, 1), 0.75,
            1 - 2.0 ** -10, 1 - 2.0 ** -30, 1 - 2.0 ** -52, math.nextafter(1.0, 0), 1.0]
    pairs = [(a, b) for a in edge for b in edge]
    for op in TN + SN:
        o = objs[op]
        for i in range(n + len(pairs)):
            if i >= n:
                a, b = pairs[i - n]   # every pair of the edge palette: next to 0, 1/2 and 1, tiny and denormal values
            elif i % 10 == 0:
                a, b = rng.choice(specials), rng.choice(specials + [rng.random()])
            elif i % 10 == 1:
                a = rng.random()
                b = 1.0 - a  # on the Nilpotent / Bounded boundary (up to rounding)
            else:
                a, b = rng.random(), rng.random()
            ctx.count()
            ref, margin = pyref.norm(op, Fraction(a), Fraction(b))
            got = float(o.compute(a, b))
            sample = {"op": op, "a": a, "b": b}
            near_branch = margin == 0.0  # the computed a+b / a*b falls on the other side of the branch boundary than the exact one
            dev = abs(got - float(ref))
            if not near_branch:
                worst = max(worst, dev)
            if not near_branch and (math.isnan(got) or dev > 1e-9):  # DESIGN.md section 5: 1e-9 off the grid (exact on it)
                ctx.violation(f"{op}.compute/formula/random-double", sample, float(ref), got, note="differs from the documented formula evaluated exactly")
                continue
            # laws on the code's own outputs
            c = rng.random()
            if float(o.compute(b, a)) != got:
                ctx.violation(f"{op}.compute/commutative", sample, got, float(o.compute(b, a)))
            if op != "UnboundedSum" and not (-TOL <= got <= 1.0 + TOL):
                ctx.violation(f"{op}.compute/range", sample, "[0,1]", got)
            hi = max(b, c)
            lo = min(b, c)
            if float(o.compute(a, lo)) > float(o.compute(a, hi)) + TOL:
                ctx.violation(f"{op}.compute/monotone", {"op": op, "a": a, "b": lo, "c": hi}, "T(a,b)<=T(a,c)", [float(o.compute(a, lo)), float(o.compute(a, hi))])
            if op in TN and got > min(a, b) + TOL:
                ctx.violation(f"{op}.compute/le-min", sample, f"<= {min(a, b)}", got)
            if op in SN and op != "UnboundedSum" and got < max(a, b) - TOL:
                ctx.violation(f"{op}.compute/ge-max", sample, f">= {max(a, b)}", got)
            if op in TN:
                s = float(objs[DUAL[op]].compute(a, b))
                d = 1.0 - float(o.compute(1.0 - a, 1.0 - b))
                m2 = pyref.norm(DUAL[op], Fraction(a), Fraction(b))[1]
                # 1-a and 1-b are rounded before the dual is evaluated: compare only away from the branch boundaries
                if abs(s - d) > 1e-9 and m2 > 0 and margin > 0 and min(a, b, 1 - a, 1 - b) > 1e-9 and abs(a + b - 1) > 1e-9:
                    ctx.violation(f"{op}.compute/duality", sample, s, d)
    ctx.extra["max_deviation_random_doubles"] = worst
    ctx.exhaustive = True
    ctx.rule = (f"TLC enumerates all 16 norms x all pairs of the grid k/{G} (laws over all triples); every pair is replayed into Norm.compute as "
                "float, numpy scalar, 1-D array and 2-D broadcast, bit for bit; non-trivial = both operands strictly inside (0,1); plus "
                f"{n} seeded random / boundary doubles per norm against the exactly evaluated formula and the laws")
    ctx.assumptions += ["binary64 arithmetic on the dyadic grid is exact up to one correctly rounded division",
                        "NaN operands are outside the property; their model/code agreement is reported as nan_operand_model_divergence"]


def replay(v) -> int:
    fl = core.import_fuzzylite()
    c = v["case"]
    o = getattr(fl, c["op"])()
    a = to_float(c["a"]) if isinstance(c["a"], list) else c["a"]
    b = to_float(c["b"]) if isinstance(c["b"], list) else c["b"]
    got = float(o.compute(a, b))
    ref = float(pyref.norm(c["op"], Fraction(a), Fraction(b))[0])
    print(f"{c['op']}({a!r},{b!r}) = {got!r}; documented formula gives {ref!r}; recorded expectation {v['expected']!r}")
    if not (feq(got, ref) or abs(got - ref) <= 1e-12):
        print("VIOLATION property=C04 replay=(given)")
        return 1
    for label, r in (("scalar-array", o.compute(a, np.array([b, b]))), ("array-scalar", o.compute(np.array([a, a]), b)), ("0-d", o.compute(np.array(a), np.array([b])))):
        r = np.asarray(r, dtype=float).ravel()
        if not all(feq(float(x), got) for x in r):
            print(f"{c['op']} {label}: {r.tolist()} differs from the scalar value {got!r}")
            print("VIOLATION property=C04 replay=(given)")
            return 1
    print("formula conforms at this point (law violations need the full check)")
    return 0
