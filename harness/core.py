"""Check context: accumulates coverage, decides violations against KNOWN_FINDINGS.txt,
writes replay files and the evidence file.  One Ctx per `./check Cxx` invocation."""
from __future__ import annotations

import hashlib
import json
import os
import shutil
import subprocess
import sys
import time
from pathlib import Path

from . import tlc
from .tlc import MachineryError, VERIF, WORK

REPO = Path(os.environ.get("VERIF_REPO", "/repo")).resolve()
KNOWN = VERIF / "KNOWN_FINDINGS.txt"
MAX_REPLAYS = 12


def import_fuzzylite():
    """Import fuzzylite from the working tree under test (pure Python: importing *is* rebuilding)."""
    sys.dont_write_bytecode = True
    if str(REPO) not in sys.path[:1]:
        sys.path.insert(0, str(REPO))
    for m in [m for m in sys.modules if m == "fuzzylite" or m.startswith("fuzzylite.")]:
        del sys.modules[m]
    import fuzzylite  # noqa

    where = Path(fuzzylite.__file__).resolve()
    if REPO not in where.parents:
        raise MachineryError(f"fuzzylite imported from {where}, not from {REPO}")
    return fuzzylite


def repo_head() -> str:
    try:
        h = subprocess.run(["git", "-C", str(REPO), "rev-parse", "HEAD"], capture_output=True, text=True).stdout.strip()
        d = subprocess.run(["git", "-C", str(REPO), "status", "--porcelain", "-uno"], capture_output=True, text=True).stdout.strip()
        return h + ("+dirty" if d else "")
    except Exception:
        return "unknown"


def load_known(pid: str):
    known, fixed = {}, []
    if KNOWN.exists():
        for line in KNOWN.read_text().splitlines():
            line = line.strip()
            if not line or line.startswith("#"):
                continue
            kind, _, rest = line.partition(":")
            rest = rest.strip()
            if f"property={pid} " not in rest + " ":
                continue
            if kind == "known":
                toks = rest.split()
                key = next((t[4:] for t in toks if t.startswith("key=")), None)
                if key:
                    known[key] = rest
            elif kind == "fixed":
                fixed.append(rest)
    return known, fixed


class Ctx:
    def __init__(self, pid: str, tier: str, seed: int):
        self.pid, self.tier, self.seed = pid, tier, seed
        self.t0 = time.time()
        self.states = 0
        self.transitions = 0
        self.traces = 0
        self.evaluations = 0
        self._distinct: set[bytes] = set()
        self.samples: list = []
        self.cmds: list[str] = []
        self.rule = ""
        self.exhaustive = False
        self.trusted = ["TLC 1.8 (tla2tools, CommunityModules)", "CPython 3.12, numpy (arithmetic, libm kernels)",
                        "harness/*.py conformance drivers"]
        self.assumptions: list[str] = []
        self.extra: dict = {}
        self.violations: list[dict] = []  # not known
        self.known_hits: dict[str, int] = {}
        self.known, self.fixed = load_known(pid)
        self.notes: list[str] = []
        self.work = WORK / f"{pid}-{os.getpid()}"
        if self.work.exists():
            shutil.rmtree(self.work)
        self.work.mkdir(parents=True)
        self.quick = tier == "quick"

    # ---- TLC -----------------------------------------------------------------------------
    def tlc(self, module: str, cfg: str | None = None, **kw) -> tlc.TlcRun:
        kw.setdefault("tag", self.pid)
        r = tlc.run(module, cfg, **kw)
        self.states += r.distinct
        self.transitions += r.generated
        self.cmds.append(r.cmd)
        return r

    def tlc_cases(self, module: str, cfg, cases: list, label: str = "cases", env_key: str = "VERIF_CASES", **kw):
        """Run a case-file driven TLC instance.  TLC integers are 32 bit; a *sampled* case whose exact arithmetic
        overflows aborts the whole run, so on an overflow the file is bisected, the offending cases are dropped
        (counted in the evidence as cases_dropped_overflow) and the others are still evaluated.
        Returns the list of TlcRun objects of the successful sub-runs."""
        import json as _json

        runs = []
        n = [0]

        def go(sub):
            if not sub:
                return
            n[0] += 1
            p = self.work / f"{label}-{os.getpid()}-{n[0]}.json"
            p.write_text(_json.dumps(sub))
            env = dict(kw.get("env") or {})
            env[env_key] = str(p)
            try:
                runs.append(self.tlc(module, cfg, **dict(kw, env=env)))
            except MachineryError as ex:
                if "Overflow when computing" not in str(ex):
                    raise
                if len(sub) == 1:
                    self.extra["cases_dropped_overflow"] = self.extra.get("cases_dropped_overflow", 0) + 1
                    return
                h = len(sub) // 2
                go(sub[:h])
                go(sub[h:])

        go(cases)
        return runs

    def expect_holds(self, r: tlc.TlcRun, what: str):
        """A design-level invariant violated on the *model* is a machinery failure unless the caller handles it."""
        if r.violated:
            raise MachineryError(f"{what}: model invariant {r.violated} violated\n{r.trace[:3000]}")

    def expect_canary(self, r: tlc.TlcRun, what: str):
        if not r.violated:
            raise MachineryError(f"canary {what} was expected to violate an invariant but TLC found no error (vacuity)")
        self.extra.setdefault("canaries", []).append({"canary": what, "violated": r.violated})

    # ---- counting --------------------------------------------------------------------------
    def count(self, n: int = 1):
        self.evaluations += n

    def case(self, key, nontrivial: bool = True):
        if nontrivial:
            self._distinct.add(hashlib.blake2b(repr(key).encode(), digest_size=8).digest())

    def sample(self, obj, limit: int = 5):
        if len(self.samples) < limit:
            self.samples.append(obj)

    # ---- violations -------------------------------------------------------------------------
    def violation(self, key: str, case, expected=None, observed=None, note: str = "", step=None):
        """key identifies call site / clause / input class; matched exactly against KNOWN_FINDINGS.txt."""
        if key in self.known:
            self.known_hits[key] = self.known_hits.get(key, 0) + 1
            return
        v = {"property": self.pid, "key": key, "seed": self.seed, "tier": self.tier, "case": case,
             "expected": expected, "observed": observed, "first_divergent_step": step, "note": note,
             "repo_head": None}
        self.violations.append(v)

    # ---- end --------------------------------------------------------------------------------
    def finish(self) -> int:
        wall = time.time() - self.t0
        shutil.rmtree(self.work, ignore_errors=True)
        try:
            if WORK.exists() and not any(WORK.iterdir()):
                WORK.rmdir()
        except OSError:
            pass
        rdir = VERIF / "replays" / self.pid
        head = repo_head()
        lines = []
        if self.violations:
            if rdir.exists():
                shutil.rmtree(rdir)
            rdir.mkdir(parents=True)
            seen = {}
            for v in self.violations:
                seen.setdefault(v["key"], []).append(v)
            n = 0
            for key, vs in seen.items():
                if n >= MAX_REPLAYS:
                    break
                v = vs[0]
                v["repo_head"] = head
                v["same_key_count"] = len(vs)
                n += 1
                p = rdir / f"{n}.json"
                p.write_text(json.dumps(v, indent=1, default=str))
                lines.append(f"VIOLATION property={self.pid} replay={p}  # {key} x{len(vs)} {v['note'][:160]}")
        for key, n in self.known_hits.items():
            print(f"KNOWN-FINDING: property={self.pid} key={key} ({n} case{'s' if n != 1 else ''}) {self.known[key]}")
        for l in lines:
            print(l)
        cov = {
            "states": self.states,
            "transitions": self.transitions,
            "traces_validated_against_impl": self.traces,
            "evaluations": self.evaluations,
            "distinct_nontrivial": len(self._distinct),
            "rule": self.rule,
            "samples": self.samples or ["(no sample recorded)"],
            "exhaustive": bool(self.exhaustive),
            "checker_cmd": " ; ".join(self.cmds)[:6000],
            "trusted_base": self.trusted,
            "known_findings_matched": self.known_hits,
            "repo_head": head,
        }
        cov.update(self.extra)
        ev = {
            "property_id": self.pid,
            "tier": self.tier,
            "seed": self.seed,
            "level": "model_checking",
            "coverage": cov,
            "assumptions": self.assumptions,
            "wall_s": round(wall, 2),
            "violations": len(self.violations),
        }
        (VERIF / "evidence").mkdir(exist_ok=True)
        (VERIF / "evidence" / f"{self.pid}.json").write_text(json.dumps(ev, indent=1, default=str) + "\n")
        status = "VIOLATED" if self.violations else "held"
        print(f"[{self.pid}] {status}: tier={self.tier} seed={self.seed} states={self.states} transitions={self.transitions} "
              f"replayed/validated={self.traces} evaluations={self.evaluations} distinct={len(self._distinct)} "
              f"violations={len(self.violations)} known={sum(self.known_hits.values())} wall={wall:.1f}s")
        for n in self.notes:
            print(f"[{self.pid}] note: {n}")
        return 1 if self.violations else 0
