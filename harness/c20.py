"""C20  Temporary settings are always restored.

1. TLC model-checks spec/MC_Settings exhaustively (nesting depth 4, 7 actions, 2 keys x 2 values + initial):
   action properties ExitRestores / EnterVisible; canary RestoreAll must fail.
2. Every behaviour of a smaller instance (and, thorough, random behaviours over all 7 real settings) is
   replayed with real nested `with fl.settings.context(...)` blocks, real exceptions raised inside the
   innermost block and caught at the chosen level, and direct assignments; vars(fl.settings) and the
   helpers that read the settings (Op.str, Op.is_close, scalar, import_statement) are compared with the
   model after every step.
3. settings.enter / settings.exit events recorded from the library (harness drivers; thorough: the
   repository's tests) are validated by spec/Trace_Settings.tla.
"""
from __future__ import annotations

import json
import logging
import os
import random
import subprocess
import sys

import numpy as np

from . import core, tracer
from .tlc import MachineryError, VERIF, write_cfg

REAL = ["float_type", "decimals", "atol", "rtol", "alias", "logger", "factory_manager"]
ATTR = {k: k for k in REAL}
ATTR["factory_manager"] = "_factory_manager"


class _Unwind(Exception):
    def __init__(self, lvl, idx):
        self.lvl, self.idx = lvl, idx


def palette(fl):
    s = fl.settings
    fm0 = vars(s).get("_factory_manager")  # None while the lazy default has not been created: left as it is
    from fuzzylite.factory import FactoryManager

    def alt(cur, cands):
        return [cur] + [c for c in cands if c != cur][:2]

    return {
        "float_type": alt(s.float_type, [np.float32, np.float16, np.float64]),
        "decimals": alt(s.decimals, [5, 7, 3]),
        "atol": alt(s.atol, [1e-1, 1e-6, 1e-3]),
        "rtol": alt(s.rtol, [1e-2, 0.5, 0.0]),
        "alias": alt(s.alias, ["", "*", "fz", "fl"]),
        "logger": [s.logger, logging.getLogger("verif.a"), logging.getLogger("verif.b")],
        "factory_manager": [fm0, FactoryManager(), FactoryManager()],
    }


def index_of(pal, key, v):
    for j, c in enumerate(pal[key]):
        if c is v or (not isinstance(c, (logging.Logger,)) and type(c) is type(v) and not hasattr(c, "tnorm") and c == v):
            return j
    return -1


class Player:
    def __init__(self, fl, pal, beh, keymap):
        self.fl, self.pal, self.beh, self.keymap = fl, pal, beh, keymap
        self.steps = beh["steps"]
        self.i = 0
        self.bad = None
        self.closed = 0
        self.exit_idx = None

    def observe(self):
        s = self.fl.settings
        return {k: index_of(self.pal, k, getattr(s, ATTR[k])) for k in REAL}

    def expected_full(self, model):
        e = {k: 0 for k in REAL}
        for j, k in enumerate(self.keymap):
            e[k] = model[j]
        return e

    def check(self, idx, model=None, what=None):
        if self.bad:
            return
        fl = self.fl
        exp = self.expected_full(model if model is not None else self.beh["expect"][idx])
        obs = self.observe()
        if obs != exp:
            self.bad = (idx, what or self.steps[idx]["act"], exp, obs)
            return
        # helpers observe exactly the current settings
        dec = self.pal["decimals"][exp["decimals"]]
        atol, rtol = self.pal["atol"][exp["atol"]], self.pal["rtol"][exp["rtol"]]
        ft = self.pal["float_type"][exp["float_type"]]
        alias = self.pal["alias"][exp["alias"]]
        want = {"str": f"{1 / 3:.{dec}f}", "close": [bool(np.isclose(1.0, 1.0 + d, atol=atol, rtol=rtol)) for d in (5e-7, 5e-4, 5e-3, 5e-2, 0.3)],
                "dtype": np.dtype(ft).name,
                "import": "import fuzzylite" if not alias else "from fuzzylite import *" if alias == "*" else f"import fuzzylite as {alias}"}
        got = {"str": fl.Op.str(1 / 3), "close": [bool(fl.Op.is_close(1.0, 1.0 + d)) for d in (5e-7, 5e-4, 5e-3, 5e-2, 0.3)],
               "dtype": fl.scalar(1).dtype.name, "import": fl.library.representation.import_statement()}
        if want != got:
            self.bad = (idx, "helpers", want, got)

    def level(self, depth):
        fl = self.fl
        while self.i < len(self.steps) and not self.bad:
            st = self.steps[self.i]
            a = st["act"]
            if a == "Create":
                kw = {self.keymap[j]: self.pal[self.keymap[j]][st["vals"][j]] for j in range(len(self.keymap)) if st["named"][j]}
                self.pending = fl.settings.context(**kw)       # created now, entered by a later step
                self.check(self.i)
                self.i += 1
            elif a in ("Enter", "EnterCreated"):
                idx = self.i
                self.i += 1
                kw = {self.keymap[j]: self.pal[self.keymap[j]][st["vals"][j]] for j in range(len(self.keymap)) if st["named"][j]}
                r = None
                try:
                    with (self.pending if a == "EnterCreated" else fl.settings.context(**kw)):
                        self.check(idx)
                        r = self.level(depth + 1)
                    if r == "exit":
                        self.check(self.exit_idx)
                    elif not self.bad:
                        self.check(len(self.steps) - 1, model=self.beh["closing"][self.closed], what="closing exit")
                        self.closed += 1
                except _Unwind as u:
                    if u.lvl != depth:
                        raise
                    self.check(u.idx)
                    continue
                if r != "exit":
                    return "end"
            elif a == "Exit":
                if depth == 0:
                    raise MachineryError("Exit at depth 0 in generated behaviour")
                self.exit_idx = self.i
                self.i += 1
                return "exit"
            elif a == "Raise":
                idx = self.i
                self.i += 1
                raise _Unwind(st["lvl"], idx)
            elif a == "Assign":
                j = st["named"].index(True)
                k = self.keymap[j]
                setattr(fl.settings, k, self.pal[k][st["vals"][j]])
                self.check(self.i)
                self.i += 1
            else:
                raise MachineryError(f"unknown action {a}")
        return "end"

    def play(self):
        try:
            self.level(0)
        except _Unwind as u:
            raise MachineryError(f"unwind to level {u.lvl} escaped the player") from u
        return self.bad


def restore(fl, pal):
    for k in REAL:
        setattr(fl.settings, ATTR[k], pal[k][0])


def run(ctx: core.Ctx):
    fl = core.import_fuzzylite()
    q = ctx.quick
    base = ("SPECIFICATION Spec\nCONSTANTS Keys <- KeysDef\n  NK = {nk}\n  Vals = {{1, 2}}\n  MaxDepth = {d}\n  MaxSteps = {m}\n"
            "  Emit = {e}\n  RestoreAll = {ra}\n  Deferred = \"{df}\"\n")
    mc_props = "INVARIANT TypeOK\nPROPERTY PropExitRestores\nPROPERTY PropEnterVisible\nVIEW View\nCHECK_DEADLOCK FALSE\n"
    r = ctx.tlc("MC_Settings", write_cfg("MC_Settings", base.format(nk=2, d=4, m=6 if q else 8, e="FALSE", ra="FALSE", df="both") + mc_props), workers=16)
    ctx.expect_holds(r, "MC_Settings")
    ctx.extra["model_check"] = {"keys": 2, "values": 3, "depth": 4, "steps": 6 if q else 8, "distinct": r.distinct}
    ctx.expect_canary(ctx.tlc("MC_Settings", write_cfg("MC_Settings_canary", base.format(nk=2, d=3, m=5, e="FALSE", ra="TRUE", df="no")
                                                       + "PROPERTY PropExitRestores\nVIEW View\nCHECK_DEADLOCK FALSE\n"), workers=4), "RestoreAll")
    # unbounded history: the two action properties hold for one step from ANY well-typed state (Apalache, spec/Apa_Settings.tla)
    from .tlc import SPEC, WORK, apalache
    ok, cmd = apalache(SPEC / "Apa_Settings.tla", inv="StepOK")
    if not ok:
        raise MachineryError("Apa_Settings: the step invariant StepOK is violated on the model")
    ctx.cmds.append(cmd + " spec/Apa_Settings.tla")
    bad = WORK / "apa" / "Apa_Settings.tla"
    bad.parent.mkdir(parents=True, exist_ok=True)
    bad.write_text((SPEC / "Apa_Settings.tla").read_text().replace("RestoreAll == FALSE", "RestoreAll == TRUE"))
    ok2, _ = apalache(bad, inv="StepOK")
    bad.unlink()
    if ok2:
        raise MachineryError("Apa_Settings canary (RestoreAll) was expected to violate StepOK")
    ctx.extra["apalache_step_invariant"] = {"module": "Apa_Settings", "init": "any well-typed state (stack <= 5 frames, 3 keys, 3 values)", "inv": "ExitRestores /\\ EnterVisible", "length": 1,
                                            "holds": True, "canary_RestoreAll_violated": True}
    g = ctx.tlc("MC_Settings", write_cfg("Gen_Settings", base.format(nk=2, d=4, m=4 if q else 5, e="TRUE", ra="FALSE", df="no")
                                         + "INVARIANT EmitInv\nCHECK_DEADLOCK FALSE\n"), workers=16, timeout=3000)
    behs = [(b, 2) for b in g.emitted]
    # context objects created first and entered by a later step (after an assignment, inside another context, ...)
    g2 = ctx.tlc("MC_Settings", write_cfg("Gen_Settings_deferred", base.format(nk=2, d=3 if q else 4, m=4, e="TRUE", ra="FALSE", df="only")
                                          + "INVARIANT EmitInv\nCHECK_DEADLOCK FALSE\n"), workers=16, timeout=3000)
    behs += [(b, 2) for b in g2.emitted if any(s["act"] == "EnterCreated" for s in b["steps"])]
    ctx.extra["behaviours_deferred_entry"] = sum(1 for b, _ in behs if any(s["act"] == "EnterCreated" for s in b["steps"]))
    n_exh = len(behs)
    if not q:
        s = ctx.tlc("MC_Settings", write_cfg("Sim_Settings", base.format(nk=7, d=4, m=10, e="TRUE", ra="FALSE", df="no")
                                             + "INVARIANT EmitInv\nPROPERTY PropExitRestores\nCHECK_DEADLOCK FALSE\n"),
                    workers=1, simulate="num=400", depth=12, seed=ctx.seed % 100000, timeout=3000)
        # (the simulator evaluates the emitting invariant on every successor it generates before it picks one: each trace yields
        # thousands of behaviours that differ in their last step only - a seeded sample of them is replayed)
        sim = s.emitted if len(s.emitted) <= 30000 else random.Random(ctx.seed).sample(s.emitted, 30000)
        ctx.extra["behaviours_simulated_generated"] = len(s.emitted)
        behs += [(b, 7) for b in sim]
        del s
    if not behs:
        raise MachineryError("no behaviours generated")
    pal = palette(fl)
    rng = random.Random(ctx.seed)
    pairs = [(a, b) for a in REAL for b in REAL if a != b]
    tracer.install(fl)
    tracer.reset()
    kept_items = []
    try:
        for bi, (beh, nk) in enumerate(behs):
            keymap = list(pairs[bi % len(pairs)]) if nk == 2 else REAL
            ctx.count()
            try:
                bad = Player(fl, pal, beh, keymap).play()
            finally:
                restore(fl, pal)
            if bad:
                idx, what, exp, obs = bad
                ctx.violation(f"Settings.context/{what}/keys={'+'.join(keymap) if nk == 2 else 'all'}",
                              {"behaviour": beh, "keymap": keymap}, exp, obs, note=f"step {idx} ({what})", step=idx)
            ctx.traces += 1
            ctx.case(("beh", bi), any(s["act"] in ("Exit", "Raise") for s in beh["steps"]))
            if bi % 9000 == 11:
                ctx.sample({"behaviour": beh, "keymap": keymap})
            if bi % 5000 == 4999 and os.environ.get("VERIF_DEBUG_RSS"):
                import resource
                print(f"[C20] behaviour {bi}: max rss {resource.getrusage(resource.RUSAGE_SELF).ru_maxrss // 1000} MB, events {len(tracer.events())}", flush=True)
            if bi % 5000 == 4999:       # the recorded events are cut into traces as we go (every behaviour closes its contexts): memory stays bounded
                chunk = [dict(e) for e in tracer.events() if e["act"].startswith("settings.")]
                kept_items += split_traces(chunk, f"replay{bi}", limit=max(40, (400 if q else 4000) * 5000 // max(len(behs), 1) + 1), rng=rng)
                tracer.reset()
        ctx.extra["behaviours_exhaustive"] = n_exh
        ctx.extra["behaviours_simulated_7_keys"] = len(behs) - n_exh
        # code -> spec: the events the tracer recorded while the behaviours were played (a seeded sample of them)
        evs = [dict(e) for e in tracer.events() if e["act"].startswith("settings.")]
    finally:
        tracer.uninstall()
        restore(fl, pal)
    items = kept_items + split_traces(evs, "replay", limit=400 if q else 4000, rng=rng)
    if len(items) > (400 if q else 4000):
        items = rng.sample(items, 400 if q else 4000)
    check_traces(ctx, items, "drivers")
    demonstrate_binding(ctx, items)
    if not q:
        suite_traces(ctx)
    ctx.exhaustive = True
    ctx.rule = (f"TLC enumerates every behaviour of {4 if q else 5} actions (Enter over all non-empty key subsets and values, Exit, "
                "Raise caught at every level, Assign) at nesting depth <= 4 over 2 model keys mapped onto all 42 ordered pairs of the 7 real "
                "settings; thorough adds 3000 simulated behaviours over all 7 settings; distinct = behaviours, non-trivial = leaves at least one context")
    ctx.assumptions += ["the rollback treats keys independently (two model keys cover all naming patterns); checked additionally by simulation over 7 keys in the thorough tier"]


# ---------------------------------------------------------------------------------- traces
def split_traces(evs, label, limit, rng):
    """cut the global event sequence into traces at points where no context is open"""
    traces, cur, depth = [], [], 0
    for e in evs:
        cur.append(e)
        depth += 1 if e["act"] == "settings.enter" else -1
        if depth == 0:
            traces.append(cur)
            cur = []
    if len(traces) > limit:
        traces = rng.sample(traces, limit)
    return [(abstract(t, f"{label}#{i}"), t) for i, t in enumerate(traces)]


def abstract(evs, tid):
    keys = ["float_type", "decimals", "atol", "rtol", "alias", "logger", "_factory_manager"]
    ids = {k: {} for k in keys}

    def ab(snap):
        out = []
        for k in keys:
            v = repr(snap.get(k))
            d = ids[k]
            out.append(d.setdefault(v, len(d)))
        return out

    tev = []
    for e in evs:
        named = [(k.lstrip("_") in e["named"]) for k in keys]
        if e["act"] == "settings.enter":
            tev.append({"act": "enter", "named": named, "before": ab(e["before"]), "inside": ab(e["inside"]), "last": ab(e["before"]), "after": ab(e["inside"])})
        else:
            tev.append({"act": "exit", "named": named, "before": ab(e["before"]), "inside": ab(e["last"]), "last": ab(e["last"]), "after": ab(e["after"])})
    return {"id": tid, "init": tev[0]["before"], "events": tev}


def check_traces(ctx, items, what):
    if not items:
        return
    path = ctx.work / f"settings-{what}.json"
    path.write_text(json.dumps([t for t, _ in items]))
    r = ctx.tlc("Trace_Settings", workers=8, env={"VERIF_TRACES": str(path)}, timeout=1800)
    by = {t["id"]: (t, ev) for t, ev in items}
    seen = set()
    for rep in r.emitted:
        if rep["tid"] in seen:
            continue
        seen.add(rep["tid"])
        t, ev = by[rep["tid"]]
        ctx.count(len(ev))
        if rep["verdict"] == "ok":
            ctx.traces += 1
        else:
            e = ev[rep["at"] - 1]
            ctx.violation(f"trace/{e['act']}/named={'+'.join(e['named'])}/raised={e.get('raised')}", {"trace": ev, "event_index": rep["at"]},
                          {"settings_expected_by_spec": rep["cur"]}, {"after": e.get("after") or e.get("inside")},
                          note=f"trace {rep['tid']} {rep['verdict']} at event {rep['at']}", step=rep["at"])
    if set(by) - seen:
        raise MachineryError("trace validation gave no verdict for some traces")
    ctx.extra[f"traces_{what}"] = len(items)


def demonstrate_binding(ctx, items):
    cand = next((t for t, ev in items if len(t["events"]) >= 4), None)
    if cand is None:
        return
    bad = json.loads(json.dumps(cand))
    bad["id"] = "corrupt"
    ex = next(e for e in bad["events"] if e["act"] == "exit" and any(e["named"]))
    k = ex["named"].index(True)
    ex["after"][k] = ex["after"][k] + 5  # the named key is *not* restored
    path = ctx.work / "settings-bind.json"
    path.write_text(json.dumps([cand, bad]))
    r = ctx.tlc("Trace_Settings", workers=1, env={"VERIF_TRACES": str(path)})
    v = {rep["tid"]: rep["verdict"] for rep in r.emitted}
    if v.get(cand["id"]) != "ok" or v.get("corrupt") == "ok":
        raise MachineryError(f"binding demonstration failed: {v}")
    ctx.extra["binding_demo"] = {"accepted": cand["id"], "corrupted_field_rejected": v["corrupt"]}


def suite_traces(ctx):
    out = ctx.work / "suite.ndjson"
    env = dict(os.environ)
    env.update({tracer.GUARD: "1", "VERIF_TRACE_OUT": str(out), "PYTHONPATH": f"{core.REPO}:{VERIF}", "PYTHONDONTWRITEBYTECODE": "1"})
    p = subprocess.run([sys.executable, "-m", "pytest", "-q", "-p", "no:cacheprovider", "-p", "harness.tracer", "-q",
                        "--deselect", "tests/test_exporter.py::TestPythonExporter::test_object",
                        "--deselect", "tests/test_benchmark.py::TestBenchmark::test_measure", "tests"],
                       cwd=core.REPO, env=env, capture_output=True, text=True, timeout=1200)
    if not out.exists():
        raise MachineryError(f"repository suite under the tracer produced no trace:\n{p.stdout[-1500:]}")
    evs = [json.loads(l) for l in out.read_text().splitlines()]
    evs = [e for e in evs if e["act"].startswith("settings.")]
    items = split_traces(evs, "suite", 10**6, random.Random(0))
    check_traces(ctx, items, "repo_suite")


def replay(v) -> int:
    fl = core.import_fuzzylite()
    case = v["case"]
    if "behaviour" not in case:
        print("trace case: re-run ./check C20")
        return 2
    pal = palette(fl)
    try:
        bad = Player(fl, pal, case["behaviour"], case["keymap"]).play()
    finally:
        restore(fl, pal)
    print(json.dumps(case["behaviour"]))
    if bad:
        print(f"step {bad[0]} ({bad[1]}): expected {bad[2]} observed {bad[3]}")
        print("VIOLATION property=C20 replay=(given)")
        return 1
    print("behaviour conforms")
    return 0
