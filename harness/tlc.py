"""Running TLC / SANY and reading back what they produced.

Policy (DESIGN.md section 2): a TLC crash, a parse error, an integer overflow or a
time-out is a *machinery failure* (MachineryError -> exit code 2), never a pass and
never a VIOLATION.  An invariant reported violated by TLC is returned to the caller,
which decides what it means (model-level defect mirror, canary, trace rejection).
"""
from __future__ import annotations

import json
import os
import re
import shutil
import subprocess
import time
from dataclasses import dataclass, field
from pathlib import Path

VERIF = Path(__file__).resolve().parent.parent
SPEC = VERIF / "spec"
WORK = VERIF / ".work"
JAR_CP = "/opt/veriftools/tla/tla2tools.jar:/opt/veriftools/tla/CommunityModules-deps.jar"


class MachineryError(Exception):
    """The verification machinery itself failed (exit code 2)."""


@dataclass
class TlcRun:
    cmd: str
    rc: int
    out: str
    generated: int = 0
    distinct: int = 0
    depth: int = 0
    wall_s: float = 0.0
    emitted: list = field(default_factory=list)
    violated: str | None = None  # name of the violated invariant / property, if any
    trace: str = ""  # TLC's textual counterexample
    coverage: dict = field(default_factory=dict)

    @property
    def ok(self) -> bool:
        return self.rc == 0 and self.violated is None


_counter = [0]


def _workdir(tag: str) -> Path:
    _counter[0] += 1
    d = WORK / f"{tag}-{os.getpid()}-{_counter[0]}"
    if d.exists():
        shutil.rmtree(d)
    d.mkdir(parents=True)
    return d


def sany(module: str) -> None:
    path = SPEC / f"{module}.tla"
    p = subprocess.run(
        ["java", "-cp", JAR_CP, "tla2sany.SANY", str(path)],
        cwd=SPEC, capture_output=True, text=True, timeout=300,
    )
    if p.returncode != 0 or "*** Errors" in p.stdout or "Fatal" in p.stdout or "Could not parse" in p.stdout:
        raise MachineryError(f"SANY rejects {module}.tla:\n{p.stdout[-2000:]}{p.stderr[-1000:]}")


_RE_STATS = re.compile(r"(\d+) states generated, (\d+) distinct states found")
_RE_DEPTH = re.compile(r"depth of the complete state graph search is (\d+)")
_RE_INV = re.compile(r"Invariant (\S+) is violated")
_RE_PROP = re.compile(r"(?:Action property|Temporal properties|Property) (\S+)? ?(?:is|were) violated")
_RE_COV = re.compile(r"^<(\w+) line (\d+), col \d+ to line \d+, col \d+ of module (\w+)>: (\d+):(\d+)", re.M)


def run(
    module: str,
    cfg: str | None = None,
    *,
    workers: int | str = "auto",
    env: dict | None = None,
    timeout: int = 1800,
    simulate: str | None = None,
    depth: int | None = None,
    seed: int | None = None,
    coverage: bool = False,
    tag: str = "tlc",
    deque: bool = False,
    expect_violation: bool = False,
    heap: str = "8g",
) -> TlcRun:
    """Run TLC on spec/<module>.tla with spec/<cfg>.cfg (default: same name)."""
    cfg = cfg or module
    cfgp = Path(cfg) if str(cfg).endswith(".cfg") else SPEC / f"{cfg}.cfg"
    if not cfgp.exists():
        raise MachineryError(f"missing {cfgp}")
    wd = _workdir(tag)
    jopts = ["-XX:+UseParallelGC", f"-Xmx{heap}", "-Xss64m"]
    if deque:
        jopts.append("-Dtlc2.tool.queue.IStateQueue=StateDeque")
    cmd = ["java", *jopts, "-cp", JAR_CP, "tlc2.TLC",
           "-workers", str(workers), "-metadir", str(wd / "meta"), "-noGenerateSpecTE",
           "-config", str(cfgp)]
    if simulate is not None:
        cmd += ["-simulate", simulate]
    if depth is not None:
        cmd += ["-depth", str(depth)]
    if seed is not None:
        cmd += ["-seed", str(seed)]
    cmd += ["-fp", "7"]
    if coverage:
        cmd += ["-coverage", "1"]
    cmd += [str(SPEC / f"{module}.tla")]
    e = dict(os.environ)
    e.pop("JAVA_TOOL_OPTIONS", None)
    if env:
        e.update({k: str(v) for k, v in env.items()})
    t0 = time.time()
    try:
        p = subprocess.run(cmd, cwd=SPEC, capture_output=True, text=True, timeout=timeout, env=e)
    except subprocess.TimeoutExpired as ex:
        shutil.rmtree(wd, ignore_errors=True)
        raise MachineryError(f"TLC timed out after {timeout}s: {module}/{cfg}") from ex
    wall = time.time() - t0
    shutil.rmtree(wd, ignore_errors=True)
    out = p.stdout
    envs = " ".join(f"{k}={v}" for k, v in (env or {}).items() if len(str(v)) < 200)
    r = TlcRun(cmd=(envs + " " if envs else "") + "tlc " + " ".join(cmd[cmd.index("-workers"):]).replace(str(VERIF) + "/", ""),
               rc=p.returncode, out=out, wall_s=wall)
    m = None
    for m in _RE_STATS.finditer(out):
        pass
    if m:
        r.generated, r.distinct = int(m.group(1)), int(m.group(2))
    m = _RE_DEPTH.search(out)
    if m:
        r.depth = int(m.group(1))
    for line in out.splitlines():
        if line.startswith('"{') or line.startswith('"['):
            try:
                r.emitted.append(json.loads(json.loads(line)))
            except Exception as ex:  # interleaved or truncated output
                raise MachineryError(f"cannot decode emitted line from {module}: {line[:200]}") from ex
    mi = _RE_INV.search(out)
    if mi:
        r.violated = mi.group(1)
    elif "is violated" in out or "violated." in out:
        mp = _RE_PROP.search(out)
        r.violated = (mp.group(1) if mp and mp.group(1) else "property")
    if r.violated:
        i = out.find("The behavior up to this point is:")
        if i < 0:
            i = out.find("is violated")
        r.trace = out[i: i + 20000]
    if coverage:
        for m in _RE_COV.finditer(out):
            r.coverage[m.group(1)] = r.coverage.get(m.group(1), 0) + int(m.group(4))
    bad = None
    if r.violated is None and p.returncode != 0:
        bad = f"TLC exit code {p.returncode}"
    if "Error: " in out and r.violated is None:
        bad = "TLC reported an error"
    if simulate is None and r.violated is None and not m and not _RE_STATS.search(out):
        bad = bad or "no statistics line in TLC output"
    if bad:
        body = "\n".join(l for l in out.splitlines() if not l.startswith('"') and not re.match(r"^\d+\. Line", l))
        i = body.find("Error:")
        tail = body[i: i + 2500] if i >= 0 else body[-2500:]
        raise MachineryError(f"{bad} ({module}/{cfg}):\n{tail}\n{p.stderr[-1000:]}")
    if r.violated and not expect_violation:
        pass  # caller decides
    return r


def apalache(module_path, init="Init", nxt="Next", inv="Inv", length=1, timeout=1200, tag="apa"):
    """Run apalache-mc check on a module; returns (ok, text).  A crash, a type error or a time-out is a machinery failure."""
    wd = _workdir(tag)
    cmd = ["apalache-mc", "check", f"--init={init}", f"--next={nxt}", f"--inv={inv}", f"--length={length}", f"--out-dir={wd}", str(module_path)]
    try:
        p = subprocess.run(cmd, cwd=SPEC, capture_output=True, text=True, timeout=timeout)
    except (subprocess.TimeoutExpired, FileNotFoundError) as ex:
        shutil.rmtree(wd, ignore_errors=True)
        raise MachineryError(f"apalache-mc failed to run: {ex}") from ex
    shutil.rmtree(wd, ignore_errors=True)
    out = p.stdout + p.stderr
    if "The outcome is: NoError" in out:
        return True, " ".join(cmd[:7])
    if "The outcome is: Error" in out or "violat" in out:
        return False, " ".join(cmd[:7])
    raise MachineryError(f"apalache-mc gave no verdict ({Path(module_path).name}):\n{out[-1500:]}")


def write_cfg(name: str, text: str) -> str:
    """Write a generated .cfg under .work (literal constants are much faster than overrides through definitions)."""
    d = WORK / "cfg"
    d.mkdir(parents=True, exist_ok=True)
    p = d / f"{name}-{os.getpid()}.cfg"
    p.write_text(text)
    return str(p)
