"""Code -> spec trace validation of Engine.process (spec/Trace_Engine.tla).

Every real process() call recorded by harness/tracer.py (on the shipped examples, on seeded catalogue engines and,
in the thorough tier, on the repository's own test-suite) is turned into a small engine description whose rule
degrees are the recorded ones (rank-abstracted) and validated by TLC: phase order, selection by the activation
method, and every contribution to every fuzzy output."""
from __future__ import annotations

import json
import math
import os
import random
import subprocess
import sys

from . import core, tracer, trace_ov
from .tlc import MachineryError, VERIF

Z, ONE, NAN, PINF, NINF = [0, 0, 1], [0, 1, 1], [2, 0, 1], [1, 0, 1], [-1, 0, 1]


def ranker(values):
    fin = sorted({v for v in values if math.isfinite(v)})
    pos = [v for v in fin if v > 0]
    neg = [v for v in fin if v < 0]
    table = {0.0: Z}
    from fractions import Fraction
    for i, v in enumerate(pos):
        q = Fraction(i + 1, len(pos) + 1)          # lowest terms: XReal values are compared structurally
        table[v] = [0, q.numerator, q.denominator]
    for i, v in enumerate(reversed(neg)):
        q = Fraction(-(i + 1), len(neg) + 1)
        table[v] = [0, q.numerator, q.denominator]

    def rk(v):
        if math.isnan(v):
            return NAN
        if math.isinf(v):
            return PINF if v > 0 else NINF
        return table[v]
    return rk


def at(vec, j):
    if not vec:
        return math.nan
    return vec[j] if len(vec) > 1 else vec[0]


def process_traces(events, label, max_rows=3):
    """[(trace for TLC, descriptor)], skipped count"""
    res, skipped = [], 0
    procs = [e for e in events if e["act"] == "engine.process"]
    for pi, pe in enumerate(procs):
        inner = [e for e in events if pe["first_seq"] <= e["seq"] < pe["seq"]]
        if pe.get("stubbed") or pe.get("raised") or any(e.get("stubbed") or e.get("raised") for e in inner) or "onames" not in pe:
            skipped += 1
            continue
        names = pe["onames"]
        if len(set(names)) != len(names) or any(e["act"] == "engine.process" for e in inner):
            skipped += 1
            continue
        acts = [e for e in inner if e["act"] == "block.activate"]
        if any(a["method"] is None for a in acts):
            skipped += 1
            continue
        nested = set()
        for a in acts:
            nested.update(e["seq"] for e in inner if a["first_seq"] <= e["seq"] < a["seq"])
        tops = [e for e in inner if e["seq"] not in nested and e["act"] in ("block.activate", "ov.defuzzify")]
        if any(e["obj"] not in pe["blocks"] for e in tops if e["act"] == "block.activate") or any(e["obj"] not in pe["outputs"] for e in tops if e["act"] == "ov.defuzzify"):
            skipped += 1
            continue
        nrows = max([len(r["degree"] or [0]) for a in acts for r in a["rules"]] + [1])
        for j in range(min(nrows, max_rows)):
            vals = []
            for a in acts:
                vals += [at(r["degree"], j) for r in a["rules"]] + [a["params"].get("threshold", 0.0)]
                for t in (e for e in inner if e["act"] == "rule.trigger" and a["first_seq"] <= e["seq"] < a["seq"]):
                    for lst in t["added"].values():
                        vals += [at(x["degree"], j) for x in lst]
            rk = ranker(vals)
            terms = {n: [] for n in names}
            blocks_by_obj = {}
            tev = []
            ok = True
            for e in tops:
                if e["act"] == "ov.defuzzify":
                    tev.append({"kind": "defuzzify", "o": pe["outputs"].index(e["obj"]) + 1, "b": 0, "trig": [], "added": []})
                    continue
                a = e
                trigs = [t for t in inner if t["act"] == "rule.trigger" and a["first_seq"] <= t["seq"] < a["seq"]]
                by_rule = {}
                for t in trigs:
                    by_rule.setdefault(t["obj"], []).append(t)
                rules = []
                added = {n: [] for n in names}
                prop = a["method"] == "Proportional"
                for r in a["rules"]:
                    ts = by_rule.get(r["obj"], [])
                    if len(ts) > 1:
                        ok = False
                    cons = []
                    if ts:
                        for c in ts[0]["conclusions"]:
                            if c["var"] not in terms or c["term"] is None:
                                ok = False
                                continue
                            cons.append({"var": c["var"], "hs": c["hedges"], "term": c["term"]})
                            if c["term"] not in terms[c["var"]]:
                                terms[c["var"]].append(c["term"])
                    rules.append({"enabled": r["enabled"], "loaded": r["loaded"], "weight": ONE, "ant": {"kind": "fixed", "d": rk(at(r["degree"], j))}, "cons": cons})
                for t in trigs:       # in firing order
                    hedged = {}
                    for c in t["conclusions"]:
                        hedged.setdefault(c["var"], []).append(bool(c["hedges"]))
                    for var, lst in t["added"].items():
                        if var not in added:
                            ok = False
                            continue
                        hs = [h for h, c in zip(hedged.get(var, []), [c for c in t["conclusions"] if c["var"] == var]) if c["venabled"]]
                        for k_, x in enumerate(lst):
                            d = at(t["degree"], j)
                            plain = (k_ < len(hs) and not hs[k_]) and not prop and math.isfinite(d)
                            added[var].append({"term": x["term"], "impl": x["impl"] or "none", "deg": rk(at(x["degree"], j)) if plain else Z, "cmp": plain})
                par = a["params"]
                act = {"cls": a["method"], "rules": int(par["rules"]) if "rules" in par and not math.isnan(par["rules"]) else 0,
                       "threshold": rk(par["threshold"]) if "threshold" in par else Z, "comparator": par.get("comparator", ">")}
                bidx = pe["blocks"].index(a["obj"])
                impl = next((x["impl"] for t in trigs for lst in t["added"].values() for x in lst), None) or next((t["impl"] for t in trigs), None) or "none"
                blocks_by_obj[bidx] = {"name": f"b{bidx}", "enabled": True, "conjunction": "none", "disjunction": "none", "implication": impl, "activation": act, "rules": rules}
                tev.append({"kind": "activate", "b": bidx + 1, "o": 0, "trig": [bool(at(r["triggered"], j) > 0) for r in a["rules"]], "added": [added[n] for n in names]})
            if not ok:
                skipped += 1
                continue
            blocks = []
            for bidx, en in enumerate(pe["benabled"]):
                b = blocks_by_obj.get(bidx) or {"name": f"b{bidx}", "enabled": en, "conjunction": "none", "disjunction": "none", "implication": "none",
                                                "activation": {"cls": "General", "rules": 0, "threshold": Z, "comparator": ">"}, "rules": []}
                b["enabled"] = en
                blocks.append(b)
            outs = [{"name": n, "enabled": en, "min": NINF, "max": PINF, "lockRange": False, "lockPrev": False, "default": NAN, "aggregation": "none",
                     "defuzzifier": {"cls": "none", "resolution": 0, "type": "Automatic"},
                     "terms": [{"name": t, "k": "Constant", "p": [Z], "h": ONE} for t in terms[n]]} for n, en in zip(names, pe["oenabled"])]
            eng = {"name": label, "inputs": [], "outputs": outs, "blocks": blocks}
            res.append(({"id": f"{label}#{pi}.{j}", "engine": eng, "events": tev}, {"label": label, "process": pi, "row": j}))
    return res, skipped


def check(ctx, items, what):
    if not items:
        return 0
    path = ctx.work / f"ptraces-{what}.json"
    path.write_text(json.dumps([t for t, _ in items]))
    r = ctx.tlc("Trace_Engine", workers=16, env={"VERIF_TRACES": str(path)}, timeout=3000)
    ctx.expect_holds(r, "Trace_Engine")
    by_id = {t["id"]: (t, w) for t, w in items}
    seen = set()
    for rep in r.emitted:
        if rep["tid"] in seen:
            continue
        seen.add(rep["tid"])
        t, w = by_id[rep["tid"]]
        ctx.count(len(t["events"]))
        if rep["verdict"] == "accepted":
            ctx.traces += 1
            continue
        ev = t["events"][rep["at"] - 1] if 0 < rep["at"] <= len(t["events"]) else None
        clause = rep["verdict"].split(":")[1]
        method = next((b["activation"]["cls"] for b in t["engine"]["blocks"] if ev and ev["kind"] == "activate" and b["name"] == f"b{ev['b'] - 1}"), "-")
        ctx.violation(f"trace/Engine.process/{clause}/{method}", {"workload": w, "trace": t, "event_index": rep["at"]},
                      {"trig": rep.get("trig"), "fuzzy": rep.get("fuzzy")}, ev,
                      note=f"trace {rep['tid']} {rep['verdict']} at event {rep['at']}: the specification's outcome for the recorded degrees differs from what the code did", step=rep["at"])
    missing = set(by_id) - seen
    if missing:
        raise MachineryError(f"Trace_Engine gave no verdict for {len(missing)} traces, e.g. {sorted(missing)[:3]}")
    return len(items)


def validate(ctx: core.Ctx, fl, catalogue_runs=None):
    """examples (float and batch), optional extra workloads (callables executed under the tracer), thorough: the repository's suite"""
    if not tracer.install(fl):
        raise MachineryError(f"{tracer.GUARD} is not set: the tracer is disabled")
    try:
        rng = random.Random(ctx.seed + 31)
        mods = trace_ov.example_modules(fl)
        rng.shuffle(mods)
        if ctx.quick:
            mods = mods[:20]
        items, skipped = [], 0
        for j, m in enumerate(mods):
            w = {"kind": "example", "module": m, "seed": ctx.seed + j, "lockPrev": None}
            tr, sk = process_traces(trace_ov.execute(fl, w), m.split(".")[-1])
            skipped += sk
            items += tr[: (40 if ctx.quick else 400)]
        ctx.extra["process_traces_examples"] = check(ctx, items, "examples")
        items = []
        for k, run in enumerate(catalogue_runs or []):
            tracer.reset()
            run()
            tr, sk = process_traces(list(tracer.events()), f"cat{k}")
            skipped += sk
            items += tr
        ctx.extra["process_traces_catalogue"] = check(ctx, items, "catalogue")
        ctx.extra["process_traces_skipped"] = skipped
        demonstrate(ctx, fl)
    finally:
        tracer.uninstall()
    if not ctx.quick:
        suite(ctx)


def demonstrate(ctx, fl):
    """binding demonstration: a trace with one corrupted field, one with a dropped event and one with two events exchanged must be rejected"""
    tracer.reset()
    mods = trace_ov.example_modules(fl)
    tr, _ = process_traces(trace_ov.execute(fl, {"kind": "example", "module": mods[0], "seed": 1, "lockPrev": None}), "demo")
    base = next(t for t, _ in tr if any(e["kind"] == "activate" and any(e["trig"]) for e in t["events"]))
    bad = []
    c1 = json.loads(json.dumps(base)); c1["id"] = "demo-corrupt"
    e = next(e for e in c1["events"] if e["kind"] == "activate" and any(e["trig"]))
    e["trig"][e["trig"].index(True)] = False
    bad.append(c1)
    c2 = json.loads(json.dumps(base)); c2["id"] = "demo-dropped"
    c2["events"] = [x for x in c2["events"] if x["kind"] != "activate"][:]
    bad.append(c2)
    c3 = json.loads(json.dumps(base)); c3["id"] = "demo-order"
    c3["events"] = list(reversed(c3["events"]))
    bad.append(c3)
    path = ctx.work / "ptraces-demo.json"
    path.write_text(json.dumps(bad))
    r = ctx.tlc("Trace_Engine", workers=4, env={"VERIF_TRACES": str(path)}, timeout=600)
    verdicts = {rep["tid"]: rep["verdict"] for rep in r.emitted}
    if any(not verdicts.get(t["id"], "").startswith("rejected") for t in bad):
        raise MachineryError(f"binding demonstration failed: corrupted process traces were not rejected: {verdicts}")
    ctx.extra["process_trace_binding_demo"] = verdicts


def suite(ctx):
    """the repository's own tests under the tracer plugin: every process() call they make is validated"""
    out = ctx.work / "suite-events.ndjson"
    env = dict(os.environ, VERIF_TRACE_OUT=str(out), PYTHONPATH=f"{core.REPO}:{VERIF}")
    env[tracer.GUARD] = "1"
    p = subprocess.run([sys.executable, "-m", "pytest", "-q", "-p", "no:cacheprovider", "-p", "harness.tracer", "--timeout=900",
                        "--deselect", "tests/test_benchmark.py", "tests"], cwd=str(core.REPO), env=env, capture_output=True, text=True, timeout=1800)
    if not out.exists():
        raise MachineryError(f"the traced test-suite run wrote no events:\n{p.stdout[-1500:]}{p.stderr[-500:]}")
    events = [json.loads(l) for l in out.read_text().splitlines() if l.strip()]
    tr, sk = process_traces(events, "suite")
    ctx.extra["process_traces_suite"] = check(ctx, tr[:3000], "suite")
    ctx.extra["process_traces_suite_skipped"] = sk
