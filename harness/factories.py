"""Growth of the specification beyond the listed properties: spec/Factories.tla (the registries of fuzzylite.factory, the
manager the library currently uses, and every consumer that consults it) model-checked by TLC (MC_Factories: uses see the
current registry, a parsed formula keeps its elements, new managers have the defaults, contexts restore; canaries Cached and
LateBinding) and every complete behaviour replayed on real FactoryManager objects.  Run with `./check --extras`; nothing is
claimed in MANIFEST.json for it, but it uses the same machinery, exit codes and replay files (replays/X02)."""
from __future__ import annotations

import math

import numpy as np

from . import core, kexpr
from .tlc import MachineryError, write_cfg
from .xreal import to_fraction

HEAD = 'SPECIFICATION Spec\nCONSTANTS Managers = {{"d", "m"}}\n  Cached = {c}\n  LateBinding = {l}\n  MaxSteps = {n}\n  Emit = {e}\n'
INVS = ("INVARIANT TypeOK\nINVARIANT SeesCurrentRegistry\nINVARIANT KeepsParsedElements\nPROPERTY NewManagerHasDefaults\nPROPERTY OthersUntouched\n"
        "PROPERTY ContextRestores\nVIEW View\nCHECK_DEADLOCK FALSE\n")
RULES = ["if a is very lo then y is lo", "if a is quite lo then y is lo", "if a is quite then y is lo", "if a is lo then y is quite lo",
         "if a is not quite quite then y is very lo"]
FORMULAS = ["sq ( x )", "sin ( x )", "sq ( x ) + 1.000", "sq ( x , x )", "sq", "sq ( sin ( x ) )"]
KEYS = {"hedge": ["very", "not", "quite"], "tnorm": ["Minimum", "Tmin"], "term": ["Triangle", "Peak"], "function": ["sin", "sq"]}


def feq(a, b):
    return (math.isnan(a) and math.isnan(b)) or abs(a - b) <= 1e-12 * max(1.0, abs(b))


def element(fl, key, which):
    T = fl.Function.Element.Type.Function
    if which == "sin":
        return fl.Function.Element(key, "sine", T, np.sin, arity=1, precedence=100, associativity=-1)
    if which == "square":
        return fl.Function.Element(key, "square", T, lambda a: a * a, arity=1, precedence=100, associativity=-1)
    return fl.Function.Element(key, "product", T, lambda a, b: a * b, arity=2, precedence=100, associativity=-1)


def element_name(el):
    if el.arity == 2:
        return "mul2"
    return "square" if abs(float(el.method(3.0)) - 9.0) < 1e-9 else "sin"


def engine(fl):
    tri = lambda n: fl.Triangle(n, 0.0, 0.5, 1.0)
    return fl.Engine("e", input_variables=[fl.InputVariable("a", minimum=0, maximum=1, terms=[tri("lo"), tri("quite")])],
                     output_variables=[fl.OutputVariable("y", minimum=0, maximum=1, terms=[tri("lo"), tri("quite")], defuzzifier=fl.Centroid(), aggregation=fl.Maximum())],
                     rule_blocks=[fl.RuleBlock("rb", conjunction=fl.Minimum(), disjunction=fl.Maximum(), implication=fl.Minimum(), activation=fl.General())])


def factory_of(mgr, k):
    return getattr(mgr, k)


def table_of(fac):
    return fac.objects if hasattr(fac, "objects") else fac.constructors


def use(fl, st):
    """one consumer call under the library's current manager -> observation in the specification's vocabulary"""
    a, k, key, i = st["act"], st["k"], st["key"], st["i"]
    cur = fl.settings.factory_manager
    if a == "construct":
        fac = factory_of(cur, k)
        try:
            if k == "function":
                o = fac.copy(key)
                if o is fac.objects[key]:
                    return ["ok", "the registered object itself (not a copy)"]
                return ["ok", element_name(o)]
            return ["ok", type(fac.construct(key)).__name__]
        except ValueError:
            return ["ValueError"]
    if a == "contains":
        fac = factory_of(cur, k)
        r = key in fac
        if (key in list(fac)) != r:
            return ["ok", f"`in` says {r}, iteration says {key in list(fac)}"]
        try:
            fac[key]
            got = True
        except KeyError:
            got = False
        return ["ok", r if got == r else f"`in` says {r}, indexing says {got}"]
    if a == "len":
        fac = factory_of(cur, k)
        n = sum(1 for q in KEYS[k] if q in fac)
        if len(fac) != len(table_of(fac)) or len(fac) != len(list(fac)):
            return ["ok", f"len {len(fac)} but {len(list(fac))} keys"]
        return ["ok", n]
    if a == "rule":
        try:
            r = fl.Rule.create(RULES[i - 1], engine(fl))
        except SyntaxError:
            return ["SyntaxError"]
        p = r.antecedent.expression
        return ["ok", [type(h).__name__ for h in p.hedges], p.term.name if p.term else "", [[type(h).__name__ for h in c.hedges] for c in r.consequent.conclusions]]
    if a == "import":
        text = f"Engine: x\nInputVariable: a\n  term: t {key} 0.000 0.500 1.000\n" if k == "term" else f"Engine: x\nRuleBlock: rb\n  conjunction: {key}\n"
        try:
            e = fl.FllImporter().from_string(text)
        except ValueError:
            return ["ValueError"]
        return ["ok", type(e.input_variables[0].terms[0]).__name__ if k == "term" else type(e.rule_blocks[0].conjunction).__name__]
    if a == "configure":
        e = engine(fl)
        try:
            e.configure(conjunction=key)
        except ValueError:
            return ["ValueError"]
        return ["ok", type(e.rule_blocks[0].conjunction).__name__]
    raise MachineryError(f"unknown use {a}")


def norm_expect(ex):
    """the specification's observation in the comparison vocabulary of use()"""
    if ex[0] == "SyntaxError":
        return ["SyntaxError"]
    return list(ex)


def replay_behaviour(ctx, fl, b):
    FM = fl.factory.FactoryManager
    managers = {"d": FM()}
    outer = fl.settings.factory_manager
    fl.settings.factory_manager = managers["d"]
    open_ctx = []
    f = fl.Function("f", "x")
    f.load()
    ctors = {"Very": fl.Very, "Not": fl.Not, "Minimum": fl.Minimum, "AlgebraicProduct": fl.AlgebraicProduct, "Triangle": fl.Triangle, "Ramp": fl.Ramp}
    nontrivial = False
    try:
        for i, (st, ex) in enumerate(zip(b["steps"], b["expect"])):
            a = st["act"]
            case = {"behaviour": b, "step": i}
            try:
                if a == "Create":
                    managers[st["m"]] = FM()
                elif a == "Register":
                    fac = factory_of(managers[st["m"]], st["k"])
                    fac[st["key"]] = element(fl, st["key"], st["c"]) if st["k"] == "function" else ctors[st["c"]]
                elif a == "Deregister":
                    del table_of(factory_of(managers[st["m"]], st["k"]))[st["key"]]
                elif a == "Assign":
                    fl.settings.factory_manager = managers[st["m"]]
                elif a == "Enter":
                    cm = fl.settings.context(factory_manager=managers[st["m"]])
                    cm.__enter__()
                    open_ctx.append(cm)
                elif a == "Exit":
                    open_ctx.pop().__exit__(None, None, None)
                elif a == "Parse":
                    ctx.count()
                    text = FORMULAS[st["i"] - 1]
                    try:
                        f.configure(text)
                        got = ["ok", fl.Function.infix_to_postfix(text).split()]
                    except SyntaxError:
                        got = ["SyntaxError"]
                    want = ["SyntaxError"] if ex[0] == "SyntaxError" else ["ok", list(ex[1])]
                    if got != want:
                        ctx.violation("Function.configure/under-current-function-factory", case, want, got, step=i,
                                      note=f"step {i}: '{text}' parsed under the current function factory gives {got}, the registry prescribes {want}")
                        return
                    nontrivial = True
                elif a == "Evaluate":
                    ctx.count()
                    x = float(to_fraction(st["x"]))
                    try:
                        got = float(np.asarray(f.membership(x), dtype=float))
                        err = None
                    except ValueError:
                        got, err = None, "ValueError"
                    if ex[0] == "ValueError":
                        if err is None:
                            ctx.violation("Function.membership/held-tree/evaluated-unknown-name", case, "ValueError", got, step=i)
                            return
                    else:
                        want = kexpr.value(ex[1])
                        if err is not None or not feq(got, want):
                            ctx.violation("Function.membership/held-tree/elements-of-parse-time", case, want, got if err is None else err, step=i,
                                          note=f"step {i}: the term parsed earlier evaluates to {got if err is None else err}; with the elements it was parsed with it is {want}")
                            return
                    nontrivial = True
                else:
                    ctx.count()
                    got = use(fl, st)
                    want = norm_expect(ex)
                    if got != want:
                        ctx.violation(f"factory/{a}/{st['k'] or 'hedge'}/sees-current-registry", case, want, got, step=i,
                                      note=f"step {i}: {a} {st['k']} {st['key'] or st['i']} gives {got}; the registry of the current manager prescribes {want}")
                        return
                    nontrivial = True
            except MachineryError:
                raise
            except Exception as exn:
                ctx.violation(f"factory/{a}/raises-{type(exn).__name__}", case, list(ex), f"{type(exn).__name__}: {exn}", step=i)
                return
        # leaving the remaining contexts restores, in the end, the manager assigned before them: checked against the specification's stack
    finally:
        while open_ctx:
            open_ctx.pop().__exit__(None, None, None)
        fl.settings.factory_manager = outer
    ctx.case(("factories", ctx.traces), nontrivial)


def run(ctx: core.Ctx):
    fl = core.import_fuzzylite()
    n = 3 if ctx.quick else 4
    ctx.expect_holds(ctx.tlc("MC_Factories", write_cfg("MC_Factories", HEAD.format(c="FALSE", l="FALSE", n=n + 1 if ctx.quick else n, e="FALSE") + INVS), workers=16, timeout=3000), "MC_Factories")
    ctx.expect_canary(ctx.tlc("MC_Factories", write_cfg("MC_Factories_cached", HEAD.format(c="TRUE", l="FALSE", n=3, e="FALSE") + INVS), workers=16), "Cached")
    ctx.expect_canary(ctx.tlc("MC_Factories", write_cfg("MC_Factories_late", HEAD.format(c="FALSE", l="TRUE", n=3, e="FALSE") + INVS), workers=16), "LateBinding")
    g = ctx.tlc("MC_Factories", write_cfg("Gen_Factories", HEAD.format(c="FALSE", l="FALSE", n=n, e="TRUE") + "INVARIANT EmitInv\nCHECK_DEADLOCK FALSE\n"), workers=16, timeout=3000)
    if len(g.emitted) < 5000:
        raise MachineryError(f"only {len(g.emitted)} factory behaviours")
    default = fl.settings.factory_manager
    before = {k: dict(table_of(factory_of(default, k))) for k in ("hedge", "tnorm", "snorm", "term", "function", "activation", "defuzzifier")}
    for b in g.emitted:
        ctx.traces += 1
        replay_behaviour(ctx, fl, b)
    # the library's own manager is untouched by all of it
    after = {k: dict(table_of(factory_of(fl.settings.factory_manager, k))) for k in before}
    if fl.settings.factory_manager is not default or any(before[k].keys() != after[k].keys() for k in before):
        ctx.violation("factory/library-default-manager-modified", {}, "unchanged", "modified", note="operations on other managers changed the library's own factory manager")
    ctx.sample({"factory_behaviour": g.emitted[len(g.emitted) // 2]})
    ctx.extra["factory_behaviours_replayed"] = len(g.emitted)
    ctx.exhaustive = True
    ctx.rule = (f"every behaviour of {n} operations on up to two factory managers (create, register, deregister, assign, enter / leave a settings context) and uses "
                "(construct / copy, membership, size, Rule.create with registered / unregistered hedge words, FLL import of term and norm lines, Engine.configure by name, "
                "a long-lived Function term parsed under one registry and evaluated under another), replayed on real objects")
    ctx.assumptions += ["after a failed Function.configure the term's tree is not specified (Evaluate is not enabled until a parse succeeds)"]
