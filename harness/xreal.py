"""XReal triples <<k,n,d>> of the specification <-> Python numbers."""
from __future__ import annotations

import math
from fractions import Fraction

NAN = [2, 0, 1]
PINF = [1, 0, 1]
NINF = [-1, 0, 1]


def to_fraction(x):
    """finite XReal -> Fraction; specials -> float"""
    k, n, d = x
    if k == 0:
        return Fraction(n, d)
    return {1: math.inf, -1: -math.inf, 2: math.nan}[k]


def to_float(x) -> float:
    k, n, d = x
    if k == 0:
        return n / d  # correctly rounded quotient of two ints
    return {1: math.inf, -1: -math.inf, 2: math.nan}[k]


def from_number(v) -> list:
    """float / Fraction / int -> XReal triple (exact)"""
    if isinstance(v, Fraction):
        return [0, v.numerator, v.denominator]
    if isinstance(v, int):
        return [0, v, 1]
    v = float(v)
    if math.isnan(v):
        return list(NAN)
    if math.isinf(v):
        return list(PINF if v > 0 else NINF)
    f = Fraction(v)
    return [0, f.numerator, f.denominator]


def Q(n, d=1) -> list:
    return from_number(Fraction(n, d))


def is_nan(x) -> bool:
    return x[0] == 2


def same(a: float, b: float, rel: float = 0.0, abs_: float = 0.0) -> bool:
    """float comparison used by every driver: NaN-ness and infinities exactly, finite values to tolerance"""
    a = float(a)
    b = float(b)
    if math.isnan(a) or math.isnan(b):
        return math.isnan(a) and math.isnan(b)
    if math.isinf(a) or math.isinf(b):
        return a == b
    if a == b:
        return True
    return abs(a - b) <= max(abs_, rel * max(1.0, abs(a), abs(b)))


def ulps(a: float, b: float) -> float:
    if a == b:
        return 0.0
    if math.isnan(a) or math.isnan(b) or math.isinf(a) or math.isinf(b):
        return math.inf
    return abs(a - b) / max(math.ulp(a), math.ulp(b))


def tla(x) -> str:
    """XReal (or nested lists of ints / strings / bools / dicts) -> TLA+ expression text"""
    if isinstance(x, bool):
        return "TRUE" if x else "FALSE"
    if isinstance(x, int):
        return str(x)
    if isinstance(x, str):
        return '"' + x.replace("\\", "\\\\").replace('"', '\\"') + '"'
    if isinstance(x, (list, tuple)):
        return "<<" + ", ".join(tla(y) for y in x) + ">>"
    if isinstance(x, dict):
        return "[" + ", ".join(f"{k} |-> {tla(v)}" for k, v in x.items()) + "]"
    raise TypeError(type(x))
