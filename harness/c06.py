"""C06  Rule antecedents mean what the rule grammar says.

1. TLC: spec/MC_RuleSyntax - design theorem over 1,548 antecedent trees (one operator level over 18 leaves
   with hedge chains and `any`, two levels over 3 leaves) x 3 print styles: reading the printed text with the
   shunting-yard step (operator table of the function factory) and the Antecedent.load machine returns the
   tree; the postfix agrees; the documented grammar accepts it.  Canary: exchanged precedences must fail.
2. Syntax replay: every printed text, with and without spaces around parentheses, goes through
   Rule.create(text, engine); Antecedent.postfix() must be the specification's postfix.
3. Meaning: the trees become the rules of engine descriptions (input variable a, output variable y fed by
   two earlier rules) evaluated by spec/Gen_Engine for 53 of the 7x9 conjunction/disjunction pairs (a quarter of
   the trees) or 6 pairwise-distinguishable pairs, weights {1, 1/2, 1/4}, rows incl. NaN / out of range;
   the real engine's rule degrees (weight x antecedent) must agree.  Deeper random trees in the thorough tier.
"""
from __future__ import annotations

import copy
import random

from . import core, engine_run
from .c01 import replay_case
from .edl import AND, C, OR, P, X, block, engine, out, rule, term, var
from .tlc import MachineryError, write_cfg
from .xreal import NAN, Q

TN = ["AlgebraicProduct", "BoundedDifference", "DrasticProduct", "EinsteinProduct", "HamacherProduct", "Minimum", "NilpotentMinimum"]
SN = ["AlgebraicSum", "BoundedSum", "DrasticSum", "EinsteinSum", "HamacherSum", "Maximum", "NilpotentMaximum", "NormalizedSum", "UnboundedSum"]
DIST = [("AlgebraicProduct", "BoundedSum"), ("BoundedDifference", "Maximum"), ("Minimum", "AlgebraicSum"), ("NilpotentMinimum", "DrasticSum"),
        ("DrasticProduct", "NilpotentMaximum"), ("AlgebraicProduct", "AlgebraicSum")]
CONSTS = 'CONSTANTS InVars = {"a", "b"}\n  OutVars = {"y", "z"}\n  TermNames = {"lo", "hi", "t"}\n  HedgeNames = {"any", "extremely", "not", "seldom", "somewhat", "very"}\n'


def base_engine(trees_with_text, conj, disj, weights, name):
    a = var("a", 0, 1, [term("lo", "Triangle", 0, "1/2", 1), term("hi", "Ramp", 0, 1), term("t", "Rectangle", 0, 1)])  # dyadic memberships on the row grid
    b = var("b", 0, 1, [term("lo", "Ramp", 1, 0), term("hi", "Ramp", 0, 1), term("t", "Rectangle", 0, 1)])
    y = out("y", 0, 1, [term("lo", "Constant", 0), term("hi", "Constant", 1), term("t", "Constant", "1/2")], defuzzifier="WeightedAverage", aggregation="Maximum")
    # z is disabled: the tree rules are activated (their degrees are what is compared) but contribute nothing, so no sum over
    # two dozen unrelated denominators is formed in TLC's 32-bit exact arithmetic
    z = out("z", 0, 1, [term("lo", "Constant", 0), term("hi", "Constant", 1), term("t", "Constant", "1/2")], defuzzifier="WeightedAverage", aggregation="none", enabled=False)
    rules = [rule(P("b", "lo"), [C("y", "lo")]), rule(P("b", "hi"), [C("y", "hi")], weight="1/2")]
    for i, (tree, text) in enumerate(trees_with_text):
        r = rule(tree, [C("z", "t")], weight=weights[i % len(weights)])
        r["ant_text"] = text
        rules.append(r)
    E = engine(name, [a, b], [y, z], [block("rb", rules, conjunction=conj, disjunction=disj, implication="none")])
    E["coarse"] = True
    return E


def unspaced(tokens):
    s = " ".join(tokens)
    return s.replace("( ", "(").replace(" )", ")")


def run(ctx: core.Ctx):
    fl = core.import_fuzzylite()
    rng = random.Random(ctx.seed)
    head = "SPECIFICATION Spec\n" + CONSTS.replace("{", "{{").replace("}", "}}") + "  Emit = {e}\n  SwapPrecedence = {s}\n"
    g = ctx.tlc("MC_RuleSyntax", write_cfg("MC_RuleSyntax", head.format(e="TRUE", s="FALSE") + "INVARIANT RoundTrip\nINVARIANT PostfixAgrees\nINVARIANT GrammarAccepts\nINVARIANT EmitInv\nCHECK_DEADLOCK FALSE\n"), workers=16)
    ctx.expect_holds(g, "MC_RuleSyntax")
    ctx.expect_canary(ctx.tlc("MC_RuleSyntax", write_cfg("MC_RuleSyntax_canary", head.format(e="FALSE", s="TRUE") + "INVARIANT RoundTrip\nCHECK_DEADLOCK FALSE\n"), workers=8), "SwapPrecedence")
    trees = g.emitted
    if len(trees) != 1548:
        raise MachineryError(f"expected 1548 trees, got {len(trees)}")
    # 2. syntax replay
    syn = fl.Engine("syn", input_variables=[fl.InputVariable("a", terms=[fl.Triangle("lo", 0, 0.25, 1), fl.Ramp("hi", 0, 1), fl.Rectangle("t", 0, 1)]),
                                            fl.InputVariable("b", terms=[fl.Ramp("lo", 1, 0), fl.Ramp("hi", 0, 1)])],
                    output_variables=[fl.OutputVariable("y", terms=[fl.Constant("lo", 0.0), fl.Constant("hi", 1.0)]), fl.OutputVariable("z", terms=[fl.Constant("t", 0.5)])])
    for ti, t in enumerate(trees):
        want = " ".join(t["postfix"])
        for st, toks in enumerate(t["shown"]):
            for text in {" ".join(toks), unspaced(toks)}:
                ctx.count()
                try:
                    r = fl.Rule.create(f"if {text} then z is t", syn)
                    got = r.antecedent.postfix()
                except Exception as ex:
                    got = f"{type(ex).__name__}: {ex}"
                if got != want:
                    ctx.violation(f"Antecedent.load/postfix/style={st}", {"text": text, "tree": t["tree"]}, want, got, note=f"'{text}' is read as '{got}'")
                # the same text given to ONE long-lived, already loaded rule and loaded again (no unload in between), alone and through its block
                if "rule" not in run.__dict__:
                    run.__dict__["rule"] = fl.Rule.create("if a is lo then z is t", syn)
                    run.__dict__["block"] = fl.RuleBlock("long", rules=[run.__dict__["rule"]])
                lr = run.__dict__["rule"]
                try:
                    lr.text = f"if {text} then z is t"
                    if ti % 2:
                        lr.load(syn)
                    else:
                        run.__dict__["block"].load_rules(syn)
                    got2 = lr.antecedent.postfix()
                except Exception as ex:
                    got2 = f"{type(ex).__name__}: {ex}"
                if got2 != want:
                    ctx.violation(f"Antecedent.load/long-lived-rule/postfix/style={st}", {"text": text, "tree": t["tree"]}, want, got2,
                                  note=f"a loaded rule given the text '{text}' and loaded again reads it as '{got2}'")
        ctx.case(("tree", ti), nontrivial=t["tree"]["kind"] != "p")
    ctx.traces += len(trees)
    ctx.sample({"tree": trees[700]["tree"], "styles": [" ".join(s) for s in trees[700]["shown"]], "postfix": " ".join(trees[700]["postfix"])})
    # 3. meaning
    order = list(range(len(trees)))
    rng.shuffle(order)
    chunk = 24
    cases = []
    rows = [[x, b] for x in (Q(0), Q(1, 4), Q(1, 2), Q(1), list(NAN), Q(3, 2)) for b in (Q(0), Q(1, 4), Q(3, 4), Q(1), list(NAN))]
    nchunks = (len(order) + chunk - 1) // chunk
    for ci in range(nchunks):
        idx = order[ci * chunk:(ci + 1) * chunk]
        style = ci % 3
        tw = [(trees[i]["tree"], " ".join(trees[i]["shown"][style]) if ci % 2 else unspaced(trees[i]["shown"][style])) for i in idx]
        if ci % 4 == 0 and (not ctx.quick or ci % 16 == 0):
            # a discontinuous norm (Drastic*, Nilpotent*) fed by an inexact quotient norm (Einstein*, Hamacher*, NormalizedSum) may flip its
            # branch by one ulp of rounding in binary64: those 10 compositions are ill-conditioned and are not compared
            disc, quot = {"DrasticProduct", "NilpotentMinimum", "DrasticSum", "NilpotentMaximum"}, {"EinsteinProduct", "HamacherProduct", "EinsteinSum", "HamacherSum", "NormalizedSum"}
            pairs = [(c, d) for c in TN for d in SN if not ((c in disc and d in quot) or (c in quot and d in disc))]
        else:
            pairs = DIST if not ctx.quick else [DIST[ci % len(DIST)], DIST[(ci + 3) % len(DIST)]]
        if ci % 2 == 0:     # a user-supplied, non-associative operator on both sides: only the grouping the grammar prescribes gives these degrees
            pairs = list(pairs) + [("Mean", "Mean"), ("Minimum", "Mean")][: 1 + ci % 4 // 2]
        for (c, d) in pairs:
            # (every third engine: weights inside the library's comparison tolerance of 1 - 1023/1024, 2047/2048 - are weights like any other)
            E = base_engine(tw, c, d, ["1", "1/2", "1/4"] if ci % 3 else ["1023/1024", "1/2", "2047/2048"], f"c06-{ci}-{c}-{d}")
            # a disabled variable yields 0 whatever its hedges say
            if ci % 5 == 1:
                E["inputs"][0]["enabled"] = False
                E["name"] += "-a-disabled"
            elif ci % 5 == 3:
                E["outputs"][0]["enabled"] = False
                E["name"] += "-y-disabled"
            cases.append({"engine": E, "rows": rows})
    exp = engine_run.evaluate(ctx, cases, "c06")
    nrows = 0
    for ci, case in enumerate(cases):
        expected = {k: v for (c, k), v in exp.items() if c == ci}
        if not expected:
            ctx.extra["engines_dropped_overflow"] = ctx.extra.get("engines_dropped_overflow", 0) + 1
            continue
        bad = replay_case(fl, case, expected, ctx)
        nrows += len(expected)
        ctx.count(len(expected) * len(case["engine"]["blocks"][0]["rules"]))
        ctx.traces += 1
        for k, d in bad:
            blk = case["engine"]["blocks"][0]
            ctx.violation(f"Rule.activate_with/{d.split(':')[0].split('[')[0]}/{blk['conjunction']}-{blk['disjunction']}",
                          {"engine": case["engine"], "rows": case["rows"][:k]}, None, d, note=f"{case['engine']['name']} row {k}: {d}", step=k)
    ctx.extra["meaning_engines"] = len(cases)
    ctx.extra["meaning_rows"] = nrows
    # propositions read the value the variable holds NOW: the lifecycle behaviours with an edit of the configuration between two steps
    # (spec/MC_Lifecycle, EditMode: a range locked or narrowed after the value was assigned, operators and term parameters replaced, ...)
    from . import c13

    ebehs, ecases = c13.edit_behaviours(ctx, 4)
    c13.replay_behaviours(ctx, fl, ebehs, ecases, prefix="Rule.activate_with/edited-after-use/")
    ctx.extra["edit_behaviours"] = len(ebehs)
    ctx.exhaustive = True
    ctx.rule = ("TLC enumerates 1,548 antecedent trees x 3 parenthesis styles (x spaced / unspaced parentheses in the replay); every text is loaded by Rule.create and "
                "its postfix compared; the trees are evaluated by the specification inside engines for 53 of the 63 operator pairs (a subset of the chunks; the 10 compositions of a discontinuous with a quotient norm are ill-conditioned in binary64) or "
                "distinguishable pairs, 3 weights and 30 rows (NaN, out of range), and the real rule degrees compared; non-trivial = at least one connective")
    ctx.assumptions += ["output-variable propositions read the activations contributed by two earlier rules of the same block",
                        "rows whose expectation needs an irrational value are skipped (none with the hedges used here)"]


def replay(v) -> int:
    fl = core.import_fuzzylite()
    c = v["case"]
    if "text" in c:
        syn = fl.Engine("syn", input_variables=[fl.InputVariable("a", terms=[fl.Triangle("lo", 0, 0.25, 1), fl.Ramp("hi", 0, 1), fl.Rectangle("t", 0, 1)])],
                        output_variables=[fl.OutputVariable("y", terms=[fl.Constant("lo", 0.0), fl.Constant("hi", 1.0)]), fl.OutputVariable("z", terms=[fl.Constant("t", 0.5)])])
        try:
            got = fl.Rule.create(f"if {c['text']} then z is t", syn).antecedent.postfix()
        except Exception as ex:
            got = f"{type(ex).__name__}: {ex}"
        print(f"'{c['text']}' -> '{got}' (expected '{v['expected']}')")
        if got != v["expected"]:
            print("VIOLATION property=C06 replay=(given)")
            return 1
        return 0
    from . import c01

    v["property"] = "C06"
    rc = c01.replay(v)
    return rc
