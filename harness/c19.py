"""C19  An engine reported ready can be processed.

1. TLC: spec/MC_Readiness - base engines (rules with / without and / or, integral / weighted outputs, one / two
   rule blocks, disabled rule / output) x every subset of the removable operators x finite rows:
   ReadyErrors = {} and activation methods present => processing does not raise (derived from Engine.tla);
   an operator whose removal alone makes processing raise is reported.  The instance with the disjunction
   test nested under the conjunction test (the shape of the code at the pinned commit) is the canary: TLC
   itself produces the ready-but-raises counterexample.
2. Replay: Engine.is_ready(errors) against the model's error set (by operator and component, not by message
   text) and process() raising or not on every row, for every subset.
"""
from __future__ import annotations

import copy
import re

from . import core
from .catalogue import in_a, in_b, out_ts, out_tsk, out_y, out_z
from .edl import AND, C, OR, P, block, build_engine, engine, rule, term
from .tlc import MachineryError, write_cfg
from .xreal import Q, to_float


def bases():
    es = []
    r_and = rule(AND(P("a", "lo"), P("b", "hi")), [C("y", "s")])
    r_or = rule(OR(P("a", "md"), P("b", "lo")), [C("y", "m")])
    r_plain = rule(P("a", "hi"), [C("y", "l")])
    r_mixed = rule(AND(OR(P("a", "hi"), P("b", "mid")), P("b", "lo", "very")), [C("y", "l")])
    es.append(engine("plain", [in_a(), in_b()], [out_y()], [block("rb", [copy.deepcopy(r_plain)])]))
    es.append(engine("and-only", [in_a(), in_b()], [out_y()], [block("rb", [copy.deepcopy(r_and), copy.deepcopy(r_plain)])]))
    es.append(engine("or-only", [in_a(), in_b()], [out_y()], [block("rb", [copy.deepcopy(r_or), copy.deepcopy(r_plain)])]))
    es.append(engine("and-or", [in_a(), in_b()], [out_y()], [block("rb", [copy.deepcopy(r_and), copy.deepcopy(r_or), copy.deepcopy(r_mixed)])]))
    es.append(engine("weighted", [in_a(), in_b()], [out_ts()],
                     [block("rb", [rule(AND(P("a", "lo"), P("b", "hi")), [C("u", "c1")]), rule(OR(P("a", "md"), P("b", "lo")), [C("u", "c2")])])]))
    es.append(engine("two-blocks-hybrid", [in_a(), in_b()], [out_y(), out_ts()],
                     [block("first", [copy.deepcopy(r_or), rule(P("b", "hi"), [C("u", "c3")])]),
                      block("second", [rule(AND(P("a", "hi"), P("y", "m")), [C("u", "c1"), C("y", "s")])])]))
    # an output variable without aggregation operator (weighted defuzzifier) read in an antecedent after two rules concluded on the same term
    es.append(engine("weighted-output-in-antecedent", [in_a(), in_b()], [out_ts(), out_y()],
                     [block("rb", [rule(P("a", "lo"), [C("u", "c1")]), rule(P("b", "hi"), [C("u", "c1")], weight="1/2"), rule(P("a", "md"), [C("u", "c2")]),
                                   rule(OR(P("u", "c1"), P("u", "c2", "not")), [C("y", "m")]), rule(AND(P("u", "c1"), P("a", "hi")), [C("y", "l")])])]))
    # two weighted outputs of different kinds (Tsukamoto terms, then Takagi-Sugeno terms), both left on Automatic
    es.append(engine("weighted-two-kinds", [in_a(), in_b()], [out_tsk(), out_ts()],
                     [block("rb", [rule(P("a", "lo"), [C("w", "up"), C("u", "c1")]), rule(P("b", "hi"), [C("u", "lin"), C("w", "dn")], weight="1/2"),
                                   rule(P("a", "hi"), [C("w", "cv")])], implication="none")]))
    # degenerate but legal parameters: a sigmoid of slope zero (a constant 1/2) declares itself monotonic like every sigmoid
    w = out_tsk()
    w["terms"] += [term("flat", "Sigmoid", "1/2", 0), term("flatneg", "Sigmoid", "1/2", "-0")]
    es.append(engine("tsukamoto-flat-sigmoid", [in_a(), in_b()], [w],
                     [block("rb", [rule(P("a", "lo"), [C("w", "up")]), rule(P("b", "hi"), [C("w", "flat")]), rule(P("a", "hi"), [C("w", "flatneg")])], implication="none")]))
    e = engine("disabled-rule-uses-or", [in_a(), in_b()], [out_y()], [block("rb", [copy.deepcopy(r_plain), dict(copy.deepcopy(r_or), enabled=False)])])
    es.append(e)
    e = engine("disabled-output", [in_a(), in_b()], [out_y(enabled=False), out_z()],
               [block("rb", [rule(P("a", "hi"), [C("y", "l"), C("z", "p")]), rule(OR(P("a", "lo"), P("b", "lo")), [C("z", "n")])])])
    es.append(e)
    # the quotient families as operators of a ready engine (their formulas divide: an implementation detail such as an output buffer
    # shaped like ONE operand raises where Minimum / Maximum never would)
    es.append(engine("quotient-operators", [in_a(), in_b()], [out_y(aggregation="HamacherSum", resolution=2)],
                     [block("rb", [copy.deepcopy(r_and), copy.deepcopy(r_or), copy.deepcopy(r_plain)], conjunction="EinsteinProduct", disjunction="NormalizedSum", implication="HamacherProduct")]))
    es.append(engine("quotient-operators-2", [in_a(), in_b()], [out_y(aggregation="EinsteinSum", resolution=2)],
                     [block("rb", [copy.deepcopy(r_and), copy.deepcopy(r_or), copy.deepcopy(r_plain)], conjunction="HamacherProduct", disjunction="HamacherSum", implication="EinsteinProduct")]))
    # a connective that occurs only in the RIGHT branch of an antecedent (`p or q and r` binds as or(p, and(q, r)); `p and (q or r)`), or only below two levels
    es.append(engine("and-only-in-right-branch", [in_a(), in_b()], [out_y()],
                     [block("rb", [copy.deepcopy(r_plain), rule(OR(P("a", "md"), AND(P("b", "lo"), P("a", "hi", "not"))), [C("y", "m")])])]))
    es.append(engine("or-only-in-right-branch", [in_a(), in_b()], [out_y()],
                     [block("rb", [copy.deepcopy(r_plain), rule(AND(P("a", "lo"), OR(P("b", "hi"), P("a", "md"))), [C("y", "s")])])]))
    es.append(engine("and-only-two-levels-down", [in_a(), in_b()], [out_y()],
                     [block("rb", [rule(OR(P("a", "md"), OR(P("b", "mid"), AND(P("b", "lo"), P("a", "hi")))), [C("y", "m")])])]))
    es.append(engine("or-only-two-levels-down-left", [in_a(), in_b()], [out_y()],
                     [block("rb", [rule(AND(AND(OR(P("b", "hi"), P("a", "md")), P("a", "lo")), P("b", "mid", "not")), [C("y", "s")])])]))
    return es


def removable(E):
    rem = []
    for b in range(len(E["blocks"])):
        for f in ("conjunction", "disjunction", "implication"):
            rem.append({"where": "block", "idx": b + 1, "field": f})
    for o in range(len(E["outputs"])):
        for f in ("aggregation", "defuzzifier"):
            rem.append({"where": "output", "idx": o + 1, "field": f})
    return rem


ROWS = [[Q(1, 4), Q(3, 4)], [Q(5, 8), Q(1, 8)], [Q(0), Q(1)], [Q(1), Q(0)], [Q(7, 8), Q(1, 2)]]


def tags_of(e, errors):
    """messages of Engine.is_ready -> {(kind, index)}"""
    out = set()
    onames = [v.name for v in e.output_variables]
    bnames = [b.name for b in e.rule_blocks]
    for m in errors:
        mo = re.match(r"Output variable '(.*?)' does not have any (terms|defuzzifier|aggregation operator)", m)
        mb = re.match(r"Rule block '(.*?)' does not have any (rules|conjunction operator|disjunction operator|implication operator)", m)
        if mo:
            out.add(({"terms": "no-terms", "defuzzifier": "defuzzifier", "aggregation operator": "aggregation"}[mo.group(2)], onames.index(mo.group(1)) + 1))
        elif mb:
            out.add(({"rules": "no-rules"}.get(mb.group(2), mb.group(2).split()[0]), bnames.index(mb.group(1)) + 1))
        elif "does not have any input variables" in m:
            out.add(("no-inputs", 0))
        elif "does not have any output variables" in m:
            out.add(("no-outputs", 0))
        elif "does not have any rule blocks" in m:
            out.add(("no-blocks", 0))
        else:
            out.add(("unrecognised:" + m, -1))
    return out


def run(ctx: core.Ctx):
    fl = core.import_fuzzylite()
    cases = []
    for i, E in enumerate(bases()):
        cases.append({"id": i, "engine": E, "rows": ROWS, "removable": removable(E)})
    head = "SPECIFICATION Spec\nCONSTANTS Emit = {e}\n  Nested = {n}\n"
    runs = ctx.tlc_cases("MC_Readiness", write_cfg("MC_Readiness", head.format(e="TRUE", n="FALSE") + "INVARIANT ReadyImpliesProcessable\nINVARIANT NeededIsReported\nINVARIANT EmitInv\nCHECK_DEADLOCK FALSE\n"),
                         cases, label="ready", workers=16, timeout=3000)
    emitted = []
    for r in runs:
        ctx.expect_holds(r, "MC_Readiness")
        emitted += r.emitted
    # the code-shaped nesting is the canary: TLC must find the ready-but-raises configuration itself
    cr = ctx.tlc_cases("MC_Readiness", write_cfg("MC_Readiness_canary", head.format(e="FALSE", n="TRUE") + "INVARIANT ReadyImpliesProcessable\nCHECK_DEADLOCK FALSE\n"),
                       cases[2:4], label="ready-canary", workers=16)
    if not any(r.violated for r in cr):
        raise MachineryError("canary Nested was expected to violate ReadyImpliesProcessable")
    ctx.extra.setdefault("canaries", []).append({"canary": "NestedDisjunction", "violated": "ReadyImpliesProcessable"})
    expect = sum(2 ** len(c["removable"]) for c in cases)
    if len(emitted) != expect:
        raise MachineryError(f"expected {expect} configurations, got {len(emitted)}")
    live, live_rev = {}, {}
    # second pass in the opposite order (most operators removed first): a component that remembers the configuration of its FIRST
    # use shows only if that first use was an incomplete one
    by_removed = sorted(emitted, key=lambda r_: (r_["cid"], -sum(r_["mask"]), r_["mask"]))
    for rec, modes in [(r_, (False, True, "long-lived")) for r_ in emitted] + [(r_, ("long-lived-rev",)) for r_ in by_removed]:
        case = cases[rec["cid"]]
        E = copy.deepcopy(case["engine"])
        removed = [r for r, m in zip(case["removable"], rec["mask"]) if m]
        for shared in modes:
            if shared in ("long-lived", "long-lived-rev"):
                pool_ = live if shared == "long-lived" else live_rev
                # ONE engine per base case lives through all its configurations: before each, every operator / defuzzifier is
                # re-assigned from a freshly built donor (reconfiguration in place, rules not re-loaded), then some are removed
                e = pool_.setdefault(rec["cid"], build_engine(fl, case["engine"]))
                donor = build_engine(fl, case["engine"])
                for comp, dcomp, fields in [(b_, d_, ("conjunction", "disjunction", "implication")) for b_, d_ in zip(e.rule_blocks, donor.rule_blocks)] + \
                                           [(v_, d_, ("aggregation", "defuzzifier")) for v_, d_ in zip(e.output_variables, donor.output_variables)]:
                    for f_ in fields:
                        setattr(comp, f_, getattr(dcomp, f_))
            else:
                e = build_engine(fl, case["engine"])
            if shared is True:
                # (this pass also writes the rules with tabs, line breaks and runs of blanks between their tokens: any whitespace separates tokens)
                for b_ in e.rule_blocks:
                    for j_, r_ in enumerate(list(b_.rules)):
                        if r_.is_loaded():
                            en_, w_ = r_.enabled, r_.weight
                            b_.rules[j_] = fl.Rule.create(r_.text.replace(" and ", "\tand\n ").replace(" or ", "\n\tor  ").replace(" then ", "\tthen\t"), e)
                            b_.rules[j_].enabled, b_.rules[j_].weight = en_, w_
                # components configured the way Engine.configure does it: ONE operator / defuzzifier object serves every
                # block / output that uses this class with these parameters
                pool = {}
                for comp, fields in [(b_, ("conjunction", "disjunction", "implication")) for b_ in e.rule_blocks] + [(v_, ("aggregation", "defuzzifier")) for v_ in e.output_variables]:
                    for f_ in fields:
                        x_ = getattr(comp, f_)
                        if x_ is not None:
                            setattr(comp, f_, pool.setdefault(repr(x_), x_))
            for r in removed:
                comp = e.rule_blocks[r["idx"] - 1] if r["where"] == "block" else e.output_variables[r["idx"] - 1]
                setattr(comp, r["field"], None)
            errors = []
            ready = e.is_ready(errors)
            got = tags_of(e, errors)
            want = {(t[0], t[1]) for t in rec["errors"]}
            ctx.count()
            desc = {"engine": case["engine"]["name"], "shared_components": shared, "removed": [f"{r['where']}{r['idx']}.{r['field']}" for r in removed]}
            if ready != (not errors):
                ctx.violation("Engine.is_ready/return-value", desc, not errors, ready)
            for t in sorted(want - got):
                ctx.violation(f"Engine.is_ready/not-reported/{t[0]}", dict(desc, errors=errors), sorted(want), sorted(got), note=f"missing {t[0]} of component {t[1]} is needed but not reported")
            for t in sorted(got - want):
                if t[0].startswith("unrecognised"):
                    ctx.violation("Engine.is_ready/unrecognised-message", dict(desc, errors=errors), sorted(want), t[0])
                else:
                    ctx.extra["model_divergence_over_reported"] = ctx.extra.get("model_divergence_over_reported", 0) + 1
            for k, row in enumerate(case["rows"]):
                raised = None
                try:
                    for iv, x in zip(e.input_variables, row):
                        iv.value = to_float(x)
                    e.process()
                except Exception as ex:  # noqa
                    raised = f"{type(ex).__name__}: {ex}"
                ctx.count()
                if not errors and raised:
                    ctx.violation(f"Engine.process/ready-but-raises/{raised.split(':')[0]}", dict(desc, row=[to_float(x) for x in row]), "completes", raised,
                                  note="is_ready reported no error, process() raised")
                if bool(raised) != bool(rec["raises"][k]):
                    if raised and not rec["raises"][k]:
                        ctx.violation(f"Engine.process/raises-unexpectedly", dict(desc, row=[to_float(x) for x in row]), "completes", raised)
                    else:
                        ctx.extra["model_divergence_raise"] = ctx.extra.get("model_divergence_raise", 0) + 1
        ctx.traces += 1
        ctx.case((rec["cid"], tuple(rec["mask"])), nontrivial=any(rec["mask"]))
        if len(ctx.samples) < 3 and sum(rec["mask"]) == 2:
            ctx.sample({"engine": case["engine"]["name"], "removed": desc["removed"], "errors": rec["errors"], "raises_per_row": rec["raises"]})
    ctx.exhaustive = True
    ctx.rule = (f"{len(cases)} base engines x all {expect} subsets of removable operators (conjunction, disjunction, implication per block; aggregation, defuzzifier per "
                f"output) x {len(ROWS)} finite rows; non-trivial = at least one operator removed")
    ctx.assumptions += ["engines are well typed (no mixture of term kinds under one weighted output) and every rule block keeps its activation method, as the property assumes",
                        "errors the code reports beyond the model's set (over-reporting) are counted as model_divergence, not alarms"]


def replay(v) -> int:
    print("configuration:", v["case"])
    print("expected", v["expected"], "observed", v["observed"])
    print("re-run ./check C19 for the verdict")
    return 1
