"""C10  Weighted defuzzifiers compute the grouped weighted average / sum.

1. TLC: spec/MC_Weighted - every fuzzy output of 0..2 (thorough 3) activations over 5 terms x 4 degrees,
   11 aggregation settings, 3 type settings, both defuzzifiers: zero-degree invariance, NaN
   characterisation, average of constants within bounds, type-inference table, grouping shape.
2. Replay on real Aggregated/Activated objects: defuzzify, grouped_terms, activation_degree; scalar
   degrees and the same cases stacked as batches.
3. Seeded longer lists (3-6 activations, Concave/SShape terms) through the case file; tiny and random
   double degrees through the exact mirror (cross-checked against TLC on every enumerated case).
"""
from __future__ import annotations

import json
import math
import random
from fractions import Fraction as F

import numpy as np

from . import core, pyref
from .tlc import MachineryError, write_cfg
from .xreal import from_number, to_float, to_fraction

INVS = ["ZeroDegreeInvariance", "NaNExactly", "AverageOfConstants", "InferenceTable", "GroupingShape"]
AGGRS = ["AlgebraicSum", "BoundedSum", "DrasticSum", "EinsteinSum", "HamacherSum", "Maximum", "NilpotentMaximum", "NormalizedSum", "UnboundedSum", "none"]


def terms(fl):
    return {"c1": fl.Constant("c1", -0.5), "c2": fl.Constant("c2", 0.75), "up": fl.Ramp("up", 0.0, 1.0), "dn": fl.Ramp("dn", 1.0, 0.0, 0.5),
            "cv": fl.Concave("cv", 0.25, 0.75), "ss": fl.SShape("ss", 0.0, 1.0), "tri": fl.Triangle("tri", 0.0, 0.5, 1.0)}


KIND = {"c1": "TakagiSugeno", "c2": "TakagiSugeno", "up": "Tsukamoto", "dn": "Tsukamoto", "cv": "Tsukamoto", "ss": "Tsukamoto", "tri": "Automatic"}


def mirror_fns(T):
    def tv(n, w):
        v = float(T[n].membership(float(w)))
        return F(v) if math.isfinite(v) else v

    def tz(n, w):
        v = float(T[n].tsukamoto(float(w)))
        return F(v) if math.isfinite(v) else v

    return tv, tz


def defuzz(fl, T, case, degrees=None):
    """returns ('raises', type name) or ('value', float or array)"""
    acts = case["acts"]
    ds = degrees if degrees is not None else [to_float(a["d"]) for a in acts]
    agg = fl.Aggregated("o", 0.0, 1.0, None if case["aggr"] == "none" else getattr(fl, case["aggr"])(),
                        [fl.Activated(T[a["t"]], d, None) for a, d in zip(acts, ds)])
    dz = getattr(fl, case["cls"])(type=case["type"])
    try:
        return "value", dz.defuzzify(agg), agg
    except Exception as ex:  # noqa
        return "raises", type(ex).__name__, agg


def feq(a, b, tol=1e-9):
    a, b = float(a), float(b)
    if math.isnan(a) or math.isnan(b):
        return math.isnan(a) and math.isnan(b)
    if math.isinf(a) or math.isinf(b):
        return a == b
    return abs(a - b) <= tol * max(1.0, abs(a), abs(b))


_LONG = {}


def defuzz_long_lived(fl, T, case):
    """the same case on ONE long-lived fuzzy output / defuzzifier pair that is cleared and refilled between cases
    (what OutputVariable.fuzzy is during the life of an engine)"""
    if "agg" not in _LONG:
        _LONG["agg"] = fl.Aggregated("o", 0.0, 1.0, None, [])
        _LONG["dz"] = {k: getattr(fl, k)() for k in ("WeightedAverage", "WeightedSum")}
    agg, dz = _LONG["agg"], _LONG["dz"][case["cls"]]
    agg.clear()
    agg.aggregation = None if case["aggr"] == "none" else getattr(fl, case["aggr"])()
    agg.terms.extend(fl.Activated(T[a["t"]], to_float(a["d"]), None) for a in case["acts"])
    dz.type = fl.WeightedDefuzzifier.Type[case["type"]]
    try:
        return "value", dz.defuzzify(agg)
    except Exception as ex:  # noqa
        return "raises", type(ex).__name__


def check_case(ctx, fl, T, c, where):
    kind, val, agg = defuzz(fl, T, c)
    # crisp degrees given as integers (Python ints, integer numpy scalars, one integer batch row): the numbers are the same
    fds = [to_float(a["d"]) for a in c["acts"]]
    if fds and all(d in (0.0, 1.0) for d in fds):
        for label, ds_ in (("python-int", [int(d) for d in fds]), ("numpy-int", [np.int64(d) for d in fds]), ("integer-batch", [np.array([int(d), int(d)]) for d in fds])):
            ki, vi, _ = defuzz(fl, T, c, degrees=ds_)
            ctx.count()
            same = ki == kind and (kind != "value" or all(feq(float(x), float(np.asarray(val)), 1e-12) for x in np.atleast_1d(np.asarray(vi, dtype=float))))
            if not same:
                ctx.violation(f"{where}/integer-degrees/{label}/{c['cls']}", {k: c[k] for k in ("acts", "aggr", "type", "cls")}, val if kind != "value" else float(np.asarray(val)),
                              vi if ki != "value" else np.asarray(vi, dtype=float).tolist(), note=f"degrees given as {label} give another result than the same degrees as floats")
    k2, v2 = defuzz_long_lived(fl, T, c)
    ctx.count(2)
    if k2 != kind or (kind == "value" and not feq(float(np.asarray(val)), float(np.asarray(v2)), 0.0)):
        ctx.violation(f"{where}/long-lived-output-differs/{c['cls']}/{c['type']}", {k: c[k] for k in ("acts", "aggr", "type", "cls")},
                      [kind, str(val)], [k2, str(v2)], note="a cleared and refilled fuzzy output gives a different result than a fresh one")
    case = {k: c[k] for k in ("acts", "aggr", "type", "cls")}
    zero = any(a["d"] == [0, 0, 1] for a in c["acts"])
    sig = f"{c['cls']}/{c['type']}/{'zero-degree' if zero else 'positive'}"
    if c["raises"]:
        if kind != "raises":
            ctx.violation(f"{where}/refusal/{sig}", case, "an exception (mixed or unsupported term kinds)", float(np.asarray(val)))
        return
    if kind == "raises":
        ctx.violation(f"{where}/raises/{sig}", case, to_float(c["v"]) if c["v"][0] < 3 else "value", val)
        return
    if c["v"][0] == 3:
        ctx.extra["skipped_irrational"] = ctx.extra.get("skipped_irrational", 0) + 1
        return
    got = float(np.asarray(val))
    # the S-shape inverse has a square-root singularity at the height: a rounding of 1e-16 in the grouped degree is 1e-8 in z
    tol = 1e-7 if any(a["t"] == "ss" for a in c["acts"]) and c["type"] != "TakagiSugeno" else 1e-9
    if not feq(got, to_float(c["v"]), tol):
        ctx.violation(f"{where}/value/{sig}", case, to_float(c["v"]), got, note=f"{c['cls']}({c['type']}, aggregation {c['aggr']}) on {[(a['t'], to_float(a['d'])) for a in c['acts']]}")
    # grouping
    g = agg.grouped_terms()
    want = [(x["t"], to_float(x["d"])) for x in c["groups"]]
    have = [(n, float(np.asarray(a.degree))) for n, a in g.items()]
    if [n for n, _ in want] != [n for n, _ in have] or not all(feq(a[1], b[1]) for a, b in zip(want, have)):
        ctx.violation(f"{where}/grouped_terms/{c['aggr']}", case, want, have)
    for n, d in want:
        if not feq(float(np.asarray(agg.activation_degree(T[n]))), d):
            ctx.violation(f"{where}/activation_degree/{c['aggr']}", case, d, float(np.asarray(agg.activation_degree(T[n]))))


def run(ctx: core.Ctx):
    fl = core.import_fuzzylite()
    T = terms(fl)
    rng = random.Random(ctx.seed)
    ml = 2 if ctx.quick else 3
    head = "SPECIFICATION Spec\nCONSTANTS MaxLen = {ml}\n  FromFile = {ff}\n  Emit = {e}\n"
    if ml > 2:
        ctx.expect_holds(ctx.tlc("MC_Weighted", write_cfg("MC_Weighted3", head.format(ml=ml, ff="FALSE", e="FALSE") + "".join(f"INVARIANT {i}\n" for i in INVS) + "CHECK_DEADLOCK FALSE\n"), workers=16, timeout=3400), "MC_Weighted")
    g = ctx.tlc("MC_Weighted", write_cfg("MC_Weighted", head.format(ml=2, ff="FALSE", e="TRUE") + "".join(f"INVARIANT {i}\n" for i in INVS) + "INVARIANT EmitInv\nCHECK_DEADLOCK FALSE\n"), workers=16, timeout=3000)
    ctx.expect_holds(g, "MC_Weighted")
    if len(g.emitted) < 20000:
        raise MachineryError(f"only {len(g.emitted)} weighted cases emitted")
    tv, tz = mirror_fns(T)
    for i, c in enumerate(g.emitted):
        check_case(ctx, fl, T, c, "enumerated")
        ctx.case(("e", i), nontrivial=len(c["acts"]) > 0 and not c["raises"])
        # mirror cross-check (exact part only)
        if c["v"][0] < 3:
            k, v = pyref.weighted(c["cls"], c["type"], [(a["t"], to_fraction(a["d"])) for a in c["acts"]], c["aggr"], tv, tz, KIND.get)
            if (k == "raises") != c["raises"] or (k == "value" and not c["raises"] and not feq(float(v), to_float(c["v"]), 1e-12)):
                raise MachineryError(f"pyref.weighted disagrees with the specification on {c}")
    ctx.traces += len(g.emitted)
    ctx.sample({k: g.emitted[9000][k] for k in ("acts", "aggr", "type", "cls", "raises", "v")})
    # seeded longer lists through the case file
    keys = list(T)
    degs = [F(0), F(1, 8), F(1, 2), F(1), F(1, 4), F(3, 4)]
    file_cases = []
    for _ in range(1500 if ctx.quick else 12000):
        fam = rng.choice([["c1", "c2"], ["up", "dn", "cv", "ss"], ["tri", "tri"], keys])
        n = rng.randint(3, 6)
        ag = rng.choice(AGGRS)
        dd = degs if ag in ("Maximum", "BoundedSum", "DrasticSum", "NilpotentMaximum", "UnboundedSum", "none") else [F(0), F(1, 2), F(1)]
        if ag == "HamacherSum":
            dd = [F(0), F(1, 2)]  # (a+b-2ab)/(1-ab) cancels catastrophically next to (1,1): repeated degrees of 1 are ill-conditioned in binary64
        file_cases.append({"acts": [{"t": rng.choice(fam), "d": from_number(rng.choice(dd))} for _ in range(n)],
                           "aggr": ag, "type": rng.choice(["Automatic", "TakagiSugeno", "Tsukamoto"]), "cls": rng.choice(["WeightedAverage", "WeightedSum"])})
    gfs = ctx.tlc_cases("MC_Weighted", write_cfg("File_Weighted", head.format(ml=0, ff="TRUE", e="TRUE") + "".join(f"INVARIANT {i}\n" for i in INVS) + "INVARIANT EmitInv\nCHECK_DEADLOCK FALSE\n"),
                        file_cases, label="weighted", workers=16, timeout=3000)
    file_emitted = []
    for gf in gfs:
        ctx.expect_holds(gf, "MC_Weighted[file]")
        file_emitted += gf.emitted
    for i, c in enumerate(file_emitted):
        check_case(ctx, fl, T, c, "seeded")
        ctx.case(("f", i), nontrivial=not c["raises"])
    ctx.traces += len(file_emitted)
    # batches: cases with the same terms / settings stacked along the batch axis must give the per-case results
    groups = {}
    for c in list(g.emitted) + file_emitted:
        if not c["raises"] and c["v"][0] < 3 and c["acts"]:
            groups.setdefault((tuple(a["t"] for a in c["acts"]), c["aggr"], c["type"], c["cls"]), []).append(c)
    nb = 0
    for key, cs in groups.items():
        if len(cs) < 2:
            continue
        nb += 1
        if ctx.quick and nb % 5:
            continue
        cols = [np.array([to_float(c["acts"][j]["d"]) for c in cs]) for j in range(len(key[0]))]
        kind, val, _ = defuzz(fl, T, cs[0], degrees=cols)
        ctx.count()
        want = np.array([to_float(c["v"]) for c in cs])
        case = {"acts": [a["t"] for a in cs[0]["acts"]], "aggr": key[1], "type": key[2], "cls": key[3], "batch": len(cs)}
        if kind == "raises":
            ctx.violation(f"batch/raises/{key[3]}", case, want.tolist(), val)
        else:
            got = np.atleast_1d(np.asarray(val, dtype=float))
            if got.shape != want.shape or not all(feq(a, b) for a, b in zip(got, want)):
                ctx.violation(f"batch/value/{key[3]}/{key[2]}", case, want.tolist(), got.tolist(), note="a batch of fuzzy outputs does not give the per-output results")
            # the same batch with its degrees given as column vectors (n, 1): still one value per fuzzy output
            if kind != "raises" and nb % 3 == 0:
                kind2, val2, _ = defuzz(fl, T, cs[0], degrees=[c_[:, None] for c_ in cols])
                ctx.count()
                if kind2 == "raises":
                    ctx.extra["column_vector_degrees_refused"] = ctx.extra.get("column_vector_degrees_refused", 0) + 1
                else:
                    got2 = np.asarray(val2, dtype=float).reshape(-1)
                    if got2.shape != want.shape or not all(feq(a, b) for a, b in zip(got2, want)):
                        ctx.violation(f"batch/value/{key[3]}/{key[2]}/column-vector-degrees", case, want.tolist(), got2.tolist(),
                                      note="degrees given as (n, 1) column vectors do not give the per-output results")
    # tiny and random double degrees through the exact mirror
    n = 1500 if ctx.quick else 15000
    for i in range(n):
        fam = rng.choice([["c1", "c2"], ["up", "dn"], ["tri"], ["c1", "c2", "c1"]])
        m = rng.randint(1, 5) if i % 10 else rng.choice([17, 40, 70, 130])      # every tenth list is long: a term activated dozens of times
        tiny = i % 3 == 0
        ds = [(rng.choice([1e-9, 2e-9, 1e-12, 3e-7, 0.0, 1e-17, 3e-17, 1e-100, 1e-300]) if tiny else rng.choice([rng.random(), rng.random(), 0.0, 1.0])) for _ in range(m)]
        c = {"acts": [{"t": rng.choice(fam), "d": from_number(d)} for d in ds], "aggr": rng.choice(["none", "Maximum", "AlgebraicSum", "BoundedSum"]),
             "type": rng.choice(["Automatic", "Automatic", "TakagiSugeno", "Tsukamoto"]), "cls": rng.choice(["WeightedAverage", "WeightedSum"])}
        k, v = pyref.weighted(c["cls"], c["type"], [(a["t"], F(d)) for a, d in zip(c["acts"], ds)], c["aggr"], tv, tz, KIND.get)
        kind, val, _ = defuzz(fl, T, c)
        ctx.count()
        case = dict(c, degrees=ds)
        if k == "raises":
            if kind != "raises":
                ctx.violation("random/refusal", case, "an exception", float(np.asarray(val)))
        elif kind == "raises":
            ctx.violation("random/raises", case, float(v), val)
        elif not feq(float(np.asarray(val)), float(v), 1e-9):
            ctx.violation(f"random/value/{c['cls']}/{'tiny' if tiny else 'uniform'}", case, float(v), float(np.asarray(val)))
    ctx.exhaustive = True
    ctx.rule = (f"TLC enumerates activation lists of length 0..{ml} over 5 terms x 4 degrees x 10 aggregation settings x 3 types x 2 defuzzifiers "
                "(replayed up to length 2), plus seeded lists of 3-6 activations (Concave, SShape too) evaluated by TLC from a case file; batches stack cases "
                "with equal settings; tiny / random double degrees go through the exact mirror; non-trivial = non-empty and not refused")
    ctx.assumptions += ["Linear and Function terms are exercised at engine level (C01), not here"]


def replay(v) -> int:
    fl = core.import_fuzzylite()
    T = terms(fl)
    c = v["case"]
    if "batch" in c or not isinstance(c["acts"][0], dict):
        print("batch case: re-run ./check C10")
        return 2
    ds = c.get("degrees")
    kind, val, _ = defuzz(fl, T, c, degrees=ds)
    print(f"{c['cls']}(type={c['type']}) aggregation={c['aggr']} on {[(a['t'], to_float(a['d'])) for a in c['acts']]} -> {kind} {val}; expected {v['expected']}")
    exp = v["expected"]
    ok = (kind == "raises") == (isinstance(exp, str)) and (kind == "raises" or feq(float(np.asarray(val)), float(exp)))
    if not ok:
        print("VIOLATION property=C10 replay=(given)")
        return 1
    return 0
