"""Fixed catalogue of EDL engines, each aimed at one wiring aspect of the inference pipeline (C01), plus the
input rows that exercise them.  Parameters are dyadic so that the specification's values are exact."""
from __future__ import annotations

import copy
import itertools

from .edl import AND, C, OR, P, X, activation, block, engine, fbin, fn, fnum, fvar, out, rule, term, var
from .xreal import NAN, NINF, PINF, Q


def in_a(**kw):
    return var("a", 0, 1, [term("lo", "Triangle", 0, "1/4", "1/2"), term("md", "Trapezoid", "1/4", "1/2", "5/8", "7/8"),
                           term("hi", "Ramp", "1/2", 1)], **kw)


def in_b(**kw):
    return var("b", 0, 1, [term("lo", "ZShape", 0, "1/2"), term("hi", "SShape", "1/2", 1), term("mid", "Rectangle", "1/4", "3/4")], **kw)


def out_y(**kw):
    return out("y", 0, 1, [term("s", "Triangle", 0, "1/4", "1/2"), term("m", "Triangle", "1/4", "1/2", "3/4", h="3/4"),
                           term("l", "Trapezoid", "1/2", "3/4", 1, 1)], **kw)


def out_z(**kw):
    kw.setdefault("defuzzifier", "Centroid")
    return out("z", -1, 1, [term("n", "Ramp", 0, -1), term("p", "Ramp", 0, 1), term("o", "Triangle", "-1/2", 0, "1/2")], **kw)


def out_ts(name="u", **kw):
    kw.setdefault("defuzzifier", "WeightedAverage")
    kw.setdefault("aggregation", "none")
    return out(name, -2, 2, [term("c1", "Constant", "-1/2"), term("c2", "Constant", "3/4"), term("c3", "Constant", "7/4"),
                            term("lin", "Linear", "1/2", "-1/4", "1/8")], **kw)


def out_tsk(name="w", **kw):
    kw.setdefault("defuzzifier", "WeightedAverage")
    kw.setdefault("aggregation", "none")
    return out(name, 0, 1, [term("up", "Ramp", 0, 1), term("dn", "Ramp", 1, 0, h="1/2"), term("cv", "Concave", "1/4", "3/4")], **kw)


BASE_RULES = [
    rule(AND(P("a", "lo"), P("b", "hi")), [C("y", "s")]),
    rule(OR(P("a", "md"), AND(P("b", "lo"), P("a", "hi", "not"))), [C("y", "m")]),
    rule(AND(OR(P("a", "hi"), P("b", "mid")), P("b", "lo", "very")), [C("y", "l")]),
    rule(P("b", "mid", "not", "very"), [C("y", "s")], weight="1/2"),
]


def base(name="base", **kw):
    return engine(name, [in_a(), in_b()], [out_y(**kw.pop("y", {}))], [block("rb", copy.deepcopy(BASE_RULES), **kw)])


def catalogue(quick=True):
    cs = []
    cs.append(base())
    e = base("weights")
    for r, w in zip(e["blocks"][0]["rules"], ["1/2", "1/4", "3/4", "1/8"]):
        r["weight"] = X(w)
    cs.append(e)
    # operators closed on the dyadic rationals keep TLC's 32-bit exact arithmetic small at resolution 8
    cs.append(base("distinguishable-ops", conjunction="AlgebraicProduct", disjunction="BoundedSum", implication="BoundedDifference",
                   y={"aggregation": "AlgebraicSum"}))
    cs.append(base("ops2", conjunction="BoundedDifference", disjunction="AlgebraicSum", implication="AlgebraicProduct",
                   y={"aggregation": "BoundedSum", "defuzzifier": "Centroid", "resolution": 5}))
    cs.append(base("ops3", conjunction="NilpotentMinimum", disjunction="DrasticSum", implication="DrasticProduct",
                   y={"aggregation": "UnboundedSum"}))
    # the quotient families (Einstein, Hamacher, NormalizedSum) at resolution 2
    cs.append(base("ops4", conjunction="EinsteinProduct", disjunction="HamacherSum", implication="HamacherProduct",
                   y={"aggregation": "EinsteinSum", "defuzzifier": "Centroid", "resolution": 2}))
    cs.append(base("ops5", conjunction="HamacherProduct", disjunction="NormalizedSum", implication="EinsteinProduct",
                   y={"aggregation": "NormalizedSum", "defuzzifier": "Centroid", "resolution": 2}))
    for cls, kw in [("First", dict(rules=2, threshold="1/4")), ("Last", dict(rules=1, threshold=0)), ("Highest", dict(rules=2)),
                    ("Lowest", dict(rules=2)), ("Proportional", {}), ("Threshold", dict(comparator=">=", threshold="1/2"))]:
        cs.append(base(f"act-{cls}", act=activation(cls, **kw)))
    e = base("disabled-rule")
    e["blocks"][0]["rules"][1]["enabled"] = False
    cs.append(e)
    e = base("unloaded-rule")
    e["blocks"][0]["rules"][2]["loaded"] = False
    cs.append(e)
    # two blocks, the second disabled / chained
    e = engine("two-blocks-one-disabled", [in_a(), in_b()], [out_y(), out_z()],
               [block("first", copy.deepcopy(BASE_RULES)),
                block("second", [rule(P("a", "hi"), [C("z", "p")]), rule(P("b", "lo"), [C("z", "n"), C("y", "l")])], enabled=False)])
    cs.append(e)
    e = copy.deepcopy(e)
    e["name"] = "two-blocks"
    e["blocks"][1]["enabled"] = True
    cs.append(e)
    e = engine("chained", [in_a(), in_b()], [out_y(), out_z()],
               [block("first", copy.deepcopy(BASE_RULES)),
                block("second", [rule(P("y", "m"), [C("z", "p")]), rule(AND(P("y", "s", "not"), P("a", "lo")), [C("z", "n")], weight="3/4"),
                                 rule(OR(P("y", "l"), P("z", "p")), [C("z", "o")])], implication="AlgebraicProduct")])
    cs.append(e)
    e = engine("output-in-antecedent-same-block", [in_a(), in_b()], [out_y(aggregation="BoundedSum")],
               [block("rb", [rule(P("a", "md"), [C("y", "m")]), rule(P("b", "hi"), [C("y", "m")], weight="1/2"),
                             rule(AND(P("y", "m"), P("a", "hi")), [C("y", "l")]), rule(P("y", "l", "not"), [C("y", "s")], weight="1/4")])])
    cs.append(e)
    for cls, kw in [("Highest", dict(rules=2)), ("First", dict(rules=2, threshold=0)), ("Last", dict(rules=3, threshold=0)), ("Lowest", dict(rules=3)),
                    ("Threshold", dict(comparator=">", threshold="1/8")), ("Proportional", {})]:
        e2 = copy.deepcopy(e)
        e2["name"] = f"output-in-antecedent-{cls}"
        e2["blocks"][0]["activation"] = activation(cls, **kw)
        cs.append(e2)
    e = engine("disabled-input", [in_a(enabled=False), in_b()], [out_y()], [block("rb", copy.deepcopy(BASE_RULES))])
    cs.append(e)
    e = engine("disabled-output", [in_a(), in_b()], [out_y(enabled=False), out_z()],
               [block("rb", [rule(P("a", "hi"), [C("y", "l"), C("z", "p")]), rule(P("b", "lo"), [C("z", "n"), C("y", "s")]),
                             rule(P("y", "l"), [C("z", "o")])])])
    cs.append(e)
    e = engine("shared-conclusions-hedged", [in_a(), in_b()], [out_y(), out_z()],
               [block("rb", [rule(P("a", "hi"), [C("y", "l", "very"), C("z", "p")]),
                             rule(P("b", "lo"), [C("z", "n", "not"), C("y", "s", "extremely"), C("z", "o")], weight="1/2"),
                             rule(P("a", "", "any"), [C("y", "m", "not", "very")], weight="1/4")])])
    cs.append(e)
    e = engine("hedges", [in_a(), in_b()], [out_y()],
               [block("rb", [rule(AND(P("a", "lo", "not", "very"), P("b", "hi", "extremely")), [C("y", "s")]),
                             rule(OR(P("a", "md", "very", "not"), P("b", "", "any")), [C("y", "m")], weight="1/2"),
                             rule(P("a", "hi", "somewhat"), [C("y", "l")]), rule(P("b", "lo", "seldom"), [C("y", "s", "somewhat")]),
                             rule(P("b", "", "not", "any"), [C("y", "l")])])])
    cs.append(e)
    for dz in ["Bisector", "SmallestOfMaximum", "MeanOfMaximum", "LargestOfMaximum", "Centroid"]:
        for r in ([8] if quick and dz != "Centroid" else [1, 2, 5, 8, 16]):
            cs.append(base(f"{dz}-{r}", y={"defuzzifier": dz, "resolution": r}))
    ts_rules = [rule(P("a", "lo"), [C("u", "c1")]), rule(P("a", "md"), [C("u", "c2")], weight="1/2"), rule(P("b", "hi"), [C("u", "lin")]),
                rule(AND(P("a", "hi"), P("b", "lo")), [C("u", "c3")]), rule(P("b", "mid"), [C("u", "c1")], weight="1/4")]
    for dz in ["WeightedAverage", "WeightedSum"]:
        for ag in ["none", "Maximum", "AlgebraicSum"]:
            cs.append(engine(f"ts-{dz}-{ag}", [in_a(), in_b()], [out_ts(defuzzifier=dz, aggregation=ag)], [block("rb", copy.deepcopy(ts_rules), implication="none")]))
    # a missing (NaN) input under one operand of a connective whose other operand is 0 / 1: the value is NaN, not the absorbing element
    cs.append(engine("nan-under-connectives", [in_a(), in_b()], [out_y()],
                     [block("rb", [rule(OR(AND(P("b", "lo"), P("a", "lo")), P("b", "hi")), [C("y", "s")]),
                                   rule(AND(OR(P("b", "hi"), P("a", "md")), P("b", "mid", "not")), [C("y", "m")]),
                                   rule(OR(P("b", "hi"), AND(P("a", "lo"), P("b", "lo"))), [C("y", "l")])])]))
    # a missing input under a rule with several conclusions, a plain one before a hedged one: each conclusion takes the rule's degree
    # (NaN) through its own hedges; the stored degree of the first must not leak into the next
    cs.append(engine("nan-degree-several-conclusions", [in_a(), in_b()], [out_y(), out_z()],
                     [block("rb", [rule(P("a", "lo"), [C("y", "s"), C("z", "n", "not"), C("y", "m", "not", "very")]),
                                   rule(P("b", "hi"), [C("z", "p"), C("y", "l", "not")]),
                                   rule(AND(P("a", "md"), P("b", "lo")), [C("y", "m"), C("z", "o", "not")], weight="1/2")])]))
    # a Constant among the terms of an output under an integral defuzzifier: its membership is its value at every sample point
    yc = out_y()
    yc["terms"] = yc["terms"] + [term("floor", "Constant", "1/4")]
    cs.append(engine("constant-under-integral", [in_a(), in_b()], [yc],
                     [block("rb", [rule(P("a", "lo"), [C("y", "floor")]), rule(P("b", "hi"), [C("y", "s")]), rule(AND(P("a", "hi"), P("b", "lo")), [C("y", "floor"), C("y", "l")], weight="1/2")])]))
    # a term taller than 1 under a clipping implication, concluded by a rule that fires with degree exactly 1: min(1, 3/2 mu) is capped
    yt = out_y()
    yt["terms"][0]["h"] = X("3/2")
    yt["terms"][2]["h"] = X("3/2")       # (the trapezoid is not symmetric: capping it moves the centroid)
    cs.append(engine("tall-term-under-minimum", [in_a(), in_b()], [yt],
                     [block("rb", [rule(P("a", "lo"), [C("y", "s")]), rule(P("b", "mid"), [C("y", "l")]), rule(P("a", "hi"), [C("y", "m")], weight="1/2")])]))
    # rule weights that are not 1 (or 0) but lie within the library's comparison tolerance of it
    near = copy.deepcopy(ts_rules)
    for r, w in zip(near, ["1023/1024", "2047/2048", "1/1024", "4095/4096", "1/2048"]):
        r["weight"] = X(w)
    cs.append(engine("ts-weights-near-one", [in_a(), in_b()], [out_ts(defuzzifier="WeightedSum", aggregation="none")], [block("rb", near, implication="none")]))
    e = base("weights-near-one", act=activation("Threshold", comparator=">=", threshold=1), y={"resolution": 2})
    for r, w in zip(e["blocks"][0]["rules"], ["1023/1024", "1", "2047/2048", "1/1024"]):
        r["weight"] = X(w)
    cs.append(e)
    tsk_rules = [rule(P("a", "lo"), [C("w", "up")]), rule(P("a", "hi"), [C("w", "dn")]), rule(P("b", "hi"), [C("w", "cv")], weight="1/2"),
                 rule(P("b", "mid"), [C("w", "up")], weight="1/4")]
    for dz in ["WeightedAverage", "WeightedSum"]:
        cs.append(engine(f"tsukamoto-{dz}", [in_a(), in_b()], [out_tsk(defuzzifier=dz)], [block("rb", copy.deepcopy(tsk_rules))]))
    cs.append(engine("tsukamoto-fixed-type", [in_a(), in_b()], [out_tsk(type_="Tsukamoto", aggregation="Maximum")], [block("rb", copy.deepcopy(tsk_rules))]))
    cs.append(engine("inverse-tsukamoto", [in_a(), in_b()], [out_tsk(type_="TakagiSugeno")], [block("rb", copy.deepcopy(tsk_rules))]))
    cs.append(engine("hybrid", [in_a(), in_b()], [out_y(), out_ts()],
                     [block("rb", [rule(P("a", "lo"), [C("y", "s"), C("u", "c1")]), rule(P("b", "hi"), [C("u", "lin"), C("y", "l")], weight="1/2"),
                                   rule(OR(P("a", "hi"), P("b", "lo")), [C("y", "m"), C("u", "c3")])])]))
    cs.append(engine("locks", [in_a(lock_range=True), in_b()],
                     [out_y(lock_prev=True, default="1/8"), out_ts(lock_range=True, default="3", lock_prev=False), out_z(lock_prev=True, lock_range=True)],
                     [block("rb", [rule(P("a", "lo"), [C("y", "s"), C("u", "c3")]), rule(P("b", "hi"), [C("u", "lin"), C("z", "p")]),
                                   rule(AND(P("a", "hi"), P("b", "lo")), [C("y", "l"), C("z", "n")])])]))
    # without an aggregation operator (or with UnboundedSum) the accumulated degree of a term concluded several times exceeds 1;
    # later rules read it through hedges, which are applied to it as it is
    for ag in ["none", "UnboundedSum"]:
        cs.append(engine(f"unbounded-output-in-antecedent-{ag}", [in_a(), in_b()], [out_ts(aggregation=ag)],
                         [block("rb", [rule(P("a", "lo"), [C("u", "c1")]), rule(P("b", "hi"), [C("u", "c1")]), rule(P("b", "mid"), [C("u", "c1")], weight="1/2"),
                                       rule(P("u", "c1", "very"), [C("u", "c2")]), rule(AND(P("u", "c1", "not"), P("a", "hi")), [C("u", "c3")]),
                                       rule(OR(P("u", "c1", "extremely", "not"), P("u", "c2")), [C("u", "c3")], weight="1/4")], implication="none")]))
    # Function terms: the formula reads input values, the activation degree (x) and - in the second output - the value the
    # first output has just been given
    f1 = out("f", -4, 4, [term("c1", "Constant", "-1/2"),
                          fn("lin", "2.000 * a - b + 0.500", fbin("add", fbin("sub", fbin("mul", fnum("2.000"), fvar("a")), fvar("b")), fnum("0.500"))),
                          fn("deg", "x * 4.000", fbin("mul", fvar("x"), fnum("4.000")))], defuzzifier="WeightedAverage", aggregation="none")
    f2 = out("g", -4, 4, [fn("half", "f / 2.000 + a", fbin("add", fbin("div", fvar("f"), fnum("2.000")), fvar("a"))), term("c", "Constant", "1")],
             defuzzifier="WeightedSum", aggregation="none")
    cs.append(engine("ts-function", [in_a(), in_b()], [f1, f2],
                     [block("rb", [rule(P("a", "lo"), [C("f", "c1"), C("g", "c")]), rule(P("b", "hi"), [C("f", "lin"), C("g", "half")], weight="1/2"),
                                   rule(AND(P("a", "hi"), P("b", "lo")), [C("f", "deg")]), rule(P("a", "md"), [C("g", "half")], weight="1/4")], implication="none")]))
    cs.append(base("larsen", implication="AlgebraicProduct"))
    for e in cs:
        if e["name"].startswith(("ops", "distinguishable", "larsen", "chained", "ts-", "tsukamoto", "inverse", "hybrid", "locks", "unbounded")):
            e["coarse"] = True
    return cs


def points(v, special=True):
    """input points of a variable: breakpoints of its terms, midpoints, bounds, outside, +-inf, NaN (as XReal triples)"""
    from fractions import Fraction as F

    from .xreal import from_number, to_fraction

    bps = set()
    for t in v["terms"]:
        for p in t["p"]:
            if p[0] == 0:
                bps.add(to_fraction(p))
        if t["k"] in ("SShape", "ZShape"):
            bps.add((to_fraction(t["p"][0]) + to_fraction(t["p"][1])) / 2)
    bps |= {to_fraction(v["min"]), to_fraction(v["max"])}
    s = sorted(bps)
    pts = set(s) | {(a + b) / 2 for a, b in zip(s, s[1:])} | {s[0] - F(1, 2), s[-1] + F(1, 2), (s[0] * 3 + s[1]) / 4 if len(s) > 1 else s[0]}
    res = [from_number(p) for p in sorted(pts)]
    if special:
        res += [list(NAN), list(PINF), list(NINF)]
    return res


COARSE = [Q(0), Q(1, 4), Q(1, 2), Q(3, 4), Q(1), Q(-1, 2), Q(3, 2), list(NAN), list(PINF), list(NINF)]


def rows_for(E, limit=None, rng=None):
    # engines whose operators multiply (product / quotient families) get a coarse input grid: TLC's exact
    # arithmetic is 32-bit and denominators multiply along the pipeline
    pts = [COARSE if E.get("coarse") else points(v) for v in E["inputs"]]
    rows = [list(r) for r in itertools.product(*pts)]
    if limit and len(rows) > limit:
        keep = rng.sample(rows, limit - 4)
        rows = keep + [[p[-1] for p in pts], [p[-2] for p in pts], [p[-3] for p in pts], [p[0] for p in pts]]
    return rows
