"""Forms a legal array argument can take besides a fresh contiguous float64 vector.  Each variant holds the same values as the
1-D array `a`; `back` maps the result to 1-D in the order of `a`, `shape` is the shape the result must have."""
from __future__ import annotations

import numpy as np


def variants(a: np.ndarray, exact32: bool = False):
    a = np.asarray(a, dtype=float)
    ro = a.copy()
    ro.setflags(write=False)
    out = [("read-only", ro, (lambda r: r), a.shape),
           ("reversed-view", a[::-1].copy()[::-1] if False else a.copy()[::-1], (lambda r: r[::-1]), a.shape),
           ("strided-view", np.repeat(a, 2)[::2], (lambda r: r), a.shape),
           ("column", a.copy()[:, None], (lambda r: r[:, 0]), (len(a), 1)),
           ("3-d", a.copy().reshape(1, 1, -1), (lambda r: r.reshape(-1)), (1, 1, len(a)))]
    two = np.stack([a, a])                                   # rows (2, n)
    out.append(("transposed-2-d", np.ascontiguousarray(two.T).T if False else np.ascontiguousarray(np.stack([a, a], axis=1)).T, (lambda r: r[0]), (2, len(a))))
    out.append(("fortran-2-d", np.asfortranarray(two), (lambda r: r[1]), (2, len(a))))
    # an ndarray subclass with its own arithmetic (numpy.matrix: `*` and `**` are matrix products): the values are those of the elements
    import warnings
    with warnings.catch_warnings():
        warnings.simplefilter("ignore")
        out.append(("matrix-subclass-row", np.matrix(a.copy().reshape(1, -1)), (lambda r: np.asarray(r).reshape(-1)), (1, len(a))))
        k = int(len(a) ** 0.5)
        if k >= 2:
            n2 = k * k
            out.append(("matrix-subclass-square", np.matrix(a[:n2].copy().reshape(k, k)), (lambda r, n2=n2, a=a: np.concatenate([np.asarray(r).reshape(-1), np.full(len(a) - n2, np.nan)])), (k, k)))
    if exact32 and np.array_equal(a.astype(np.float32).astype(float), a, equal_nan=True):
        out.append(("float32", a.astype(np.float32), (lambda r: r), a.shape))
    return out


def check_float32(ctx, key, case, fn, a, atol=1e-15):
    """a float32 array must give what its elements give one by one (each element is the double float(v)): the array holds other
    numbers than `a` when a is not representable in float32, so the reference is the function itself on those doubles"""
    a32 = np.asarray(a, dtype=np.float32)
    each = np.array([float(np.asarray(fn(float(v)), dtype=float)) for v in a32])
    ctx.count()
    try:
        r = np.asarray(fn(a32), dtype=float)
    except Exception as ex:
        ctx.violation(f"{key}/argument-form/float32/raises-{type(ex).__name__}", dict(case, form="float32"), "elementwise values", f"{type(ex).__name__}: {ex}")
        return
    if r.shape != a32.shape or not np.allclose(r, each, rtol=0, atol=atol, equal_nan=True):
        ctx.violation(f"{key}/argument-form/float32/values", dict(case, form="float32"), each.tolist(), r.tolist(),
                      note="a float32 array gives other values than its elements evaluated one by one")


def check(ctx, key, case, fn, a, expected, atol=1e-15, exact32=False):
    """fn(arg) -> array-like; compares every variant with `expected` (1-D, order of a) and checks the argument is left unmodified"""
    for label, arg, back, shape in variants(a, exact32):
        keep = np.array(arg, copy=True)
        ctx.count()
        try:
            r = np.asarray(fn(arg), dtype=float)
        except Exception as ex:
            ctx.violation(f"{key}/argument-form/{label}/raises-{type(ex).__name__}", dict(case, form=label), "elementwise values", f"{type(ex).__name__}: {ex}",
                          note=f"a {label} array argument is refused")
            continue
        if not np.array_equal(np.asarray(arg), keep, equal_nan=True):
            ctx.violation(f"{key}/argument-form/{label}/argument-modified", dict(case, form=label), "unchanged", "modified")
        if r.shape != shape:
            ctx.violation(f"{key}/argument-form/{label}/shape", dict(case, form=label), list(shape), list(r.shape))
            continue
        got_ = back(r)
        exp_ = np.asarray(expected, dtype=float)
        if label == "matrix-subclass-square":
            n2_ = shape[0] * shape[1]
            got_, exp_ = got_[:n2_], exp_[:n2_]
        if not np.allclose(got_, exp_, rtol=0, atol=atol, equal_nan=True):
            ctx.violation(f"{key}/argument-form/{label}/values", dict(case, form=label), np.asarray(expected).tolist(), back(r).tolist(),
                          note=f"a {label} array argument gives other values than the same values in a plain vector")
    check_long(ctx, key, case, fn, a, expected, atol)
    # the result belongs to the caller: overwriting it must not change what a later call returns
    try:
        first = fn(np.array(a, dtype=float, copy=True))
        if isinstance(first, np.ndarray) and first.flags.writeable and first.size:
            first[...] = -7.0
            ctx.count()
            again = np.asarray(fn(np.array(a, dtype=float, copy=True)), dtype=float)
            if again.shape != np.asarray(expected).shape or not np.allclose(again, expected, rtol=0, atol=atol, equal_nan=True):
                ctx.violation(f"{key}/result-shared-between-calls", dict(case, form="result overwritten by the caller"), np.asarray(expected).tolist(), again.tolist(),
                              note="after the caller overwrote the array returned by one call, the next call with the same argument returns other values")
    except Exception as ex:
        ctx.violation(f"{key}/result-shared-between-calls/raises-{type(ex).__name__}", dict(case), "values", f"{type(ex).__name__}: {ex}")


LONG = 4100     # longer than any power-of-two chunk up to 4096


def check_long(ctx, key, case, fn, a, expected, atol=1e-15):
    """the same values repeated into a vector of more than 4096 elements: every repetition gives the same values"""
    a = np.asarray(a, dtype=float)
    if len(a) == 0:
        return
    k = -(-LONG // len(a))
    arg = np.tile(a, k)
    ctx.count()
    try:
        r = np.asarray(fn(arg), dtype=float)
    except Exception as ex:
        ctx.violation(f"{key}/argument-form/long-vector/raises-{type(ex).__name__}", dict(case, form="long-vector", length=len(arg)), "elementwise values", f"{type(ex).__name__}: {ex}")
        return
    if r.shape != arg.shape:
        ctx.violation(f"{key}/argument-form/long-vector/shape", dict(case, form="long-vector", length=len(arg)), list(arg.shape), list(r.shape))
    elif not np.allclose(r.reshape(k, len(a)), np.asarray(expected, dtype=float)[None, :], rtol=0, atol=atol, equal_nan=True):
        bad = int(np.flatnonzero(~np.isclose(r, np.tile(np.asarray(expected, dtype=float), k), rtol=0, atol=atol, equal_nan=True))[0])
        ctx.violation(f"{key}/argument-form/long-vector/values", dict(case, form="long-vector", length=len(arg), index=bad), float(np.tile(np.asarray(expected, dtype=float), k)[bad]), float(r[bad]),
                      note=f"in a vector of {len(arg)} elements the value at index {bad} differs from the value of that element alone")


def check_int(ctx, key, case, fn, a, atol=1e-15):
    """a Python int is an acceptable float: fn(1) is fn(1.0), as a scalar and in an array of integers"""
    ints = [v for v in np.asarray(a, dtype=float) if np.isfinite(v) and float(v).is_integer() and abs(v) < 2 ** 31]
    for v in ints[:4]:
        ctx.count()
        try:
            r, want = float(np.asarray(fn(int(v)), dtype=float)), float(np.asarray(fn(float(v)), dtype=float))
        except Exception as ex:
            ctx.violation(f"{key}/argument-form/python-int/raises-{type(ex).__name__}", dict(case, x=int(v)), "the value at the float", f"{type(ex).__name__}: {ex}")
            continue
        if not ((np.isnan(r) and np.isnan(want)) or abs(r - want) <= atol):
            ctx.violation(f"{key}/argument-form/python-int/values", dict(case, x=int(v)), want, r, note=f"the integer {int(v)} gives {r}, the float {float(v)} gives {want}")
    if ints:
        ia = np.array([int(v) for v in ints])
        ctx.count()
        try:
            r = np.asarray(fn(ia), dtype=float)
            want = np.asarray(fn(ia.astype(float)), dtype=float)
            if r.shape != want.shape or not np.allclose(r, want, rtol=0, atol=atol, equal_nan=True):
                ctx.violation(f"{key}/argument-form/integer-array/values", dict(case, x=ia.tolist()), want.tolist(), r.tolist())
        except Exception as ex:
            ctx.violation(f"{key}/argument-form/integer-array/raises-{type(ex).__name__}", dict(case, x=ia.tolist()), "values", f"{type(ex).__name__}: {ex}")
