"""Seeded random engine descriptions (EDL) for the thorough tier of C01: the building blocks of the catalogue (dyadic
parameters, so that the specification's arithmetic stays exact) wired at random - 1-2 inputs, 1-3 outputs of one family
(Mamdani / Takagi-Sugeno / Tsukamoto), 1-2 rule blocks, antecedent trees to depth 3 with hedges and `any`, output
variables in antecedents, weights, disabled and unloaded rules, disabled variables and blocks, every activation method."""
from __future__ import annotations

import copy
import random

from .catalogue import in_a, in_b, out_ts, out_tsk, out_y, out_z
from .edl import AND, C, OR, P, X, activation, block, engine, rule

HEDGES = ["not", "very", "extremely"]          # rational hedges (somewhat / seldom need square roots)
TNORMS = ["Minimum", "AlgebraicProduct", "BoundedDifference", "DrasticProduct", "NilpotentMinimum"]
SNORMS = ["Maximum", "AlgebraicSum", "BoundedSum", "DrasticSum", "NilpotentMaximum", "UnboundedSum"]
WEIGHTS = ["1", "1", "1/2", "1/4", "3/4", "1023/1024"]


def prop(rng, var):
    if rng.random() < 0.06:
        return P(var["name"], "", *([rng.choice(HEDGES[:1])] if rng.random() < 0.3 else []), "any")
    hs = [rng.choice(HEDGES) for _ in range(rng.choice([0, 0, 0, 1, 1, 2]))]
    return P(var["name"], rng.choice(var["terms"])["name"], *hs)


def tree(rng, variables, depth):
    if depth == 0 or rng.random() < 0.35:
        return prop(rng, rng.choice(variables))
    return (AND if rng.random() < 0.5 else OR)(tree(rng, variables, depth - 1), tree(rng, variables, depth - 1))


def random_engine(rng: random.Random, k: int) -> dict:
    family = rng.choice(["mamdani", "mamdani", "sugeno", "tsukamoto"])
    ins = [in_a(enabled=rng.random() < 0.9)] + ([in_b(enabled=rng.random() < 0.9, lock_range=rng.random() < 0.3)] if rng.random() < 0.8 else [])
    if family == "mamdani":
        outs = [out_y(defuzzifier=rng.choice(["Centroid", "Centroid", "Bisector", "MeanOfMaximum", "SmallestOfMaximum", "LargestOfMaximum"]),
                      resolution=rng.choice([2, 5, 8]), aggregation=rng.choice(SNORMS[:5]), lock_prev=rng.random() < 0.3,
                      default=rng.choice(["nan", "1/8"]), lock_range=rng.random() < 0.3, enabled=rng.random() < 0.9)]
        if rng.random() < 0.5:
            outs.append(out_z(aggregation=rng.choice(SNORMS[:3]), resolution=rng.choice([4, 8])))
    elif family == "sugeno":
        outs = [out_ts(defuzzifier=rng.choice(["WeightedAverage", "WeightedSum"]), aggregation=rng.choice(["none", "none", "Maximum", "AlgebraicSum"]),
                       lock_prev=rng.random() < 0.3, default=rng.choice(["nan", "3"]))]
        if len(ins) == 1:       # the Linear term needs one coefficient per input (+ constant)
            outs[0]["terms"] = [t for t in outs[0]["terms"] if t["k"] != "Linear"]
    else:
        outs = [out_tsk(defuzzifier=rng.choice(["WeightedAverage", "WeightedSum"]), type_=rng.choice(["Automatic", "Automatic", "Tsukamoto", "TakagiSugeno"]))]
    blocks = []
    for bi in range(rng.choice([1, 1, 2])):
        readable = ins + (outs if (bi > 0 or rng.random() < 0.3) and family == "mamdani" else [])
        rules = []
        for _ in range(rng.randint(1, 5)):
            cons = []
            for o in rng.sample(outs, rng.randint(1, len(outs))):
                hs = [rng.choice(HEDGES)] if rng.random() < 0.2 and family == "mamdani" else []
                cons.append(C(o["name"], rng.choice(o["terms"])["name"], *hs))
            rules.append(rule(tree(rng, readable, rng.choice([0, 1, 2, 3])), cons, weight=rng.choice(WEIGHTS),
                              enabled=rng.random() < 0.9, loaded=rng.random() < 0.93))
        cls = rng.choice(["General", "General", "General", "First", "Last", "Highest", "Lowest", "Proportional", "Threshold"])
        act = activation(cls, rules=rng.randint(0, 3), threshold=rng.choice([0, "1/4", "1/2"]), comparator=rng.choice(["<", "<=", "==", "!=", ">=", ">"]))
        blocks.append(block(f"rb{bi}", rules, conjunction=rng.choice(TNORMS), disjunction=rng.choice(SNORMS[:5] if family != "sugeno" else SNORMS),
                            implication=rng.choice(TNORMS[:3]) if family == "mamdani" else rng.choice(["none", "Minimum"]), act=act,
                            enabled=rng.random() < 0.9))
    e = engine(f"random-{k}-{family}", copy.deepcopy(ins), copy.deepcopy(outs), blocks)
    e["coarse"] = True      # products and quotients multiply denominators: the coarse input grid keeps TLC's 32-bit arithmetic small
    return e


def random_engines(rng: random.Random, n: int):
    return [random_engine(rng, k) for k in range(n)]
