"""C03  Membership functions match their documented definitions.

1. TLC: spec/MC_Terms - all 20 shape terms + Constant over a dyadic and a decimal parameter palette
   (both directions, coincident vertices, infinite shoulders), 3 heights, x over every breakpoint at
   e in {-1,0,+1}, midpoints, outside points, +-inf, NaN.  Invariants: range, NaN iff NaN, monotone
   when declared, continuity of the S/Z shapes.  Each state also carries the *closed form of the
   selected piece* over the symbols x, p_i, h.
2. Replay: Term.membership at every enumerated point (e=0: the parameter double itself, e=+-1:
   nextafter) against the closed form evaluated exactly at the doubles the code received; scalar, 1-D
   and 2-D arrays; a fresh object and a long-lived object re-configured between cases must agree.
3. Seeded random doubles inside every region between consecutive points.
"""
from __future__ import annotations

import math
import random
from fractions import Fraction

import numpy as np

from . import core, forms, kexpr
from .tlc import MachineryError, write_cfg
from .xreal import to_float, to_fraction

KINDS = ["Triangle", "Trapezoid", "Rectangle", "Ramp", "Binary", "Concave", "SShape", "ZShape", "PiShape", "Gaussian",
         "GaussianProduct", "Bell", "Cosine", "Spike", "Sigmoid", "SigmoidDifference", "SigmoidProduct", "Arc", "SemiEllipse",
         "Discrete", "Constant"]
INVS = ["PieceAgree", "RangeOK", "NaNIff", "Monotone", "Continuous"]
MONO = {"Arc", "Concave", "Ramp", "Sigmoid", "SShape", "ZShape"}


def build(fl, k, p, h):
    """a fresh term built through its constructor with Python floats"""
    cls = getattr(fl, k)
    if k == "Discrete":
        return cls("t", fl.Discrete.to_xy(p[0::2], p[1::2]), h)
    if k == "Constant":
        return cls("t", p[0])
    return cls("t", *p, h)


def reconfigure(term, k, p, h):
    """the same parameters given to a long-lived object: alternately through configure() (repr keeps the doubles exact) and by
    plain assignment to its public attributes (a value cached at first use must not survive either)"""
    from .fll import ATTRS

    n = term.__dict__.get("_verif_uses", 0) + 1
    term.__dict__["_verif_uses"] = n
    if n % 2 and k in ATTRS and k != "Constant":
        for a, v in zip(ATTRS[k], p):
            setattr(term, a, float(v))
        term.height = float(h)
        return
    if n % 2 and k == "Constant":
        term.value = float(p[0])
        return
    if k == "Constant":
        term.configure(repr(p[0]))
    else:
        term.configure(" ".join(repr(float(v)) for v in list(p) + [h]))


def xdouble(q, e):
    x = to_float(q)
    if e and math.isfinite(x):
        x = math.nextafter(x, math.inf if e > 0 else -math.inf)
    return x


def close(got, exp, f, hval):
    if math.isnan(exp) or math.isnan(got):
        return math.isnan(exp) and math.isnan(got)
    if math.isinf(exp) or math.isinf(got):
        return exp == got
    if kexpr.has_node(f, "sqrt") and hval:
        # next to the end points sqrt has unbounded slope: compare its argument, not its value
        return abs((got / hval) ** 2 - (exp / hval) ** 2) <= 1e-12 or abs(got - exp) <= 1e-12
    tol = 1e-9 if any(kexpr.has_node(f, n) for n in ("exp", "cos", "powq", "log")) else 1e-12
    return abs(got - exp) <= tol * max(1.0, abs(exp))


def run(ctx: core.Ctx):
    fl = core.import_fuzzylite()
    rng = random.Random(ctx.seed)
    total = 0
    worst = 0.0
    persistent = {}
    for palette in ("dyadic", "decimal", "narrow"):
        kinds = "{" + ", ".join(f'"{k}"' for k in KINDS) + "}"
        head = f'SPECIFICATION Spec\nCONSTANTS Palette = "{palette}"\n  Kinds = {kinds}\n'
        cfg = write_cfg(f"MC_Terms_{palette}", head + "  Emit = TRUE\n" + "".join(f"INVARIANT {i}\n" for i in (INVS if palette != "narrow" else [])) + "INVARIANT EmitInv\nCHECK_DEADLOCK FALSE\n")
        g = ctx.tlc("MC_Terms", cfg, workers=16, timeout=2400)
        ctx.expect_holds(g, f"MC_Terms[{palette}]")
        if len(g.emitted) < (10000 if palette != "narrow" else 3000):
            raise MachineryError(f"only {len(g.emitted)} term cases emitted")
        # group by term instance
        groups = {}
        for c in g.emitted:
            groups.setdefault((c["k"], repr(c["p"]), repr(c["h"])), []).append(c)
        gi = 0
        for (k, _, _), cases in groups.items():
            gi += 1
            p = [to_float(v) for v in cases[0]["p"]]
            h = to_float(cases[0]["h"])
            env0 = {"p": [Fraction(v) if math.isfinite(v) else v for v in p], "h": Fraction(h)}
            try:
                term = build(fl, k, p, h)
                if k not in persistent:
                    persistent[k] = build(fl, k, p, h)
                    persistent[k].membership(0.5)  # evaluated once before being re-configured
                reconfigure(persistent[k], k, p, h)
            except Exception as ex:
                ctx.violation(f"{k}/construct", {"k": k, "p": cases[0]["p"], "h": cases[0]["h"]}, "a term", f"{type(ex).__name__}: {ex}")
                continue
            xs, exps, fs = [], [], []
            repeated = {v for v in p[0::2] if p[0::2].count(v) > 1} if k == "Discrete" else set()
            for c in cases:
                q, e = c["x"]
                xd = xdouble(q, e)
                if e == 0 and xd in repeated:
                    continue        # on a vertical edge of a table the interpolation has two values: only its neighbours are judged
                env = dict(env0, x=(Fraction(xd) if math.isfinite(xd) else xd))
                try:
                    exp = kexpr.value(c["f"], env)
                except (ZeroDivisionError, OverflowError, ValueError):
                    exp = math.nan
                if e == 0 and kexpr.is_exact(c["v"]) and palette == "dyadic":
                    # evaluator self-check: the symbolic closed form at the exact point is TLC's exact value
                    tv = to_float(c["v"][1])
                    if not ((math.isnan(tv) and math.isnan(exp)) or abs(tv - exp) <= 1e-15 * max(1, abs(tv))):
                        raise MachineryError(f"kernel evaluator disagrees with TLC's exact value: {c} -> {exp} vs {tv}")
                xs.append(xd)
                exps.append(exp)
                fs.append(c["f"])
                got = float(term.membership(xd))
                got2 = float(persistent[k].membership(xd))
                ctx.count(2)
                total += 1
                key_case = {"k": k, "p": cases[0]["p"], "h": cases[0]["h"], "x": c["x"], "piece": c["piece"], "f": c["f"], "palette": palette}
                cls = "at-nan" if math.isnan(xd) else ("at-inf" if math.isinf(xd) else ("at-breakpoint" if e == 0 else "neighbour"))
                if not close(got, exp, c["f"], h):
                    ctx.violation(f"{k}.membership/piece={c['piece']}/{cls}/{palette}", key_case, exp, got, note=f"{k}{tuple(p)} h={h} at x={xd!r}")
                elif not math.isnan(got):
                    worst = max(worst, abs(got - exp))
                if not ((math.isnan(got) and math.isnan(got2)) or got == got2):
                    ctx.violation(f"{k}.membership/reconfigured-object-differs", key_case, got, got2, note="a re-configured long-lived term differs from a fresh one")
                if k != "Constant" and not math.isnan(got) and not (-1e-12 <= got <= h + 1e-12):
                    ctx.violation(f"{k}.membership/range/{palette}", key_case, f"[0,{h}]", got)
                ctx.case((palette, k, tuple(p), h, xd), nontrivial=(not math.isnan(exp) and 0 < exp < h))
            # arrays: 1-D of all points and a 2-D reshape must equal the scalar evaluations
            X = np.array(xs)
            S = np.array([float(term.membership(v)) for v in xs])
            for form, arg in (("1d", X), ("2d", np.concatenate([X, X]).reshape(2, -1))):
                try:
                    keep = arg.copy()
                    A = np.asarray(term.membership(arg), dtype=float)
                    if not np.array_equal(arg, keep, equal_nan=True):
                        ctx.violation(f"{k}.membership/argument-mutated", {"k": k, "p": cases[0]["p"], "h": cases[0]["h"], "palette": palette}, "unchanged", "modified", note="the caller's array was modified in place")
                except Exception as ex:
                    ctx.violation(f"{k}.membership/array-{form}-raises", {"k": k, "p": cases[0]["p"], "h": cases[0]["h"], "palette": palette}, "values", f"{type(ex).__name__}: {ex}")
                    continue
                ctx.count()
                ref = S if form == "1d" else np.concatenate([S, S]).reshape(2, -1)
                if A.shape != ref.shape or not np.allclose(A, ref, rtol=0, atol=1e-15, equal_nan=True):
                    ctx.violation(f"{k}.membership/array-{form}", {"k": k, "p": cases[0]["p"], "h": cases[0]["h"], "palette": palette}, ref.tolist(), A.tolist(), note="array evaluation differs from element-by-element evaluation")
            # other forms of the same argument: read-only, views with strides, a column, 3-D
            if palette == "dyadic" or hash((k, tuple(p))) % 4 == 0:
                forms.check(ctx, f"{k}.membership", {"k": k, "p": cases[0]["p"], "h": cases[0]["h"], "palette": palette}, term.membership, X, S, exact32=True)
            if palette == "dyadic":
                forms.check_int(ctx, f"{k}.membership", {"k": k, "p": cases[0]["p"], "h": cases[0]["h"], "palette": palette}, term.membership, X)
            if palette == "decimal" and hash((k, tuple(p))) % 3 == 0:
                forms.check_float32(ctx, f"{k}.membership", {"k": k, "p": cases[0]["p"], "h": cases[0]["h"], "palette": palette}, term.membership, X[np.isfinite(X)])
            # batches of length one keep their shape
            for sh in ((1,), (1, 1)):
                one = np.full(sh, xs[len(xs) // 2])
                try:
                    r1 = np.asarray(term.membership(one), dtype=float)
                    ctx.count()
                    if r1.shape != sh or not np.allclose(r1.ravel(), [S[len(xs) // 2]], rtol=0, atol=1e-15, equal_nan=True):
                        ctx.violation(f"{k}.membership/single-element-array", {"k": k, "p": cases[0]["p"], "h": cases[0]["h"], "shape": list(sh), "palette": palette}, list(sh), list(r1.shape))
                except Exception as ex:
                    ctx.violation(f"{k}.membership/array-1d-raises", {"k": k, "p": cases[0]["p"], "h": cases[0]["h"], "palette": palette}, "values", f"{type(ex).__name__}: {ex}")
            # zero has two binary64 representatives: every parameter (and point) that is 0 is also given as -0.0, in every sign
            # pattern of up to two zeros - the documented definition cannot tell them apart
            zeros = [j for j, v in enumerate(p) if v == 0.0] if k != "Discrete" else []
            if zeros:
                pats = [[-0.0] * len(zeros)]
                if len(zeros) >= 2:
                    pats += [[0.0, -0.0] + [0.0] * (len(zeros) - 2), [-0.0, 0.0] + [-0.0] * (len(zeros) - 2)]
                for pat in pats:
                    q = list(p)
                    for j, z in zip(zeros, pat):
                        q[j] = z
                    try:
                        t2 = build(fl, k, q, h)
                        A = np.array([float(t2.membership(-0.0 if v == 0.0 else v)) for v in xs])
                    except Exception as ex:
                        ctx.violation(f"{k}.membership/negative-zero-raises", {"k": k, "p": [repr(v) for v in q], "h": h, "palette": palette}, "values", f"{type(ex).__name__}: {ex}")
                        continue
                    ctx.count()
                    if not np.allclose(A, S, rtol=0, atol=1e-15, equal_nan=True):
                        i0 = int(np.flatnonzero(~(np.isclose(A, S, rtol=0, atol=1e-15, equal_nan=True)))[0])
                        ctx.violation(f"{k}.membership/negative-zero-parameter", {"k": k, "p": [repr(v) for v in q], "h": h, "x": repr(xs[i0]), "palette": palette}, float(S[i0]), float(A[i0]),
                                      note=f"{k}{tuple(q)} differs from {k}{tuple(p)} at x={xs[i0]!r}: the sign of a zero parameter changes the membership")
            # the caller's own array, updated in place between two evaluations (the positions of NaN and of every breakpoint move)
            try:
                buf = X.copy()
                term.membership(buf)
                buf[...] = np.roll(X, 1)
                A = np.asarray(term.membership(buf), dtype=float)
                ctx.count()
                if A.shape != S.shape or not np.allclose(A, np.roll(S, 1), rtol=0, atol=1e-15, equal_nan=True):
                    ctx.violation(f"{k}.membership/same-array-updated-in-place", {"k": k, "p": cases[0]["p"], "h": cases[0]["h"], "palette": palette}, np.roll(S, 1).tolist(), A.tolist(),
                                  note="the same array object, updated in place between two evaluations, gives values of its earlier contents")
            except Exception as ex:
                ctx.violation(f"{k}.membership/array-1d-raises", {"k": k, "p": cases[0]["p"], "h": cases[0]["h"], "palette": palette}, "values", f"{type(ex).__name__}: {ex}")
            # monotonicity on the code's own outputs along the ordered points
            if k in MONO:
                if term.is_monotonic() is not True:
                    ctx.violation(f"{k}.is_monotonic", {"k": k}, True, term.is_monotonic())
                pts = sorted((x, s) for x, s in zip(xs, S) if not math.isnan(x))
                vals = [s for _, s in pts]
                inc = all(b >= a - 1e-12 for a, b in zip(vals, vals[1:]))
                dec = all(b <= a + 1e-12 for a, b in zip(vals, vals[1:]))
                if not (inc or dec):
                    ctx.violation(f"{k}.membership/monotone/{palette}", {"k": k, "p": cases[0]["p"], "h": cases[0]["h"], "palette": palette}, "monotone", vals)
            elif term.is_monotonic():
                ctx.violation(f"{k}.is_monotonic", {"k": k}, False, True)
            # random doubles strictly inside the regions between consecutive finite points
            if gi % (4 if ctx.quick else 1) == 0 or palette == "narrow":
                fin = sorted({(to_float(c["x"][0])) for c in cases if c["x"][1] == 0 and c["x"][0][0] == 0})
                reg = {}
                for c in cases:
                    if c["x"][0][0] == 0:
                        reg[(to_float(c["x"][0]), c["x"][1])] = c
                for a, b in zip(fin, fin[1:]):
                    c = reg.get((a, 1)) or reg.get((a, 0))
                    if c is None or b - a < 1e-9:
                        continue
                    # ... and a thousandth, a millionth and a billionth of the region away from either end (a tolerance comparison
                    # on the argument - x "close to" a vertex - shows there, not at the vertex and not in the middle)
                    fracs = [rng.uniform(0.02, 0.98) for _ in range(2 if ctx.quick else 6)] + [1e-3, 1 - 1e-3, 1e-6, 1 - 1e-6, 1e-9, 1 - 1e-9]
                    for fr_ in fracs:
                        xd = a + (b - a) * fr_
                        if not a < xd < b:
                            continue
                        env = dict(env0, x=Fraction(xd))
                        exp = kexpr.value(c["f"], env)
                        got = float(term.membership(xd))
                        ctx.count()
                        if not close(got, exp, c["f"], h):
                            ctx.violation(f"{k}.membership/piece={c['piece']}/random-double/{palette}",
                                          {"k": k, "p": cases[0]["p"], "h": cases[0]["h"], "x": xd, "piece": c["piece"], "f": c["f"], "palette": palette}, exp, got)
        ctx.traces += len(g.emitted)
        ctx.sample({kk: g.emitted[777][kk] for kk in ("k", "p", "h", "x", "piece", "f")})
    ctx.extra["max_deviation"] = worst
    ctx.exhaustive = True
    ctx.rule = ("TLC enumerates 21 kinds x all valid parameter tuples over a 5-value dyadic and a 5-value decimal palette (+-inf shoulders) x 3 heights "
                "x {every breakpoint (also derived ones) at e=-1,0,+1, midpoints, outside points, +-inf, NaN}; each is evaluated on a fresh and on a "
                "re-configured term, scalar/1-D/2-D; non-trivial = expected value strictly between 0 and the height; plus seeded random doubles in every region")
    ctx.assumptions += ["kernels exp/cos/sqrt/pow evaluated by libm on exact arguments (tolerance 1e-9; 1e-12 for rational pieces)",
                        "documented definitions are discontinuous only at parameter values, never at derived breakpoints",
                        "SigmoidDifference restricted to equal slopes (documented h(a-b) and implemented h|a-b| coincide); Concave with inflection = end and SemiEllipse/Arc/Ramp with start = end are not valid parameterisations"]


def replay(v) -> int:
    if "f" not in v.get("case", {}):
        import json as _j
        print(_j.dumps(v["case"])[:1500]); print("expected", v.get("expected"), "observed", v.get("observed"), "|", v.get("note"))
        print("re-run ./check C03 for the verdict on the current tree")
        return 1
    fl = core.import_fuzzylite()
    c = v["case"]
    if "x" not in c:
        print("aggregate case (array / monotonicity): re-run ./check C03")
        return 2
    p = [to_float(q) for q in c["p"]]
    h = to_float(c["h"])
    term = build(fl, c["k"], p, h)
    xd = xdouble(*c["x"]) if isinstance(c["x"], list) else float(c["x"])
    env = {"p": [Fraction(q) if math.isfinite(q) else q for q in p], "h": Fraction(h), "x": Fraction(xd) if math.isfinite(xd) else xd}
    exp = kexpr.value(c["f"], env)
    got = float(term.membership(xd))
    print(f"{c['k']}{tuple(p)} h={h}: membership({xd!r}) = {got!r}; documented piece '{c['piece']}' gives {exp!r}")
    if not close(got, exp, c["f"], h):
        print("VIOLATION property=C03 replay=(given)")
        return 1
    print("conforms")
    return 0
