#!/usr/bin/env python3
"""Regenerates /verif/MANIFEST.json from the table below (one entry per property whose check exists)."""
import json
import os

V = os.path.dirname(os.path.dirname(os.path.abspath(__file__)))
BASE = "cd /repo && /venv/bin/python -m pytest -ra -q -p no:cacheprovider --timeout=900 --continue-on-collection-errors"

T = {
 "C12": dict(
    text="TLC exhaustively model-checks the OutputVariable state machine (spec/OutputVariable.tla): the machine shaped like OutputVariable.defuzzify equals the property's per-row cascade folded over every history of <= L rows under every cut into calls, 12 settings, failures/clear/assignment at any position; previous-value and failure-atomicity as action properties; a canary machine must fail. Every behaviour TLC enumerates is replayed on a real OutputVariable (stub defuzzifier) and compared after every action; events recorded from real engines with real defuzzifiers (seeded drivers, shipped examples, repository tests) are rank-abstracted and validated by spec/Trace_OutputVariable.tla.",
    note="Assumes the cascade depends on values only through order/equality/NaN-ness (rank abstraction; instantiated on several order-isomorphic palettes incl. +-inf). Bounded: histories of <= 3 (quick) / 5 (thorough) rows in the model check, 3 rows in the replay; traces are samples of real executions. Trusted: TLC, numpy, the harness.",
    technique="TLA+ state machine + TLC exhaustive model checking; spec->code behaviour replay; code->spec trace validation",
    ref="6. C12"),
}

T["C20"] = dict(
    text="TLC exhaustively model-checks spec/Settings.tla (settings singleton + stack of context frames; Enter/ExitOne/Raise-to-level/Assign) to nesting depth 4 and 7-8 actions: action properties ExitRestores (every key named by a frame that is left has that frame's entry value, others untouched, on normal and exceptional exits) and EnterVisible; canary RestoreAll must fail. Every behaviour of a smaller instance is replayed with real nested `with fl.settings.context(...)` blocks, real exceptions caught at the chosen level and direct assignments, mapped onto all 42 ordered pairs of the 7 real settings (thorough: simulated behaviours over all 7), comparing vars(settings) and the helpers reading them after every step; recorded enter/exit events are validated by spec/Trace_Settings.tla.",
    note="Bounded: depth 4, 4-5 actions replayed, 2 model keys (independence argument) plus simulation over 7. Trusted: TLC, CPython's with-statement semantics, the harness.",
    technique="TLA+ state machine + TLC exhaustive model checking; spec->code behaviour replay; code->spec trace validation",
    ref="6. C20")

PLANNED = {}

def main():
    props = [json.loads(l) for l in open(os.path.join(V, "properties.jsonl"))]
    checks, na = [], []
    for p in props:
        pid = p["id"]
        have = os.path.exists(os.path.join(V, "harness", pid.lower() + ".py")) and pid in T
        if have:
            t = T[pid]
            checks.append({
                "property_id": pid,
                "quick_cmd": f"./check {pid} --tier quick",
                "thorough_cmd": f"./check {pid} --tier thorough",
                "evidence_file": f"evidence/{pid}.json",
                "replay_cmd_template": f"./check {pid} --replay {{path}}",
                "engine": "tla-spec",
                "level_claimed": {"category": "model_checking", "text": t["text"], "design_ref": f"DESIGN.md section {t['ref']}"},
                "level_note": t["note"],
                "technique": t["technique"],
            })
        else:
            na.append({"property_id": pid, "reason": PLANNED.get(pid, "check not built yet: the TLA+ model and conformance driver for this property are planned (DESIGN.md section 10) but not committed; nothing is claimed until they are")})
    m = {
        "version": 1,
        "setup_cmd": "./check --selftest",
        "hooks": {
            "guard": "PYFUZZYLITE_VERIF_TRACE",
            "enable": "no source hooks in /repo: when the variable is set, harness/tracer.py wraps public methods of the imported library at run time (the checks set it themselves); the library is pure Python and is imported from /repo's working tree, so there is nothing to rebuild",
            "baseline_off_cmd": BASE,
            "source_commits": [],
            "add_only": True,
        },
        "engines": [{"name": "tla-spec", "path": "spec/", "serves_properties": [c["property_id"] for c in checks],
                     "kind_free_text": "explicit TLA+ specification (spec/*.tla) checked with TLC; bound to the implementation by replaying TLC-generated behaviours into the real code and validating recorded traces against the specification (harness/*.py)"}],
        "checks": checks,
        "not_applicable": na,
        "notes": "Exit codes of ./check: 0 held, 1 VIOLATION, 2 machinery failure (never reported as pass or violation). VERIF_SEED selects sampled factors; VERIF_REPO (default /repo) selects the tree under test.",
    }
    json.dump(m, open(os.path.join(V, "MANIFEST.json"), "w"), indent=1)
    print(f"{len(checks)} checks, {len(na)} not claimed")

if __name__ == "__main__":
    main()
