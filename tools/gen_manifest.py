#!/usr/bin/env python3
"""Regenerates /verif/MANIFEST.json from the table below (one entry per property whose check exists)."""
import json
import os

V = os.path.dirname(os.path.dirname(os.path.abspath(__file__)))
BASE = "cd /repo && /venv/bin/python -m pytest -ra -q -p no:cacheprovider --timeout=900 --continue-on-collection-errors"

T = {
 "C12": dict(
    text="TLC exhaustively model-checks the OutputVariable state machine (spec/OutputVariable.tla): the machine shaped like OutputVariable.defuzzify equals the property's per-row cascade folded over every history of <= L rows under every cut into calls, 12 settings, failures/clear/assignment at any position; previous-value and failure-atomicity as action properties; a canary machine must fail. Every behaviour TLC enumerates is replayed on a real OutputVariable (stub defuzzifier) and compared after every action; events recorded from real engines with real defuzzifiers (seeded drivers, shipped examples, repository tests) are rank-abstracted and validated by spec/Trace_OutputVariable.tla.",
    note="Assumes the cascade depends on values only through order/equality/NaN-ness (rank abstraction; instantiated on several order-isomorphic palettes incl. +-inf). Bounded: histories of <= 3 (quick) / 5 (thorough) rows in the model check, 3 rows in the replay; traces are samples of real executions. Trusted: TLC, numpy, the harness.",
    technique="TLA+ state machine + TLC exhaustive model checking; spec->code behaviour replay; code->spec trace validation",
    ref="6. C12"),
}

T["C20"] = dict(
    text="TLC exhaustively model-checks spec/Settings.tla (settings singleton + stack of context frames; Enter/ExitOne/Raise-to-level/Assign) to nesting depth 4 and 7-8 actions: action properties ExitRestores (every key named by a frame that is left has that frame's entry value, others untouched, on normal and exceptional exits) and EnterVisible; canary RestoreAll must fail. Every behaviour of a smaller instance is replayed with real nested `with fl.settings.context(...)` blocks, real exceptions caught at the chosen level and direct assignments, mapped onto all 42 ordered pairs of the 7 real settings (thorough: simulated behaviours over all 7), comparing vars(settings) and the helpers reading them after every step; recorded enter/exit events are validated by spec/Trace_Settings.tla. Context objects may also be created first and entered by a later step (Create / EnterCreated), after an assignment or inside another context. For histories of every length, Apalache checks on spec/Apa_Settings.tla that one step from ANY well-typed state (any stack of up to 5 frames with arbitrary snapshots, 3 keys, 3 values) satisfies both action properties; the RestoreAll canary must fail there too.",
    note="Bounded: depth 4, 4-5 actions replayed, 2 model keys (independence argument) plus simulation over 7. Trusted: TLC, CPython's with-statement semantics, the harness.",
    technique="TLA+ state machine + TLC exhaustive model checking (+ Apalache step invariant from arbitrary states); spec->code behaviour replay; code->spec trace validation",
    ref="6. C20")

T["C03"] = dict(
    text="spec/Terms.tla transcribes the documented definition of all 20 shape terms (+Constant) as a case analysis over infinitesimally shifted points (Pos) that returns the closed form of the selected piece as a kernel expression; TLC enumerates every valid parameter tuple over a dyadic and a decimal palette (both directions, coincident vertices, infinite shoulders) x heights x every breakpoint with both neighbours, midpoints, +-inf, NaN and checks range, NaN-iff-NaN, declared monotonicity and continuity on the model. Every state is replayed into Term.membership at the actual doubles (parameter double, nextafter) and compared with the closed form evaluated exactly at those doubles; scalar/1-D/2-D; fresh vs re-configured objects; seeded random doubles in every region.",
    note="Bounded parameter palettes; exp/cos/sqrt/pow evaluated by libm on exact arguments (1e-9; 1e-12 for rational pieces; sqrt terms compared on the radicand next to their end points). Restricted parameterisations listed in the evidence assumptions.",
    technique="TLA+ specification of the documented case analysis + TLC enumeration with invariants; spec->code replay at breakpoints/neighbours/random doubles",
    ref="6. C03")
T["C04"] = dict(
    text="spec/Norms.tla transcribes the 16 documented formulas into exact extended-real arithmetic; TLC checks all norm laws (range, commutativity, monotonicity, associativity, identity, annihilator, T<=min, S>=max, duality) on every pair/triple of the dyadic grid k/16 (thorough k/32); every table entry is replayed bit-for-bit into Norm.compute as float, numpy scalar, 1-D array and 2-D broadcast; seeded random and boundary doubles are compared with the formula evaluated exactly on Fraction(double) and the laws re-checked on the code's outputs.",
    note="Exact on the dyadic grid (binary64 arithmetic is exact there up to one correctly rounded division); off the grid 1e-12 tolerance and branch-boundary margin. NaN operands are outside the property.",
    technique="TLA+ exact-arithmetic specification + TLC exhaustive grid check of the laws; full-table replay",
    ref="6. C04")
T["C05"] = dict(
    text="spec/Hedges.tla gives the 6 hedges as kernel expressions (exact when rational); TLC checks range, fixed points, monotonicity, very<=id<=somewhat, the two inverse pairs and involution on the grid k/32 (thorough k/128); the table is replayed into Hedge.hedge (float, numpy scalar, 1-D, 2-D); 0.5 with both floating-point neighbours, the end points and seeded random doubles are compared with the formulas evaluated exactly, and the relations re-checked on the code's outputs.",
    note="sqrt by libm on TLC's exact argument (1e-12).",
    technique="TLA+ specification + TLC exhaustive grid check; table replay",
    ref="6. C05")

T["C01"] = dict(
    text="spec/Engine.tla is an interpreter of an engine description (variables, terms, operators, defuzzifiers, rule blocks, rules as antecedent trees and conclusion lists) whose operators mirror Engine.process: clear fuzzy outputs, activate enabled blocks in order with the loop of each of the 7 activation methods, one contribution per enabled conclusion, aggregation and defuzzification (spec/Defuzzifiers.tla), value cascade. spec/Gen_Engine.tla runs it with TLC on a catalogue of ~50 engines (one per wiring aspect; thorough: +200 seeded random engines) over the product of breakpoints/midpoints/bounds/outside/+-inf/NaN of the inputs, checks design invariants in every state and emits the full observable projection; the same description is built with constructors into a real engine and every row compared: outputs, previous values, every fuzzy output (term, degree, implication, order), every rule degree and triggered flag. Engines that were used before and edited since are covered by spec/MC_Lifecycle in edit mode (one of 19 kinds of configuration edit between two process() calls, replayed by attribute assignment on the real objects), every second catalogue engine shares its operator / defuzzifier objects between blocks / outputs as Engine.configure assigns them, and - code->spec - every real process() call recorded by the run-time tracer on the shipped examples, the catalogue engines and (thorough) the repository's own tests is validated by spec/Trace_Engine.tla: phase order, selection by the activation method and every contribution to every fuzzy output, with the recorded degrees rank-abstracted.",
    note="Exact rational arithmetic in TLC (32-bit: product-family operators run on a coarser grid); engines bounded (<=3 inputs, <=3 outputs, <=2 blocks); 1e-9 tolerance; rows whose expectation needs a non-square root are skipped and counted; under tie-prone defuzzifiers a mismatching value is accepted only through the C09 reduction link.",
    technique="TLA+ interpreter specification evaluated by TLC on engine descriptions; spec->code replay of every row with full state comparison",
    ref="6. C01")
T["C07"] = dict(
    text="TLC checks spec/MC_Consequent (Conclude/Trigger of Engine.tla) on all consequents of 1-3 conclusions over 3 output variables with hedge chains, 4 enabled patterns, degrees incl. NaN/+-inf: one contribution per enabled conclusion, independence from the other conclusions, stored degrees, order independence; the defect-shaped hedge-leaking variant is the canary and must fail. Each consequent is printed, loaded with Rule.create and triggered on a real engine with scalar degrees, one batch, and through RuleBlock.activate; fuzzy outputs compared. The block's implication object is replaced between the triggers of the same loaded rule.",
    note="6,440 consequents x 7 degrees; irrational expectations skipped (counted).",
    technique="TLA+ specification + TLC exhaustive check with canary; spec->code replay",
    ref="6. C07")
T["C10"] = dict(
    text="TLC checks spec/MC_Weighted (GroupedTerms, InferType, Weighted of Defuzzifiers.tla) on every activation list of length <= 2 (thorough 3) over 5 terms x 4 degrees x 10 aggregation settings x 3 types x 2 defuzzifiers plus seeded lists of 3-6 activations: zero-degree invariance, NaN characterisation, average of constants within bounds, inference table incl. refusals, grouping shape. Every case is replayed on real Aggregated/Activated objects (fresh and long-lived refilled), defuzzify / grouped_terms / activation_degree, scalar and stacked batches; tiny and random double degrees through an exact mirror cross-checked against TLC.",
    note="Linear/Function terms only at engine level (C01). 1e-9 tolerance (1e-7 where the S-shape inverse is singular).",
    technique="TLA+ specification + TLC exhaustive check; spec->code replay",
    ref="6. C10")
T["C11"] = dict(
    text="TLC checks spec/MC_Tsukamoto: for the 6 monotonic kinds, both directions, 3 heights, two palettes, 13 fractions of the height, Mu(Tsukamoto(y)) = y exactly wherever the inverse is rational and z strictly monotone in the term's direction. Replay on the real terms: tsukamoto(y) finite, equal to the documented inverse evaluated at the doubles used, membership(tsukamoto(y)) = y, ordering, arrays elementwise, y next to 0, h/2 (both neighbours) and h; every non-monotonic kind refuses.",
    note="Relation compared to 1e-9 (Arc on squares); the documented inverse is not compared where it is ill-conditioned (within 1e-6 h of 0 or h for sqrt/log kinds).",
    technique="TLA+ specification + TLC exhaustive check; spec->code replay of the inverse relation",
    ref="6. C11")

T["C09"] = dict(
    text="TLC checks spec/MC_Integral (Midpoints, AggMu and the five reductions of Defuzzifiers.tla in exact arithmetic) on every aggregated set of 0-2 (thorough 3) activated terms over 5 terms x 4 degrees x 3 implications x 3 aggregations x 4 resolutions plus seeded cases: result in range, SOM<=MOM<=LOM, NaN iff the sampled membership is zero everywhere, centroid translation equivariance. Three links bind it to the code: Op.midpoints vs exact midpoints; the code's sampled vector vs the specification's; each defuzzifier vs the property's reduction applied to the code's own (x,y) (tie-aware for Bisector), and on tie-free cases vs TLC's exact value. Batches, resolutions 100/1000, arbitrary ranges and tiny degrees through links 0/2 and the relations.",
    note="Ties that rounding breaks are judged on the values the code computed (counted as accepted_by_tie_tolerance). Known finding: resolution 1 with batch degrees (KNOWN_FINDINGS.txt).",
    technique="TLA+ exact-arithmetic specification + TLC exhaustive check; three-link spec->code replay",
    ref="6. C09")

T["C08"] = dict(
    text="TLC checks spec/MC_Activations: on blocks of 1-3 (thorough 4) rules with forced degrees, all degree vectors over 5 values (NaN too for <=2 rules), all-on / one-disabled / one-unloaded patterns and every parameter value of the 7 methods, the loops of Engine.ActivateBlock (shaped like activation.py: counters, heaps keyed by (degree, index), two-pass Proportional) equal a declarative selection written from the property (ranks, ties by insertion order); canary with reversed tie-break must fail. All ~107k cases are replayed on one long-lived real rule block: activation_degree, triggered, fuzzy output in firing order; batches must be rejected by the six vector-incapable methods. Two of three cases re-use a long-lived method object whose public parameters are re-assigned between activations.",
    note="Degrees forced through Ramp(0,1) inputs; blocks up to 4 rules exhaustively.",
    technique="TLA+ step machine vs declarative definition checked by TLC; spec->code replay",
    ref="6. C08")

T["C06"] = dict(
    text="spec/ShuntingYard.tla (operator table of the function factory + Function.infix_to_postfix) and spec/RuleSyntax.tla (printer with minimal/redundant parentheses, the Antecedent.load / Consequent.load / Rule.parse machines, the documented grammar). TLC proves the design theorem on 1,548 trees x 3 styles: reading the printed antecedent returns the tree (and binds tighter than or, left associative, parentheses override); canary with exchanged precedences must fail. Every text (spaced and unspaced parentheses) is loaded by Rule.create and its postfix compared; the trees are evaluated by spec/Engine.tla inside engines (input and output variables in propositions, hedges, any, disabled variables) for 53 operator pairs or distinguishable pairs, 3 weights and 30 rows, and the real rule degrees compared.",
    note="Trees to two operator levels exhaustively (thorough: deeper seeded trees); 10 compositions of a discontinuous with a quotient norm are excluded as ill-conditioned in binary64; 1e-9 tolerance.",
    technique="TLA+ syntax machines + TLC design theorem; spec->code replay of texts (postfix) and of meaning (degrees)",
    ref="6. C06")

T["C19"] = dict(
    text="spec/Readiness.tla writes the documented readiness errors over engine descriptions; spec/MC_Readiness.tla checks with TLC, for 9 base engines and every subset of their removable operators (conjunction/disjunction/implication per block, aggregation/defuzzifier per output) on finite rows, that ReadyErrors = {} with activation methods present implies Engine.tla's process does not meet a missing operator, and that an operator whose removal alone makes processing raise is reported; the variant with the disjunction test nested under the conjunction test (the pinned code's shape) is the canary and TLC produces its ready-but-raises counterexample. Every configuration is replayed: is_ready's messages mapped to (operator, component) tags vs the model's set, process() raising or not on every row. Every configuration is replayed twice: with own component objects and with operator / defuzzifier objects shared between blocks / outputs (as Engine.configure assigns them), including two weighted outputs of different term kinds.",
    note="Engines are well typed and keep their activation methods (assumptions of the property); over-reporting by the code is not an alarm.",
    technique="TLA+ specification + TLC exhaustive subset enumeration with canary; spec->code replay",
    ref="6. C19")

T["C02"] = dict(
    text="In spec/Engine.tla a batch is by definition the sequence of its rows (ProcessRows folds the scalar step, carrying value and previous value). TLC (spec/Gen_Engine) evaluates seeded histories of 3-4 rows and one of 8 (= the resolution) over the General engines of the catalogue and lock-previous/default/lock-range variants, checking the design invariants in every state. Each history is executed on the real engine as floats and under every composition into batches, set per variable and through Engine.input_values; every mode must give the specification's per-row outputs, fuzzy outputs and previous values, identical fuzzy_value() strings, and raise exactly when the float mode raises.",
    note="Histories are seeded samples of the row sets (not exhaustive); 1e-9 tolerance. Known finding: integral defuzzifier of resolution 1 with batches (KNOWN_FINDINGS.txt).",
    technique="TLA+ interpreter (batch = fold of rows) evaluated by TLC; spec->code replay in float / array / matrix modes under all batch partitions",
    ref="6. C02")
T["C13"] = dict(
    text="spec/MC_Lifecycle.tla: instances are (description, state) pairs of Engine.tla; TLC enumerates every behaviour of 4 (thorough 5) actions over set inputs / process / restart / copy-and-switch / switch / edit a weight / toggle a rule / unload a rule with up to 3 instances on 4 engines (Mamdani, chained blocks, Takagi-Sugeno with a Linear term referencing the engine, lock-previous) and checks history-freedom, restart = fresh, copy = duplicate and independence of the instances not operated on; canary: process without clearing must fail. Every behaviour is replayed on real engines: full projection of every instance after every action plus an identity scan (no shared mutable object, engine references point home). In edit mode (EditMode) every behaviour is built around one of 19 kinds of configuration edit (term parameters incl. Linear coefficients, operators, defuzzifier class / type / resolution, activation parameters, enabled flags, lock-previous, default) on 10 engines, interleaved with set / process / restart / copy.",
    note="Bounded behaviours; Function terms not yet in the engine description.",
    technique="TLA+ state machine + TLC exhaustive behaviours with canary; spec->code replay of all behaviours with multi-instance projection",
    ref="6. C13")

T["C18"] = dict(
    text="spec/FldGrid.tla: integer n-th root, the mixed-radix counter of Op.increment as a state machine, reader filtering. TLC checks for all v <= 2000, n <= 4 that Root is the largest k with k^n <= v and that the counter visits exactly the k^n index vectors in lexicographic order (last index fastest, radix-1 inactive variables too) and then stops; canary: a root one too small on perfect cubes. Replay: Op.increment vs the visit sequences; real FldExporter on engines with 1-4 inputs for both scopes: header, row count, every input column vs the exact grid, output columns vs the engine's own per-row process(), switches, separators, decimals 1..9; reader contents with blank/comment/indented-comment and skipped lines.",
    note="quick: v <= 130 plus every perfect power (and its predecessor) <= 2000; thorough: every v. Printed numbers compared within half a unit of the last decimal.",
    technique="TLA+ state machine + arithmetic specification checked by TLC with canary; spec->code replay of exports",
    ref="6. C18")

T["C16"] = dict(
    text="spec/RuleSyntax.tla holds the three documented machines (Rule.parse, Antecedent.load over the shunting-yard postfix, Consequent.load) and the documented grammar; spec/MC_RuleParse.tla runs them with TLC on every antecedent token sequence up to length 4 (thorough 5) over 12 symbols, every consequent sequence up to length 4 (5) and every single-error mutant of 4 valid rules, checking that the machines accept whatever the grammar derives and reject every listed error class. Every text is replayed through Rule.create, Rule.parse+load (is_loaded false after failure), a sample through RuleBlock.load_rules and FllImporter; outcome must be success (then export/activate/trigger work) or SyntaxError/ValueError/KeyError; internal errors, accepted must-reject texts, and texts accepted although the machines reject and the grammar does not derive them are violations. ~900-4000 line/token mutants of an FLL document: no internal error, accepted documents export and reach a fixed point after one cycle. A previously loaded rule whose text is edited and re-loaded must end unloaded when the re-load fails.",
    note="The model predicts the code's verdict on every enumerated text at the pinned commit (0 divergences after the TypeError fix). FLL documents are mutated by the harness (the FLL grammar itself is specified under C14).",
    technique="TLA+ parser machines + TLC exhaustive enumeration of short token sequences and mutants; spec->code replay with verdict prediction",
    ref="6. C16")

T["C17"] = dict(
    text="spec/FunctionSyntax.tla holds formula trees over the 13 operators and 34 functions of the function factory (precedence, associativity and arity table in spec/ShuntingYard.tla), a printer with minimal or redundant parentheses, the shunting-yard of Function.infix_to_postfix and the postfix-to-tree machine of Function.parse, and the documented numeric meaning of every element in exact extended-real arithmetic (kernel expressions where irrational). TLC proves on ~10,000 well-typed trees (two operator levels; every precedence level, both associativities, unary/binary functions, pi) x 2 styles, and on seeded trees of depth 3-5 over all elements, that reading the printed formula returns the tree and that the tree's postfix is the shunting-yard output; canary: a printer that takes `-` for right-associative must fail. Every text, spaced and unspaced, is loaded by Function.create: root.postfix() against the specification's, membership(x) against the specification's value under 5 assignments of x / an engine input variable / a term variable as scalars and as arrays (elementwise), reserved-name rules, ill-formed variants rejected at load, operands left unmodified. spec/FunctionScope.tla is the state machine of what a long-lived term can see (engine input/output variable lists with object identity, values, the term's own variables, attach/detach, configure/unload/load); TLC enumerates every behaviour of 4 (thorough 5) operations ending in an evaluation, checks that an evaluation sees the current scope (canary: a scope cached at first evaluation must fail) and each behaviour is replayed step by step on a real term.",
    note="Values the documentation does not determine are not judged and counted (sign of a computed zero under / pow atan2, NaN operand of min/max, discontinuous elements on operands binary64 cannot hold exactly); transcendental functions by libm (1e-9). The clause 'parsing the postfix of the tree yields the same values' is carried by: code postfix = PostfixF(tree) (compared), ParsePF(PostfixF(tree)) = tree (TLC), Eval(tree) = code values (compared).",
    technique="TLA+ syntax machines + exact evaluator; TLC design theorem with canary; spec->code replay of texts (postfix) and values (scalars, arrays)",
    ref="6. C17")

T["C14"] = dict(
    text="spec/FllSyntax.tla holds abstract engines over the numerals the language can express (sign, integer part, fraction scaled by 10^decimals, inf/-inf/nan), the exporter (engine -> lines of tokens, number formatting, height / weight / resolution / type dropped at their defaults, per-class parameter tables of 23 terms, 7 activation methods, 7 defuzzifiers), the importer as a machine that consumes one line per step keyed by the text before the colon, and eight meaning-preserving variants of a text. TLC checks on ~5,000 (thorough ~31,000) component-wise enumerated engines x decimals that Import(Export(e)) = Canon(e), Export(Import(Export(e))) = Export(e) and that every variant imports to Canon(e) (so one cycle normalises it); canary: an importer that crosses lock-range and lock-previous must fail. spec->code: every emitted engine is built with constructors; FllExporter's text must equal the specification's token for token, FllImporter's result projected must equal Canon(e), export-import-export must be textually stable, two variants per case must import to Canon(e) and re-export canonically, original and re-imported engine must compute identical outputs on sampled inputs. code->spec: texts recorded from the real exporter for seeded whole engines, engines with perturbed (non-representable) doubles and the 61 shipped examples are lexed and validated by TLC against the specification.",
    note="Assumes identifier names, descriptions without '#', heights/weights 1 or further than twice the tolerance from 1 where outputs are compared; doubles are projected onto numerals by exact decimal rounding (decimal module) - Python's float()/format() are trusted. Rule texts are opaque token sequences here (their grammar is C06/C16).",
    technique="TLA+ exporter/importer specification + TLC exhaustive component-wise check with canary; spec->code replay (token-exact) and code->spec validation of recorded exports by TLC",
    ref="6. C14")

T["C15"] = dict(
    text="spec/PyRepr.tla gives the constructor-call tree every __repr__ must produce (class prefix by the alias rule of package_of for the four alias settings, positional vs keyword arguments in constructor order, arguments dropped at their defaults - empty description, enabled=True, height within tolerance of 1, resolution 1000, type Automatic -, inf / nan / array as prefixed library names, rules as Rule.create(text) with the weight printed at the configured decimals), the import statement, and Eval: what executing a tree builds (omitted arguments take the constructors' defaults). TLC checks on the ~5,000 component-wise enumerated engines of MC_FllSyntax (thorough: x decimals 0/3/9) and on whole engines from a case file that Eval(Tree(e, alias)) = Canon(e) under every alias; canary: a representation that drops enabled=False must fail. spec->code: every engine is built with constructors; under alias 'fl' and one of '', '*', 'zz' repr(engine) is parsed with ast and compared node for node with the tree (numbers by value), the import statement and the representation are executed in a fresh namespace, the rebuilt engine's repr, FLL export, structure and outputs (bit-identical) are compared; every component on its own against its sub-tree and through eval; PythonExporter plain/encapsulated x formatted (black) on a sample; seeded whole engines, the 61 shipped examples, engines with perturbed doubles.",
    note="Python's repr() digits and black are not modelled (numbers compared by value; formatted code is re-executed). Known findings: Triangle/Trapezoid with NaN last vertices are rebuilt through the constructors' short forms; encapsulated class named after the engine may shadow a library name under alias '*' (KNOWN_FINDINGS.txt).",
    technique="TLA+ specification of the constructor-call tree and its evaluation + TLC exhaustive component-wise check with canary; spec->code replay (ast comparison, exec/eval round trip)",
    ref="6. C15")

PLANNED = {}

# what later rounds added to the checks (DESIGN.md 11.4): appended to the level texts
ADD = {
 "C01": "Catalogue engines with rule weights within the library's comparison tolerance of 1 and 0, a missing input under connectives and under several conclusions, every activation method on a block whose rules read the output they conclude on.",
 "C02": "Histories that mix rows with a missing (NaN) input and complete rows; one batch of 2600 / 4100 rows against the same rows one at a time.",
 "C03": "Third palette 'narrow' (parameters 0, 1/1024, 1; height 1023/1024: inside the comparison tolerance of a degenerate value; TLC emits piece and symbolic closed form, the harness evaluates it in exact rationals); Discrete tables of 96 and 70 pairs with vertical edges; numpy.matrix and 4100-element arguments.",
 "C04": "One scalar (float / numpy scalar / 0-d) against a vector in both orders; vectors of 4100 elements; numpy.matrix operands.",
 "C05": "numpy.matrix and 4100-element arguments among the argument forms.",
 "C06": "A user-supplied non-associative operator (Norms.tla 'Mean', NormLambda in the code) as conjunction / disjunction, through which the grouping prescribed by the grammar is visible.",
 "C07": "Fuzzy outputs emptied by clear(), by a new list and by a new Aggregated object in turn.",
 "C08": "Blocks of 20 (thorough 34) rules with many equal degrees and degrees within the comparison tolerance of the threshold (MC_Activations BigK).",
 "C09": "Fuzzy sets with mixed implications, one term activated twice through every ordered pair of implications, UnboundedSum sets (memberships above 1).",
 "C10": "Activation lists of 17-130 entries through the exact mirror.",
 "C11": "Gentle slopes and edges narrower than the comparison tolerance in both palettes; a term of another kind either refuses or, if it declares itself monotonic, owes the inverse relation.",
 "C12": "A palette whose values lie within the comparison tolerance of the range bounds.",
 "C14": "Heights / weights that are not 1 but inside the tolerance of 1; formulas naming any variable of the engine (also ones declared later), compared term by term after import; open-ended Discrete tables; wide engines.",
 "C15": "Function terms with 5-12 own variables, open-ended Discrete tables, wide engines (every list longer than a printer's size limit).",
 "C16": "RuleLifecycle has a vocabulary: a variable renamed or replaced under loaded rules, texts that are good in one vocabulary only.",
 "C18": "FldGrid table mode: an engine with a locked output exported over 1331-3072 rows, fresh and after earlier use (HoldsAcrossRows; canaries RestartEvery, SkipFirstRestart).",
 "C19": "Base engines whose only and / or occurs in a right branch or two levels down.",
}
for _p, _t in ADD.items():
    T[_p]["text"] = T[_p]["text"].rstrip() + " Added later: " + _t

def main():
    props = [json.loads(l) for l in open(os.path.join(V, "properties.jsonl"))]
    checks, na = [], []
    for p in props:
        pid = p["id"]
        have = os.path.exists(os.path.join(V, "harness", pid.lower() + ".py")) and pid in T
        if have:
            t = T[pid]
            checks.append({
                "property_id": pid,
                "quick_cmd": f"./check {pid} --tier quick",
                "thorough_cmd": f"./check {pid} --tier thorough",
                "evidence_file": f"evidence/{pid}.json",
                "replay_cmd_template": f"./check {pid} --replay {{path}}",
                "engine": "tla-spec",
                "level_claimed": {"category": "model_checking", "text": t["text"], "design_ref": f"DESIGN.md section {t['ref']}"},
                "level_note": t["note"],
                "technique": t["technique"],
            })
        else:
            na.append({"property_id": pid, "reason": PLANNED.get(pid, "check not built yet: the TLA+ model and conformance driver for this property are planned (DESIGN.md section 10) but not committed; nothing is claimed until they are")})
    m = {
        "version": 1,
        "setup_cmd": "./check --selftest",
        "hooks": {
            "guard": "PYFUZZYLITE_VERIF_TRACE",
            "enable": "no source hooks in /repo: when the variable is set, harness/tracer.py wraps public methods of the imported library at run time (the checks set it themselves); the library is pure Python and is imported from /repo's working tree, so there is nothing to rebuild",
            "baseline_off_cmd": BASE,
            "source_commits": [],
            "add_only": True,
        },
        "engines": [{"name": "tla-spec", "path": "spec/", "serves_properties": [c["property_id"] for c in checks],
                     "kind_free_text": "explicit TLA+ specification (spec/*.tla) checked with TLC; bound to the implementation by replaying TLC-generated behaviours into the real code and validating recorded traces against the specification (harness/*.py)"}],
        "checks": checks,
        "not_applicable": na,
        "notes": "Exit codes of ./check: 0 held, 1 VIOLATION, 2 machinery failure (never reported as pass or violation); an exception that escapes from inside the library out of a driver call that expected a value is reported as a VIOLATION (library-raises/<class>/<call site>), not as a machinery failure. VERIF_SEED selects sampled factors; VERIF_REPO (default /repo) selects the tree under test.",
    }
    json.dump(m, open(os.path.join(V, "MANIFEST.json"), "w"), indent=1)
    print(f"{len(checks)} checks, {len(na)} not claimed")

if __name__ == "__main__":
    main()
