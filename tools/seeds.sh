#!/bin/sh
# usage: tools/seeds.sh "<seeds>" "<props>"   runs ./check for every property x seed (tier $TIER, default quick) and prints one line each
cd "$(dirname "$0")/.." || exit 2
for s in $1; do for p in $2; do
  out=$(VERIF_SEED=$s ./check $p --tier ${TIER:-quick} 2>&1); rc=$?
  echo "seed=$s $p rc=$rc $(echo "$out" | grep -E '^\[C[0-9]+\] (held|VIOLATED)|MACHINERY' | head -1)"
  [ $rc -ne 0 ] && echo "$out" | grep -E "VIOLATION|Error|error" | head -5
done; done
