#!/usr/bin/env python3
"""Regenerates the seeded-change table of DESIGN.md section 11.3 from seeded/*/meta.json (between the two marker lines)."""
import glob, json, os, re
V = os.path.dirname(os.path.dirname(os.path.abspath(__file__)))
rows = []
for d in sorted(glob.glob(os.path.join(V, "seeded", "*"))):
    m = json.load(open(os.path.join(d, "meta.json")))
    name = os.path.basename(d)
    s = (m.get("summary") or "").replace("|", "/").replace("\n", " ")
    n = (m.get("needs_to_manifest") or "").replace("|", "/").replace("\n", " ")
    by = (m.get("detected_by") or "").replace("|", "/").replace("\n", " ")
    rows.append(f"| {name} | {s[:230]}{'...' if len(s) > 230 else ''} | {n[:170]}{'...' if len(n) > 170 else ''} | {m.get('detected')} | {by[:260]}{'...' if len(by) > 260 else ''} |")
table = "| Change | What was changed | Needs, to manifest | Detected | By |\n|---|---|---|---|---|\n" + "\n".join(rows)
p = os.path.join(V, "DESIGN.md")
s = open(p).read()
a, b = "<!-- seeded-table-begin -->", "<!-- seeded-table-end -->"
s = s[: s.index(a) + len(a)] + "\n" + table + "\n" + s[s.index(b):]
open(p, "w").write(s)
print(len(rows), "seeded changes")
