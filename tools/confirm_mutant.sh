#!/bin/sh
# usage: tools/confirm_mutant.sh <PID> <k>
# confirms an agent-written mutant in a fresh scratch worktree: suite passes with it, demo fails with it and passes without;
# then stores it under /verif/seeded/<PID>-m<k>/ (patch.diff, demo.py, meta.json skeleton)
PID="$1"; K="$2"; OUT=/tmp/wt/out-$PID; W=/tmp/wt/confirm-$PID-$K
[ -f "$OUT/m$K.diff" ] || { echo "no $OUT/m$K.diff"; exit 2; }
git -C /repo worktree add -q --detach "$W" HEAD || exit 2
cd "$W" || exit 2
PYTHONPATH="$W" /venv/bin/python "$OUT/m${K}_demo.py" >/tmp/wt/confirm.log 2>&1; d0=$?
git apply "$OUT/m$K.diff" || { echo "patch does not apply"; cd /; git -C /repo worktree remove --force "$W"; exit 2; }
PYTHONPATH="$W" /venv/bin/python "$OUT/m${K}_demo.py" >>/tmp/wt/confirm.log 2>&1; d1=$?
PYTHONPATH="$W" /venv/bin/python -m pytest -q -p no:cacheprovider -x --deselect tests/test_exporter.py::TestPythonExporter::test_object --deselect tests/test_benchmark.py::TestBenchmark::test_measure > /tmp/wt/confirm-suite.log 2>&1; t=$?
tail -1 /tmp/wt/confirm-suite.log
cd /; git -C /repo worktree remove --force "$W"
echo "demo without change: $d0 ; demo with change: $d1 ; suite with change: $t"
if [ $d0 -eq 0 ] && [ $d1 -ne 0 ] && [ $t -eq 0 ]; then
  D=/verif/seeded/$PID-m$K; mkdir -p "$D"; cp "$OUT/m$K.diff" "$D/patch.diff"; cp "$OUT/m${K}_demo.py" "$D/demo.py"; cp "$OUT/m$K.json" "$D/agent.json"
  echo "CONFIRMED -> $D"
else echo "NOT CONFIRMED"; exit 1; fi
