#!/usr/bin/env python3
"""print a python file without docstrings/blank lines, keeping original line numbers (dev aid)"""
import ast, sys
src = open(sys.argv[1]).read()
lo = int(sys.argv[2]) if len(sys.argv) > 2 else 1
hi = int(sys.argv[3]) if len(sys.argv) > 3 else 10**9
skip = set()
for n in ast.walk(ast.parse(src)):
    if isinstance(n, (ast.FunctionDef, ast.ClassDef, ast.Module, ast.AsyncFunctionDef)):
        b = n.body
        if b and isinstance(b[0], ast.Expr) and isinstance(getattr(b[0], 'value', None), ast.Constant) and isinstance(b[0].value.value, str):
            skip.update(range(b[0].lineno, b[0].end_lineno + 1))
for i, l in enumerate(src.splitlines(), 1):
    if i in skip or not l.strip() or i < lo or i > hi: continue
    print(f"{i}\t{l}")
