#!/usr/bin/env python3
"""usage: tools/meta.py <PID-mK> <detected:yes|no|partly> <free text on which check/leg reports it>"""
import json, sys, os
d = f"/verif/seeded/{sys.argv[1]}"
if not os.path.exists(f"{d}/agent.json"):      # already recorded: only the verdict is updated
    meta = json.load(open(f"{d}/meta.json"))
    meta["detected"], meta["detected_by"] = sys.argv[2], sys.argv[3]
    json.dump(meta, open(f"{d}/meta.json", "w"), indent=1)
    print("updated", d)
    sys.exit(0)
a = json.load(open(f"{d}/agent.json"))
pid = sys.argv[1].split("-")[0]
meta = {
    "property": pid,
    "summary": a.get("summary"),
    "needs_to_manifest": a.get("needs"),
    "files": a.get("files"),
    "origin": "written by a fresh sub-agent that saw only the property text and a scratch worktree (nothing from /verif)",
    "confirmed": "tools/confirm_mutant.sh: in a fresh scratch worktree of /repo HEAD the demo exits 0 without the change and non-zero with it; the repository suite (273 tests, baseline command minus the two non-baseline tests) passes with the change",
    "ran": f"tools/try_mutant.sh seeded/{sys.argv[1]}/patch.diff {pid} --tier quick   (git -C /repo apply; ./check; git -C /repo checkout -- .)",
    "detected": sys.argv[2],
    "detected_by": sys.argv[3],
}
json.dump(meta, open(f"{d}/meta.json", "w"), indent=1)
os.remove(f"{d}/agent.json")
print("wrote", d)
