#!/bin/sh
# usage: tools/try_mutant.sh <patch.diff> <check args...>   applies the patch to /repo, runs ./check, reverts
P="$(realpath "$1")"; shift
cd /repo || exit 2
git diff --quiet || { echo "/repo not clean"; exit 2; }
git apply "$P" || { echo "patch does not apply"; exit 2; }
cd /verif && ./check "$@"; rc=$?
git -C /repo checkout -- . ; git -C /repo status --short | head -3
echo "mutant check exit code: $rc"
exit $rc
