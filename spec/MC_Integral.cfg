SPECIFICATION Spec
CONSTANTS FromFile = FALSE
  Emit = FALSE
  MaxLen = 2
INVARIANT InRange
INVARIANT Ordered
INVARIANT NaNIffEmpty
INVARIANT Translation
CHECK_DEADLOCK FALSE
