SPECIFICATION Spec
CONSTANTS Keys <- KeysDef
  NK = 2
  Vals = {1, 2}
  MaxDepth = 4
  MaxSteps = 7
  Emit = FALSE
  Deferred = "both"
  RestoreAll = FALSE
INVARIANT TypeOK
PROPERTY PropExitRestores
PROPERTY PropEnterVisible
VIEW View
CHECK_DEADLOCK FALSE
