------------------------------ MODULE MC_RuleParse ------------------------------
(* C16 on the model: the three machines of RuleSyntax.tla are run on (a) every antecedent token sequence up to
   length LenA over a 12-symbol alphabet, (b) every consequent token sequence up to length LenC, (c) every
   single-error mutant of a set of valid rules (the error classes the property lists).  Each state carries the
   verdict the documented machines give, whether the documented grammar derives the text, and whether the text
   belongs to a class that must be rejected. *)
EXTENDS RuleSyntax, TLC, Json
CONSTANTS LenA, LenC, Emit
AlphaA == {"a", "y", "is", "very", "any", "lo", "and", "or", "(", ")", "zz", "1.000"}
AlphaC == {"y", "a", "is", "very", "any", "lo", "and", "with", "zz", "0.500"}
Seqs(al, n) == UNION { [1..k -> al] : k \in 1..n }
ValidRules == {
  <<"if", "a", "is", "lo", "then", "y", "is", "lo">>,
  <<"if", "a", "is", "very", "lo", "and", "y", "is", "any", "then", "y", "is", "lo", "and", "z", "is", "very", "lo", "with", "0.500">>,
  <<"if", "(", "a", "is", "lo", "or", "a", "is", "not", "lo", ")", "and", "y", "is", "lo", "then", "z", "is", "lo">>,
  <<"if", "a", "is", "any", "then", "y", "is", "not", "lo", "with", "1.000">> }
\* ---- single-error mutants, by class -------------------------------------------------------------------------------
Del(s, i) == SubSeq(s, 1, i - 1) \o SubSeq(s, i + 1, Len(s))
Ins(s, i, k) == SubSeq(s, 1, i - 1) \o <<k>> \o SubSeq(s, i, Len(s))
Sub(s, i, k) == [s EXCEPT ![i] = k]
Keywords == {"if", "then", "is", "and", "or"}       \* the connectives are keywords of the rule language too
Names == AllVars \cup TermNames
Mutants(s) ==
     { [cls |-> "missing-keyword", toks |-> Del(s, i)] : i \in { i \in 1..Len(s) : s[i] \in Keywords } }
  \cup { [cls |-> "missing-variable", toks |-> Del(s, i)] : i \in { i \in 1..Len(s) : s[i] \in AllVars /\ i < Len(s) /\ s[i + 1] = "is" } }
  \cup { [cls |-> "missing-term", toks |-> Del(s, i)] : i \in { i \in 1..Len(s) : s[i] \in TermNames } }
  \cup { [cls |-> "missing-operand", toks |-> SubSeq(s, 1, i - 1) \o SubSeq(s, j + 1, Len(s))] :
            <<i, j>> \in { ij \in (1..Len(s)) \X (1..Len(s)) : ij[1] < ij[2] /\ s[ij[1]] \in AllVars /\ s[ij[1] + 1] = "is" /\ s[ij[2]] \in TermNames \cup {"any"}
                                                               /\ (\A m \in (ij[1] + 2)..(ij[2] - 1) : s[m] \in HedgeNames)
                                                               /\ ((ij[1] > 1 /\ s[ij[1] - 1] \in {"and", "or"}) \/ (ij[2] < Len(s) /\ s[ij[2] + 1] \in {"and", "or"})) } }
  \cup { [cls |-> "unknown-name", toks |-> Sub(s, i, "zz")] : i \in { i \in 1..Len(s) : s[i] \in Names \cup HedgeNames } }
  \cup { [cls |-> "unbalanced-parenthesis", toks |-> Ins(s, i, p)] : i \in { i \in 2..Len(s) : \A m \in 1..(i - 1) : s[m] # "then" }, p \in {"(", ")"} }
  \cup { [cls |-> "unbalanced-parenthesis", toks |-> Del(s, i)] : i \in { i \in 1..Len(s) : s[i] \in {"(", ")"} } }
  \cup { [cls |-> "non-numeric-weight", toks |-> Sub(s, Len(s), k)] : k \in IF s[Len(s) - 1] = "with" THEN {"zz", "lo", "1,5", "with"} ELSE {} }
  \cup { [cls |-> "non-numeric-weight", toks |-> SubSeq(s, 1, Len(s) - 1)] : k \in IF s[Len(s) - 1] = "with" THEN {1} ELSE {} }
  \cup { [cls |-> "trailing-token", toks |-> s \o <<k>>] : k \in {"zz", "lo", "1.000", "and", "y", ")"} }
  \cup { [cls |-> "truncated", toks |-> SubSeq(s, 1, i)] : i \in 1..(Len(s) - 1) }
  \cup { [cls |-> "duplicated", toks |-> Ins(s, i, s[i])] : i \in 1..Len(s) }
  \cup { [cls |-> "swapped", toks |-> [s EXCEPT ![i] = s[i + 1], ![i + 1] = s[i]]] : i \in 1..(Len(s) - 1) }
MustRejectClasses == {"missing-keyword", "missing-variable", "missing-term", "missing-operand", "unknown-name", "unbalanced-parenthesis",
                      "non-numeric-weight", "trailing-token"}
VARIABLES kind, toks, cls, grp
vars == <<kind, toks, cls, grp>>
Init == toks = <<>> /\ cls = "" /\ (\/ (kind = "ant" /\ grp \in AlphaA) \/ (kind = "cons" /\ grp \in AlphaC) \/ (kind = "mut" /\ grp \in {"x"}) \/ (kind = "valid" /\ grp \in {"x"}))
Next == /\ toks = <<>> /\ UNCHANGED <<kind, grp>>
        /\ \/ (kind = "ant" /\ cls' = "" /\ \E s \in Seqs(AlphaA, LenA) : s[1] = grp /\ toks' = <<"if">> \o s \o <<"then", "y", "is", "lo">>)
           \/ (kind = "cons" /\ cls' = "" /\ \E s \in Seqs(AlphaC, LenC) : s[1] = grp /\ toks' = <<"if", "a", "is", "lo", "then">> \o s)
           \/ (kind = "mut" /\ \E r \in ValidRules : \E m \in Mutants(r) : toks' = m.toks /\ cls' = m.cls)
           \/ (kind = "valid" /\ cls' = "valid" /\ toks' \in ValidRules)
Spec == Init /\ [][Next]_vars
Ready == toks # <<>>
Verdict == LET r == ReadRule(toks) IN IF IsError(r) THEN r.err ELSE "ok"
\* the machines accept everything the documented grammar derives ...
AcceptsGrammar == (Ready /\ InGrammar(toks)) => Verdict = "ok"
\* ... accept the valid rules, and reject every text with one injected error of a listed class that is not itself derivable
ValidAccepted == (Ready /\ kind = "valid") => Verdict = "ok"
ListedErrorsRejected == (Ready /\ cls \in MustRejectClasses /\ ~InGrammar(toks)) => Verdict # "ok"
EmitInv == (Emit /\ Ready) => PrintT(ToJson([kind |-> kind, cls |-> cls, toks |-> toks, verdict |-> Verdict, grammar |-> InGrammar(toks)]))
=============================================================================
