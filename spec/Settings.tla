------------------------------ MODULE Settings ------------------------------
(***************************************************************************)
(* fuzzylite.library.Settings and its context manager (C20).               *)
(* `cur` is the settings singleton (one value per key), `stack` the        *)
(* currently open contexts, innermost last.  A frame records the keys the  *)
(* context named and the snapshot of *all* settings taken at entry - which *)
(* is what Settings.context does (rollback_settings = vars(self).copy())   *)
(* before it restores only the named keys in its `finally`.                *)
(***************************************************************************)
EXTENDS Integers, Sequences

CONSTANTS Keys,        \* the settings
          RestoreAll   \* canary switch: a wrong implementation that restores every key at exit

VARIABLES cur, stack
svars == <<cur, stack>>

Frame(named, snap) == [named |-> named, snap |-> snap]
Top == stack[Len(stack)]

SInit(init) == cur = init /\ stack = <<>>

(* with settings.context(k1=v1, ...):   `vals` gives the value of each named key *)
Enter(named, vals) ==
  /\ named # {}
  /\ stack' = Append(stack, Frame(named, cur))
  /\ cur'   = [k \in Keys |-> IF k \in named THEN vals[k] ELSE cur[k]]

(* the `finally` clause of one context *)
Restore(c, fr) == [k \in Keys |-> IF RestoreAll \/ k \in fr.named THEN fr.snap[k] ELSE c[k]]

(* leaving the innermost context (normally, or as one stage of an exception unwinding) *)
ExitOne ==
  /\ stack # <<>>
  /\ cur'   = Restore(cur, Top)
  /\ stack' = SubSeq(stack, 1, Len(stack) - 1)

(* an exception raised in the innermost context and caught when `lvl` contexts remain open *)
RECURSIVE Unwind(_,_,_)
Unwind(c, st, lvl) ==
  IF Len(st) <= lvl THEN <<c, st>>
  ELSE Unwind(Restore(c, st[Len(st)]), SubSeq(st, 1, Len(st) - 1), lvl)
Raise(lvl) ==
  /\ stack # <<>> /\ lvl < Len(stack)
  /\ LET r == Unwind(cur, stack, lvl) IN cur' = r[1] /\ stack' = r[2]

(* direct assignment  settings.k = v  (inside or outside a context) *)
Assign(k, v) == cur' = [cur EXCEPT ![k] = v] /\ UNCHANGED stack

---------------------------------------------------------------------------
(* C20 as an action property: whenever contexts are left - one normally, or any number by an
   exception - every key named by the outermost frame left has that frame's entry value, every key
   named by some frame left has the entry value of the outermost frame naming it, and a key named by
   none of the frames left is not touched by the exit. *)
LeftFrames == (Len(stack') + 1)..Len(stack)
ExitRestores ==
  Len(stack') < Len(stack) =>
     /\ \A k \in Keys :
          IF \E j \in LeftFrames : k \in stack[j].named
          THEN LET j0 == CHOOSE j \in LeftFrames : k \in stack[j].named /\ \A i \in LeftFrames : (i < j => k \notin stack[i].named)
               IN cur'[k] = stack[j0].snap[k]
          ELSE cur'[k] = cur[k]
     /\ \A i \in 1..Len(stack') : stack'[i] = stack[i]
(* inside the context the temporary values are visible, the others untouched *)
EnterVisible ==
  Len(stack') > Len(stack) =>
     LET fr == stack'[Len(stack')] IN
     /\ fr.snap = cur
     /\ \A k \in Keys \ fr.named : cur'[k] = cur[k]
=============================================================================
