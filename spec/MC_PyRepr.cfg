SPECIFICATION Spec
CONSTANTS FromFile = FALSE
  Emit = FALSE
  CrossLocks = FALSE
  DropDisabled = FALSE
  Decs = {3}
INVARIANT Rebuilds
CHECK_DEADLOCK FALSE
