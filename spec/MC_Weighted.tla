------------------------------ MODULE MC_Weighted ------------------------------
(* C10: weighted defuzzifiers on fuzzy outputs of 0..MaxLen activations over a palette of Constant,
   monotonic and non-monotonic terms with repetitions, every aggregation operator or none, the three
   type settings.  Cases are enumerated here (exhaustive up to MaxLen) or read from a seeded case file. *)
EXTENDS Defuzzifiers, TLC, Json, IOUtils
CONSTANTS MaxLen, FromFile, Emit
TermPal == [ c1 |-> [name |-> "c1", k |-> "Constant", p |-> <<Q(-1,2)>>, h |-> One],
             c2 |-> [name |-> "c2", k |-> "Constant", p |-> <<Q(3,4)>>, h |-> One],
             up |-> [name |-> "up", k |-> "Ramp", p |-> <<Zero, One>>, h |-> One],
             dn |-> [name |-> "dn", k |-> "Ramp", p |-> <<One, Zero>>, h |-> Half],
             cv |-> [name |-> "cv", k |-> "Concave", p |-> <<Q(1,4), Q(3,4)>>, h |-> One],
             ss |-> [name |-> "ss", k |-> "SShape", p |-> <<Zero, One>>, h |-> One],
             tri |-> [name |-> "tri", k |-> "Triangle", p |-> <<Zero, Half, One>>, h |-> One] ]
TermKeys == {"c1", "c2", "up", "dn", "tri"}             \* enumerated palette (cv, ss come through the case file)
DegPal == { Zero, Q(1,8), Half, One }
Aggrs == BoundedSNorms \cup {"UnboundedSum", "none"}
Types == {"Automatic", "TakagiSugeno", "Tsukamoto"}
Acts(n) == [1..n -> [t : TermKeys, d : DegPal]]
FileCases == IF FromFile THEN JsonDeserialize(IOEnv.VERIF_CASES) ELSE <<>>

VARIABLES acts, aggr, type, cls, grp, ready
vars == <<acts, aggr, type, cls, grp, ready>>
MkActs(s) == [i \in 1..Len(s) |-> [term |-> TermPal[s[i].t], degree |-> s[i].d, impl |-> "none"]]
Init == /\ acts = <<>> /\ ready = FALSE /\ aggr \in (IF FromFile THEN {"file"} ELSE Aggrs) /\ type = "?" /\ cls = "?"
        /\ grp \in (IF FromFile THEN 1..16 ELSE 0..MaxLen)
Next == /\ ~ready /\ ready' = TRUE
        /\ IF FromFile
           THEN \E i \in { j \in 1..Len(FileCases) : j % 16 = grp - 1 } :
                  /\ acts' = MkActs(FileCases[i].acts) /\ aggr' = FileCases[i].aggr /\ type' = FileCases[i].type /\ cls' = FileCases[i].cls
           ELSE \E s \in Acts(grp), ty \in Types, c \in WeightedDefuzzifiers :
                  /\ acts' = MkActs(s) /\ type' = ty /\ cls' = c /\ UNCHANGED aggr
        /\ UNCHANGED grp
Spec == Init /\ [][Next]_vars

Ready == ready
ZOfTerm(g) == MuX(g.term, g.degree)
Res(a) == Weighted(cls, type, a, aggr, ZOfTerm)
RR == Res(acts)
EffType(a) == IF type = "Automatic" THEN InferType(a) ELSE type
\* an activation with degree 0 never changes the result (as long as it does not change the inferred kind)
Drop(a, i) == SubSeq(a, 1, i - 1) \o SubSeq(a, i + 1, Len(a))
ZeroDegreeInvariance == Ready => \A i \in 1..Len(acts) :
    (acts[i].degree = Zero /\ Len(acts) > 1 /\ EffType(Drop(acts, i)) = EffType(acts) /\ ~RR.raises) =>
        (Res(Drop(acts, i)).v = RR.v \/ IsBad(RR.v))
\* NaN exactly when there are no activations or all weights are zero (finite term values)
GG == GroupedTerms(acts, aggr)
TotalW == FoldSeq(LAMBDA e, acc : Add(acc, e.degree), Zero, GG)
FiniteZ == \A i \in 1..Len(GG) : LET z == GroupZ(EffType(acts), GG[i], ZOfTerm) IN Eq(GG[i].degree, Zero) \/ IsFin(z)
NaNExactly == (Ready /\ ~RR.raises /\ ~IsBad(RR.v) /\ FiniteZ) => (IsNaN(RR.v) <=> (acts = <<>> \/ Eq(TotalW, Zero)))
\* a weighted average of constants lies between the smallest and the largest activated constant
Consts == { i \in 1..Len(GG) : GG[i].term.k = "Constant" /\ Gt(GG[i].degree, Zero) }
AverageOfConstants == (Ready /\ cls = "WeightedAverage" /\ ~RR.raises /\ acts # <<>> /\ \A i \in 1..Len(GG) : GG[i].term.k = "Constant" /\ Consts # {}
                        /\ EffType(acts) # "Tsukamoto") =>
    \E lo \in Consts, hi \in Consts : Le(GG[lo].term.p[1], RR.v) /\ Le(RR.v, GG[hi].term.p[1])
\* the kind is inferred from the terms unless fixed; a mixture is refused
InferenceTable == Ready => /\ (type = "Automatic" /\ RR.raises) <=> (type = "Automatic" /\ Cardinality({ TermType(acts[i].term) : i \in 1..Len(acts) }) > 1)
                           /\ (type = "TakagiSugeno" => ~RR.raises)
                           /\ (type = "Tsukamoto" => (RR.raises <=> \E i \in 1..Len(acts) : ~IsMonotonic(acts[i].term)))
\* grouping: one group per distinct name, in first-occurrence order
GroupingShape == Ready => /\ Cardinality({ GG[i].term.name : i \in 1..Len(GG) }) = Len(GG)
                          /\ { GG[i].term.name : i \in 1..Len(GG) } = { acts[i].term.name : i \in 1..Len(acts) }
EmitInv == (Emit /\ Ready) => PrintT(ToJson([acts |-> [i \in 1..Len(acts) |-> [t |-> acts[i].term.name, d |-> acts[i].degree]], aggr |-> aggr, type |-> type, cls |-> cls,
                                 raises |-> RR.raises, v |-> RR.v, groups |-> [i \in 1..Len(GG) |-> [t |-> GG[i].term.name, d |-> GG[i].degree]]]))
=============================================================================
