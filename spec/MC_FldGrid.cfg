SPECIFICATION Spec
CONSTANTS VMax = 2000
  KMax = 5
  Emit = FALSE
  FloorRoot = FALSE
INVARIANT RootIsIntegerRoot
INVARIANT CounterIsLexicographic
INVARIANT CounterStopsAtEnd
CHECK_DEADLOCK FALSE
