SPECIFICATION Spec
CONSTANTS Palette = "dyadic"
  Kinds = {"Triangle", "Trapezoid", "Rectangle", "Ramp", "Binary", "Concave", "SShape", "ZShape", "PiShape", "Gaussian", "GaussianProduct", "Bell", "Cosine", "Spike", "Sigmoid", "SigmoidDifference", "SigmoidProduct", "Arc", "SemiEllipse", "Discrete", "Constant"}
  Emit = FALSE
INVARIANT PieceAgree
INVARIANT RangeOK
INVARIANT NaNIff
INVARIANT Monotone
INVARIANT Continuous
CHECK_DEADLOCK FALSE
