----------------------------- MODULE MC_Factories -----------------------------
(* Every behaviour of at most MaxSteps operations on up to two factory managers (create, register, deregister, assign
   to settings, enter / leave a settings context) interleaved with uses of the library that consult the factories, and
   with one long-lived Function term parsed under one registry and evaluated under another.  Invariants: every use sees
   the registry of the manager that is current at the time of the call (canary Cached: memoised hedge look-ups); a
   parsed formula keeps the elements it was parsed with (canary LateBinding); a new manager has the default registry;
   leaving a context restores the manager that was current when it was entered.  DefaultTableAgrees ties the
   registry-parameterised shunting yard / postfix machine to the fixed-table ones of ShuntingYard / FunctionSyntax.
   Complete behaviours are emitted and replayed on real FactoryManager objects. *)
EXTENDS Factories, TLC, Json
CONSTANTS MaxSteps, Emit

VARIABLES steps, expect
vars == <<reg, live, cur, saved, held, memo, steps, expect>>

XVals == { Two, Q(1, 2) }
Log(s) == steps' = Append(steps, s) /\ expect' = Append(expect, obs')
St(a, m, k, key, c, i, x) == [act |-> a, m |-> m, k |-> k, key |-> key, c |-> c, i |-> i, x |-> x]
\* uses are sampled: the ones whose outcome depends on what the behaviour did so far
Next == /\ Len(steps) < MaxSteps
        /\ \/ \E m \in Managers : Create(m) /\ Log(St("Create", m, "", "", "", 0, Zero))
           \/ \E m \in live, k \in Kinds : \E key \in KeysOf(k), c \in CtorsOf(k) :
                  Register(m, k, key, c) /\ Log(St("Register", m, k, key, c, 0, Zero))
           \/ \E m \in live, k \in Kinds : \E key \in KeysOf(k) :
                  Deregister(m, k, key) /\ Log(St("Deregister", m, k, key, "", 0, Zero))
           \/ \E m \in live : Assign(m) /\ Log(St("Assign", m, "", "", "", 0, Zero))
           \/ \E m \in live : Enter(m) /\ Log(St("Enter", m, "", "", "", 0, Zero))
           \/ Exit /\ Log(St("Exit", "", "", "", "", 0, Zero))
           \/ \E u \in Uses : Use(u) /\ Log(St(u.op, "", u.k, u.key, "", u.i, Zero))
           \/ \E i \in 1..Len(Formulas) : Parse(i) /\ Log(St("Parse", "", "", "", "", i, Zero))
           \/ \E x \in XVals : Evaluate(x) /\ Log(St("Evaluate", "", "", "", "", 0, x))
Init == FInit /\ steps = <<>> /\ expect = <<>> /\ obs = <<"-">>
Spec == Init /\ [][Next]_<<vars, obs>>

LastOf(s) == s[Len(s)]
IsUse(s) == s.act \in {"construct", "contains", "len", "rule", "import", "configure"}
\* the registry as the canaries do not distort it
PlainHedges(r) == { key \in HKeys : r.hedge[key] # None } \cup {"any"}
PlainRule(r, i) ==
  LET x == RS(PlainHedges(r))!ReadRule(RuleTexts[i]) IN
  IF RS(PlainHedges(r))!IsError(x) THEN <<"SyntaxError", x.err>>
  ELSE <<"ok", [j \in 1..Len(x.ant.hs) |-> r.hedge[x.ant.hs[j]]], x.ant.t,
               [c \in 1..Len(x.cons) |-> [j \in 1..Len(x.cons[c].hs) |-> r.hedge[x.cons[c].hs[j]]]]>>
SeesCurrentRegistry ==
  (steps # <<>> /\ IsUse(LastOf(steps))) =>
     LET s == LastOf(steps) IN
     obs = IF s.act = "rule" THEN PlainRule(reg[cur], s.i) ELSE Result(reg[cur], [op |-> s.act, k |-> s.k, key |-> s.key, i |-> s.i])
\* the held tree evaluates with the elements copied at parse time, whatever the registry is now
RECURSIVE PlainEval(_,_)
PlainEval(t, x) ==
  CASE t.k = "num" -> KQ(t.x)
    [] t.k = "var" -> IF t.n = "x" THEN KQ(x) ELSE <<"unknown-variable">>
    [] t.k = "f1" -> LET a == PlainEval(t.a, x) IN IF a = <<"unknown-variable">> THEN a ELSE ElemValue(t.f, a, a)
    [] t.k = "f2" -> LET a == PlainEval(t.a, x)  b == PlainEval(t.b, x) IN
                     IF a = <<"unknown-variable">> \/ b = <<"unknown-variable">> THEN <<"unknown-variable">> ELSE ElemValue(t.f, a, b)
    [] t.k = "bin" -> LET l == PlainEval(t.l, x)  r == PlainEval(t.r, x) IN
                      IF l = <<"unknown-variable">> \/ r = <<"unknown-variable">> THEN <<"unknown-variable">> ELSE EvalBin(t.o, l, r)
    [] t.k = "un" -> LET a == PlainEval(t.a, x) IN IF a = <<"unknown-variable">> THEN a ELSE EvalUn(t.o, a)
KeepsParsedElements ==
  (steps # <<>> /\ LastOf(steps).act = "Evaluate") =>
     LET v == PlainEval(held[1], LastOf(steps).x) IN obs = IF v = <<"unknown-variable">> THEN <<"ValueError">> ELSE <<"value", v>>
NewManagerHasDefaults == [][\A m \in Managers : (m \notin live /\ m \in live') => reg'[m] = Default]_<<vars, obs>>
OthersUntouched == [][\A m \in live : (\E s \in {1} : Len(steps') > Len(steps) /\ LastOf(steps').act \in {"Register", "Deregister"} /\ LastOf(steps').m # m) => reg'[m] = reg[m]]_<<vars, obs>>
\* leaving a context restores the manager that was current when it was entered
ContextRestores == [][(Len(saved') < Len(saved)) => cur' = saved[Len(saved)]]_<<vars, obs>>
TypeOK == /\ live \subseteq Managers /\ cur \in live /\ DOMAIN reg = live /\ Len(saved) <= 2
          /\ \A m \in live : \A k \in Kinds : \A key \in KeysOf(k) : reg[m][k][key] \in CtorsOf(k) \cup {None}

\* on the default table the parameterised shunting yard / postfix machine are the fixed ones of ShuntingYard / FunctionSyntax
Alphabet == {"sin", "x", "(", ")", "+", ",", "^", "1.000", "sq"}
DefaultTab == [key \in {"sin"} |-> "sin"]
Strip(t) == t        \* trees differ only by the `key` field: compared through their postfix
RECURSIVE PostR(_)
PostR(t) == CASE t.k = "num" -> <<t.tok>> [] t.k = "var" -> <<t.n>>
              [] t.k = "f1" -> PostR(t.a) \o <<t.key>> [] t.k = "f2" -> PostR(t.a) \o PostR(t.b) \o <<t.key>>
              [] t.k = "un" -> PostR(t.a) \o <<OpT[t.o].sym>> [] t.k = "bin" -> PostR(t.l) \o PostR(t.r) \o <<OpT[t.o].sym>>
              [] t.k = "error" -> <<"#error", t.why>>
PostF(t) == IF t.k = "error" THEN <<"#error", t.why>> ELSE PostfixF(t)
\* restricted to the functions of the model alphabet: FunctionSyntax knows all 34, the default registry of the model only sin
DefaultTableAgrees ==
  \A n \in 1..4 : \A toks \in [1..n -> Alphabet \ {"sq"}] :
      /\ SYR(DefaultTab, toks, <<>>, <<>>) = InfixToPostfix(toks)
      /\ PostR(ReadFormulaR(DefaultTab, toks, NumTab)) = PostF(ReadFormula(toks, NumTab))
ASSUME DefaultTableAgrees

EmitInv == (Emit /\ Len(steps) = MaxSteps /\ (IsUse(LastOf(steps)) \/ LastOf(steps).act \in {"Parse", "Evaluate"})) =>
              PrintT(ToJson([steps |-> steps, expect |-> expect]))
View == <<reg, live, cur, saved, held, memo, Len(steps), IF steps = <<>> THEN <<>> ELSE <<LastOf(steps), LastOf(expect)>> >>
=============================================================================
