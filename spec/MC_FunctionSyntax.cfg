SPECIFICATION Spec
CONSTANTS FromFile = FALSE
  Emit = FALSE
  RightAssocMinus = FALSE
INVARIANT RoundTrip
INVARIANT PostfixAgrees
CHECK_DEADLOCK FALSE
