-------------------------------- MODULE Hedges --------------------------------
(***************************************************************************)
(* The six registered hedges of fuzzylite.hedge, from the documented        *)
(* equations.  H takes an exact degree and returns a kernel expression      *)
(* (exact whenever the result is rational).  Branch conditions use IEEE     *)
(* comparison: for a NaN degree the "otherwise" branch applies and the      *)
(* arithmetic yields NaN.                                                   *)
(***************************************************************************)
EXTENDS KExpr

HedgeNames == {"any", "extremely", "not", "seldom", "somewhat", "very"}

H(name, x) ==
  CASE name = "any"       -> KQ(One)
    [] name = "not"       -> KQ(Sub(One, x))
    [] name = "very"      -> KQ(Sq(x))
    [] name = "somewhat"  -> KSqrt(KQ(x))
    [] name = "extremely" -> IF Le(x, Half) THEN KQ(Mul(Two, Sq(x)))
                             ELSE KQ(Sub(One, Mul(Two, Sq(Sub(One, x)))))
    [] name = "seldom"    -> IF Le(x, Half) THEN KSqrt(KQ(Mul(Half, x)))
                             ELSE KSub(KQ(One), KSqrt(KQ(Mul(Half, Sub(One, x)))))

\* exact variant for the engine-level models: the result when it is rational, otherwise the marker Irr
HX(name, x) == IF IsBad(x) THEN x ELSE LET e == H(name, x) IN IF IsQ(e) THEN QV(e) ELSE Irr
\* a chain of hedges written `h1 h2 ... hn term` applies from the one nearest the term outwards
RECURSIVE HChain(_,_)
HChain(hs, x) == IF hs = <<>> THEN x ELSE HX(Head(hs), HChain(Tail(hs), x))
=============================================================================
