------------------------------- MODULE XReal -------------------------------
(***************************************************************************)
(* Extended reals used by every numeric layer of the pyfuzzylite           *)
(* specification.  TLA+ has no reals and TLC no floating point, so a value *)
(* is an exact rational extended with the IEEE special values the library  *)
(* relies on.  A value is always a triple of integers <<k, n, d>> (TLC     *)
(* refuses to compare values of different kinds, hence one uniform shape): *)
(*    k =  0   finite rational n/d, d > 0, lowest terms                    *)
(*    k =  1   +infinity     k = -1   -infinity     k = 2   NaN            *)
(* The arithmetic follows IEEE-754 / numpy for the special values:         *)
(*   NaN is contagious; inf-inf, 0*inf, 0/0, inf/inf are NaN; x/0 = +-inf; *)
(*   every comparison with NaN is FALSE; XMin/XMax/Clip propagate NaN as     *)
(*   numpy.minimum / numpy.maximum / numpy.clip do.                        *)
(* TLC integers are 32 bit and TLC raises on overflow, so an out-of-range  *)
(* intermediate is a loud failure and never a wrong verdict.               *)
(***************************************************************************)
EXTENDS Integers, Sequences, SequencesExt, FiniteSetsExt

RECURSIVE Gcd(_,_)
Gcd(a,b) == IF b = 0 THEN a ELSE Gcd(b, a % b)
IAbs(x) == IF x < 0 THEN -x ELSE x
IMax1(x) == IF x < 1 THEN 1 ELSE x

Q(n,d) == LET g  == Gcd(IAbs(n), IAbs(d))
              sg == IF d < 0 THEN -1 ELSE 1
          IN <<0, (sg * n) \div g, (sg * d) \div g>>
I(n)   == <<0, n, 1>>

NaN  == <<2,0,1>>
PInf == <<1,0,1>>
NInf == <<-1,0,1>>
Zero == <<0,0,1>>
One  == <<0,1,1>>
Two  == <<0,2,1>>
Half == <<0,1,2>>

IsNaN(x) == x[1] = 2
\* k = 3: "irrational, not representable exactly".  It arises only in the engine-level models (square
\* roots of non-squares); every arithmetic operator is strict in it and every comparison with it is
\* FALSE.  Drivers skip a case as soon as an observed value carries the marker.
Irr == <<3,0,1>>
IsIrr(x) == x[1] = 3
\* k = 4: "the library raises here" (a missing operator met during evaluation, C19); strict like Irr and dominating it
Err == <<4,0,1>>
IsErr(x) == x[1] = 4
IsBad(x) == x[1] >= 3
Worst(a, b) == IF IsErr(a) \/ IsErr(b) THEN Err ELSE Irr
IsFin(x) == x[1] = 0
IsInf(x) == x[1] = 1 \/ x[1] = -1
IsXReal(x) == /\ x \in Seq(Int) /\ Len(x) = 3 /\ x[1] \in {-1,0,1,2,3,4}
              /\ (x[1] # 0 => x[2] = 0 /\ x[3] = 1)
              /\ (x[1] = 0 => x[3] > 0 /\ Gcd(IAbs(x[2]), x[3]) = 1)

Sign(x) == IF x[1] = 0 THEN (IF x[2] > 0 THEN 1 ELSE IF x[2] < 0 THEN -1 ELSE 0) ELSE x[1]

Neg(x) == IF IsBad(x) THEN x ELSE IF IsNaN(x) THEN NaN ELSE IF IsFin(x) THEN <<0,-x[2],x[3]>> ELSE <<-x[1],0,1>>
Abs(x) == IF IsBad(x) THEN x ELSE IF IsNaN(x) THEN NaN ELSE IF IsFin(x) THEN <<0,IAbs(x[2]),x[3]>> ELSE PInf

Add(a,b) == IF IsBad(a) \/ IsBad(b) THEN Worst(a, b) ELSE IF IsNaN(a) \/ IsNaN(b) THEN NaN
            ELSE IF IsFin(a) /\ IsFin(b) THEN LET g == Gcd(a[3], b[3]) IN Q(a[2]*(b[3] \div g) + b[2]*(a[3] \div g), (a[3] \div g)*b[3])   \* lcm keeps 32-bit intermediates small
            ELSE IF IsInf(a) /\ IsInf(b) THEN (IF a[1] = b[1] THEN a ELSE NaN)
            ELSE IF IsInf(a) THEN a ELSE b
Sub(a,b) == Add(a, Neg(b))
Mul(a,b) == IF IsBad(a) \/ IsBad(b) THEN Worst(a, b) ELSE IF IsNaN(a) \/ IsNaN(b) THEN NaN
            ELSE IF IsFin(a) /\ IsFin(b) THEN LET g1 == Gcd(IAbs(a[2]), b[3])  g2 == Gcd(IAbs(b[2]), a[3]) IN
                 Q((a[2] \div IMax1(g1))*(b[2] \div IMax1(g2)), (a[3] \div IMax1(g2))*(b[3] \div IMax1(g1)))   \* cross-cancel first
            ELSE IF Sign(a) = 0 \/ Sign(b) = 0 THEN NaN          \* 0 * inf
            ELSE IF Sign(a) * Sign(b) > 0 THEN PInf ELSE NInf
Div(a,b) == IF IsBad(a) \/ IsBad(b) THEN Worst(a, b) ELSE IF IsNaN(a) \/ IsNaN(b) THEN NaN
            ELSE IF IsFin(a) /\ IsFin(b) THEN
                 (IF b[2] = 0 THEN (IF a[2] = 0 THEN NaN ELSE IF a[2] > 0 THEN PInf ELSE NInf)
                  ELSE Q(a[2]*b[3], a[3]*b[2]))
            ELSE IF IsInf(a) /\ IsInf(b) THEN NaN
            ELSE IF IsInf(a) THEN (IF Sign(b) >= 0 THEN a ELSE Neg(a))
            ELSE Zero
Sq(a) == Mul(a,a)
RECURSIVE PowI(_,_)
PowI(a, n) == IF n = 0 THEN One ELSE Mul(a, PowI(a, n-1))     \* n a natural number

\* comparisons: FALSE as soon as one side is NaN (IEEE)
Lt(a,b) == IF IsNaN(a) \/ IsNaN(b) \/ IsBad(a) \/ IsBad(b) THEN FALSE
           ELSE IF IsFin(a) /\ IsFin(b) THEN a[2]*b[3] < b[2]*a[3]
           ELSE IF IsFin(a) THEN b[1] = 1
           ELSE IF IsFin(b) THEN a[1] = -1
           ELSE a[1] < b[1]
Eq(a,b) == ~IsNaN(a) /\ ~IsNaN(b) /\ ~IsBad(a) /\ ~IsBad(b) /\ a = b
Le(a,b) == Lt(a,b) \/ Eq(a,b)
Gt(a,b) == Lt(b,a)
Ge(a,b) == Le(b,a)
Ne(a,b) == ~Eq(a,b)                       \* IEEE: NaN != x is TRUE

\* numpy.minimum / maximum / clip
XMin(a,b) == IF IsBad(a) \/ IsBad(b) THEN Worst(a, b) ELSE IF IsNaN(a) \/ IsNaN(b) THEN NaN ELSE IF Le(a,b) THEN a ELSE b
XMax(a,b) == IF IsBad(a) \/ IsBad(b) THEN Worst(a, b) ELSE IF IsNaN(a) \/ IsNaN(b) THEN NaN ELSE IF Le(a,b) THEN b ELSE a
Clip(x, lo, hi) == XMin(XMax(x, lo), hi)

\* Activated.degree setter:  numpy.nan_to_num(x, nan=0, neginf=0, posinf=1)
NanToNum01(x) == IF IsBad(x) THEN x ELSE IF IsNaN(x) \/ x = NInf THEN Zero ELSE IF x = PInf THEN One ELSE x

Ind(b) == IF b THEN One ELSE Zero

\* sums and products of sequences of XReals (FoldSeq iterates in Java: no recursion limit)
SumSeq(s)  == FoldSeq(LAMBDA x, acc : Add(acc, x), Zero, s)
\* integer helpers
IMin(a,b) == IF a < b THEN a ELSE b
IMax(a,b) == IF a < b THEN b ELSE a
RECURSIVE IPow(_,_)
IPow(b, e) == IF e = 0 THEN 1 ELSE b * IPow(b, e-1)
=============================================================================
