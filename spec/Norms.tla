-------------------------------- MODULE Norms --------------------------------
(***************************************************************************)
(* The 7 T-norms and 9 S-norms of fuzzylite.norm, transcribed from the      *)
(* documented equations into exact extended-real arithmetic (XReal).       *)
(* Piecewise definitions use IEEE comparisons: a condition involving NaN is *)
(* false, so the "otherwise" case applies - which is what numpy.where does. *)
(* Documentation slips resolved by the laws the property states:           *)
(*  - NilpotentMaximum's condition is a+b<1 (the docstring's a+b<0 would    *)
(*    contradict duality with NilpotentMinimum and the identity law);       *)
(*  - HamacherProduct at (0,0) and HamacherSum at (1,1) are 0/0 in the      *)
(*    formula; annihilator/identity laws force 0 and 1.                     *)
(***************************************************************************)
EXTENDS XReal

TNorms == {"AlgebraicProduct", "BoundedDifference", "DrasticProduct", "EinsteinProduct",
           "HamacherProduct", "Minimum", "NilpotentMinimum"}
SNorms == {"AlgebraicSum", "BoundedSum", "DrasticSum", "EinsteinSum", "HamacherSum",
           "Maximum", "NilpotentMaximum", "NormalizedSum", "UnboundedSum"}
BoundedSNorms == SNorms \ {"UnboundedSum"}
AssociativeSNorms == BoundedSNorms \ {"NormalizedSum"}

T(op, a, b) ==
  CASE op = "AlgebraicProduct"  -> Mul(a, b)
    [] op = "BoundedDifference" -> XMax(Zero, Sub(Add(a, b), One))
    [] op = "DrasticProduct"    -> IF Eq(XMax(a, b), One) THEN XMin(a, b) ELSE Zero
    [] op = "EinsteinProduct"   -> Div(Mul(a, b), Sub(Two, Sub(Add(a, b), Mul(a, b))))
    [] op = "HamacherProduct"   -> IF Ne(Add(a, b), Zero) THEN Div(Mul(a, b), Sub(Add(a, b), Mul(a, b))) ELSE Zero
    [] op = "Minimum"           -> XMin(a, b)
    [] op = "NilpotentMinimum"  -> IF Gt(Add(a, b), One) THEN XMin(a, b) ELSE Zero

S(op, a, b) ==
  CASE op = "AlgebraicSum"      -> Sub(Add(a, b), Mul(a, b))
    [] op = "BoundedSum"        -> XMin(One, Add(a, b))
    [] op = "DrasticSum"        -> IF Eq(XMin(a, b), Zero) THEN XMax(a, b) ELSE One
    [] op = "EinsteinSum"       -> Div(Add(a, b), Add(One, Mul(a, b)))
    [] op = "HamacherSum"       -> IF Ne(Mul(a, b), One) THEN Div(Sub(Add(a, b), Mul(Two, Mul(a, b))), Sub(One, Mul(a, b))) ELSE One
    [] op = "Maximum"           -> XMax(a, b)
    [] op = "NilpotentMaximum"  -> IF Lt(Add(a, b), One) THEN XMax(a, b) ELSE One
    [] op = "NormalizedSum"     -> Div(Add(a, b), XMax(One, Add(a, b)))
    [] op = "UnboundedSum"      -> Add(a, b)

\* a norm by name, whichever family it belongs to (rule blocks and output variables store either)
\* "Mean" stands for an operator supplied by the user (NormLambda / NormFunction): the arithmetic mean, which is neither
\* associative nor a norm - the grouping of an antecedent is visible through it
Norm(op, a, b) == IF IsBad(a) \/ IsBad(b) THEN Worst(a, b) ELSE IF op = "none" THEN Err ELSE IF op = "Mean" THEN Mul(Half, Add(a, b))
                  ELSE IF op \in TNorms THEN T(op, a, b) ELSE S(op, a, b)

\* same-family pairs: S(a,b) = 1 - T(1-a, 1-b)
Dual == [AlgebraicProduct |-> "AlgebraicSum", BoundedDifference |-> "BoundedSum", DrasticProduct |-> "DrasticSum",
         EinsteinProduct |-> "EinsteinSum", HamacherProduct |-> "HamacherSum", Minimum |-> "Maximum",
         NilpotentMinimum |-> "NilpotentMaximum"]
=============================================================================
