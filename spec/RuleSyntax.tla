------------------------------ MODULE RuleSyntax ------------------------------
(***************************************************************************)
(* Text of fuzzy rules (C06, C16): printing an antecedent tree with minimal *)
(* or redundant parentheses, the shunting-yard step, and the three finite  *)
(* state machines of fuzzylite.rule - Rule.parse, Antecedent.load,         *)
(* Consequent.load - written from their documented transition rules.       *)
(* Trees are those of Engine.tla: [kind |-> "p", v, hs, t] | [kind |->     *)
(* "and"|"or", l, r].  A result is either a value or [err |-> class].      *)
(***************************************************************************)
EXTENDS ShuntingYard

CONSTANTS InVars, OutVars,      \* names of the input / output variables
          TermNames,            \* names of the terms (every variable has all of them)
          HedgeNames            \* registered hedges

AllVars == InVars \cup OutVars
IsLeaf(t) == t.kind = "p"
LeafToks(t) == <<t.v, "is">> \o t.hs \o (IF t.t = "" THEN <<>> ELSE <<t.t>>)

RECURSIVE Postfix(_)
Postfix(t) == IF IsLeaf(t) THEN LeafToks(t) ELSE Postfix(t.l) \o Postfix(t.r) \o <<t.kind>>

\* printer.  style 0: minimal parentheses; 1: every operator node below the root parenthesised; 2: also every proposition
Par(s) == <<"(">> \o s \o <<")">>
PrecK(k) == IF k = "and" THEN 60 ELSE 50
RECURSIVE Show(_,_)
Show(t, st) ==
  IF IsLeaf(t) THEN (IF st = 2 THEN Par(LeafToks(t)) ELSE LeafToks(t))
  ELSE LET l == t.l  r == t.r
           lp == ~IsLeaf(l) /\ (st >= 1 \/ PrecK(l.kind) < PrecK(t.kind))
           \* left associativity: the right child needs parentheses when its precedence is lower OR EQUAL
           rp == ~IsLeaf(r) /\ (st >= 1 \/ PrecK(r.kind) <= PrecK(t.kind))
       IN (IF lp THEN Par(Show(l, st)) ELSE Show(l, st)) \o <<t.kind>> \o (IF rp THEN Par(Show(r, st)) ELSE Show(r, st))

Error(c) == [err |-> c]
IsError(x) == "err" \in DOMAIN x

\* ---- Antecedent.load: the state machine over the postfix tokens ------------------------------------------
\* (1) after a variable comes `is`; (2) after `is` a hedge or a term; (3) after a hedge a hedge or a term
\* (`any` closes the proposition); (4) after a term a variable or an operator
SetTop(stack, x) == [stack EXCEPT ![Len(stack)] = x]
RECURSIVE LoadA(_,_,_)
LoadA(toks, state, stack) ==
  IF toks = <<>> THEN
     IF state \cap {"variable", "and_or"} = {} THEN Error(IF "is" \in state THEN "expected-is" ELSE "expected-hedge-or-term")
     ELSE IF Len(stack) # 1 THEN Error("unable-to-parse")
     ELSE stack[1]
  ELSE LET k == Head(toks)  rest == Tail(toks) IN
    IF "variable" \in state /\ k \in AllVars
       THEN LoadA(rest, {"is"}, Append(stack, [kind |-> "p", v |-> k, hs |-> <<>>, t |-> ""]))
    ELSE IF "is" \in state /\ k = "is" THEN LoadA(rest, {"hedge", "term"}, stack)
    ELSE IF "hedge" \in state /\ k \in HedgeNames
       THEN LoadA(rest, IF k = "any" THEN {"variable", "and_or"} ELSE {"hedge", "term"},
                  SetTop(stack, [Top(stack) EXCEPT !.hs = Append(@, k)]))
    ELSE IF "term" \in state /\ k \in TermNames
       THEN LoadA(rest, {"variable", "and_or"}, SetTop(stack, [Top(stack) EXCEPT !.t = k]))
    ELSE IF "and_or" \in state /\ k \in {"and", "or"}
       THEN IF Len(stack) < 2 THEN Error("operator-expects-2-operands")
            ELSE LoadA(rest, {"variable", "and_or"},
                       Append(SubSeq(stack, 1, Len(stack) - 2), [kind |-> k, l |-> stack[Len(stack) - 1], r |-> stack[Len(stack)]]))
    ELSE IF state \cap {"variable", "and_or"} # {} THEN Error("expected-variable-or-operator")
    ELSE IF "is" \in state THEN Error("expected-is")
    ELSE Error("expected-hedge-or-term")
\* the antecedent as the library reads it: tokens (already spaced) -> tree or error
ReadAntecedent(toks) ==
  IF toks = <<>> THEN Error("empty-antecedent")
  ELSE LET pf == InfixToPostfix(toks) IN
       IF pf = ERR THEN Error("mismatching-parentheses") ELSE LoadA(pf, {"variable"}, <<>>)

\* ---- Consequent.load ------------------------------------------------------------------------------------
RECURSIVE LoadC(_,_,_)
LoadC(toks, state, concl) ==
  IF toks = <<>> THEN
     IF state \cap {"and", "with"} = {} THEN Error("consequent-incomplete") ELSE [concl |-> concl]
  ELSE LET k == Head(toks)  rest == Tail(toks)  n == Len(concl) IN
    IF "variable" \in state /\ k \in OutVars THEN LoadC(rest, {"is"}, Append(concl, [var |-> k, hs |-> <<>>, term |-> ""]))
    ELSE IF "is" \in state /\ k = "is" THEN LoadC(rest, {"hedge", "term"}, concl)
    ELSE IF "hedge" \in state /\ k \in HedgeNames THEN LoadC(rest, {"hedge", "term"}, [concl EXCEPT ![n].hs = Append(@, k)])
    ELSE IF "term" \in state /\ k \in TermNames THEN LoadC(rest, {"and", "with"}, [concl EXCEPT ![n].term = k])
    ELSE IF "and" \in state /\ k = "and" THEN LoadC(rest, {"variable"}, concl)
    ELSE Error(IF "variable" \in state THEN "expected-output-variable" ELSE IF "is" \in state THEN "expected-is"
               ELSE IF state \cap {"hedge", "term"} # {} THEN "expected-hedge-or-term" ELSE "unexpected-token")
ReadConsequent(toks) == IF toks = <<>> THEN Error("empty-consequent") ELSE LoadC(toks, {"variable"}, <<>>)

\* ---- Rule.parse: begin / if / then / with / end ---------------------------------------------------------------
IsNumber(tok) == tok \in {"0.500", "1.000", "0.250", "2", "1e-1", "nan", "inf", "-inf", ".5"}     \* what float() accepts (model alphabet)
RECURSIVE ParseR(_,_,_,_,_)
ParseR(toks, state, ant, con, w) ==
  IF toks = <<>> THEN
     IF state = "begin" THEN Error("expected-if-then") ELSE IF state = "if" THEN Error("expected-then")
     ELSE IF state = "with" THEN Error("expected-weight")
     ELSE IF ant = <<>> THEN Error("expected-antecedent") ELSE IF con = <<>> THEN Error("expected-consequent")
     ELSE [ant |-> ant, con |-> con, weight |-> w]
  ELSE LET k == Head(toks)  rest == Tail(toks) IN
    CASE state = "begin" -> IF k = "if" THEN ParseR(rest, "if", ant, con, w) ELSE Error("expected-if")
      [] state = "if"    -> IF k = "then" THEN ParseR(rest, "then", ant, con, w) ELSE ParseR(rest, state, Append(ant, k), con, w)
      [] state = "then"  -> IF k = "with" THEN ParseR(rest, "with", ant, con, w) ELSE ParseR(rest, state, ant, Append(con, k), w)
      [] state = "with"  -> IF IsNumber(k) THEN ParseR(rest, "end", ant, con, k) ELSE Error("weight-not-a-number")
      [] state = "end"   -> Error("unexpected-token")
\* the whole rule as Rule.create(text, engine) reads it: tokens -> [ant tree, conclusions, weight] or error
ReadRule(toks) ==
  LET r == ParseR(toks, "begin", <<>>, <<>>, "1.000") IN
  IF IsError(r) THEN r
  ELSE LET a == ReadAntecedent(r.ant) IN
       IF IsError(a) THEN a
       ELSE LET c == ReadConsequent(r.con) IN
            IF IsError(c) THEN c ELSE [ant |-> a, cons |-> c.concl, weight |-> r.weight]

\* ---- the documented grammar, declaratively (used to say which texts MUST be rejected) ------------------------------
\*   antecedent ::= proposition | antecedent (and|or) antecedent | ( antecedent )
\*   proposition ::= variable is hedge* term | variable is hedge* any
RECURSIVE IsProp(_), IsAnt(_)
IsHedgeChain(s) == \A i \in 1..Len(s) : s[i] \in HedgeNames \ {"any"}
IsProp(s) == /\ Len(s) >= 3 /\ s[1] \in AllVars /\ s[2] = "is"
             /\ \/ (s[Len(s)] \in TermNames /\ IsHedgeChain(SubSeq(s, 3, Len(s) - 1)))
                \/ (s[Len(s)] = "any" /\ IsHedgeChain(SubSeq(s, 3, Len(s) - 1)))
IsAnt(s) == \/ IsProp(s)
            \/ (Len(s) >= 3 /\ s[1] = "(" /\ s[Len(s)] = ")" /\ IsAnt(SubSeq(s, 2, Len(s) - 1)))
            \/ \E i \in 2..(Len(s) - 1) : s[i] \in {"and", "or"} /\ IsAnt(SubSeq(s, 1, i - 1)) /\ IsAnt(SubSeq(s, i + 1, Len(s)))
IsConclusion(s) == Len(s) >= 3 /\ s[1] \in OutVars /\ s[2] = "is" /\ s[Len(s)] \in TermNames /\ (\A i \in 3..(Len(s) - 1) : s[i] \in HedgeNames)
RECURSIVE IsCons(_)
IsCons(s) == IsConclusion(s) \/ \E i \in 2..(Len(s) - 1) : s[i] = "and" /\ IsConclusion(SubSeq(s, 1, i - 1)) /\ IsCons(SubSeq(s, i + 1, Len(s)))
InGrammar(toks) ==
  \E i \in 2..Len(toks) : /\ toks[1] = "if" /\ toks[i] = "then"
     /\ (\A j \in 2..(i - 1) : toks[j] # "then")
     /\ IsAnt(SubSeq(toks, 2, i - 1))
     /\ \/ IsCons(SubSeq(toks, i + 1, Len(toks)))
        \/ (Len(toks) >= i + 3 /\ toks[Len(toks) - 1] = "with" /\ IsNumber(toks[Len(toks)]) /\ IsCons(SubSeq(toks, i + 1, Len(toks) - 2)))
=============================================================================
