------------------------------ MODULE Gen_Extras ------------------------------
(* Evaluates EngineExtras on the cases of a JSON file (engine description + input rows): the engine's type, and per row
   the fuzzification and the highest membership of every input variable and - after processing the row - the highest
   activated term of every output variable.  Design invariants: the highest membership is one of the fuzzified degrees and
   no degree exceeds it; an engine whose outputs all have integral defuzzifiers is Mamdani or Larsen. *)
EXTENDS EngineExtras, TLC, Json, IOUtils
Cases == JsonDeserialize(IOEnv.VERIF_CASES)
VARIABLES cid, k
vars == <<cid, k>>
E == Cases[cid].engine
Rows == Cases[cid].rows
Init == cid \in 1..Len(Cases) /\ k = 0
Next == k < Len(Rows) /\ k' = k + 1 /\ UNCHANGED cid
Spec == Init /\ [][Next]_vars
Row == Rows[k]
St == ProcessRow(E, Fresh(E), Row)
HighestIsMax == k > 0 => \A i \in 1..Len(E.inputs) :
   LET x == ClipVar(E.inputs[i], Row[i])  f == Fuzzify(E.inputs[i], x)  h == HighestMembership(E.inputs[i], x) IN
   (\A j \in 1..Len(f) : IsBad(f[j].degree) \/ IsNaN(f[j].degree) \/ Le(f[j].degree, h.degree) \/ ~Gt(f[j].degree, Zero))
   /\ (h.term # "" => \E j \in 1..Len(f) : f[j].term = h.term /\ f[j].degree = h.degree)
TypeOfIntegral == (Len(E.outputs) > 0 /\ \A o \in 1..Len(E.outputs) : IsIntegral(E.outputs[o])) => EngineType(E) \in {"Mamdani", "Larsen"}
EmitInv == k > 0 => PrintT(ToJson([cid |-> Cases[cid].id, k |-> k, type |-> EngineType(E),
      fuzzify |-> [i \in 1..Len(E.inputs) |-> Fuzzify(E.inputs[i], ClipVar(E.inputs[i], Row[i]))],
      highest |-> [i \in 1..Len(E.inputs) |-> HighestMembership(E.inputs[i], ClipVar(E.inputs[i], Row[i]))],
      activated |-> IF Raises(E, St) THEN <<>> ELSE [o \in 1..Len(E.outputs) |-> HighestActivated(St.fuzzy[o], E.outputs[o].aggregation)],
      discrete |-> IF k = 1 THEN [i \in 1..Len(E.inputs) |-> [j \in 1..Len(E.inputs[i].terms) |->
                       [mid |-> Discretize(E.inputs[i].terms[j], E.inputs[i].min, E.inputs[i].max, 4, TRUE),
                        lin |-> Discretize(E.inputs[i].terms[j], E.inputs[i].min, E.inputs[i].max, 4, FALSE)]]] ELSE <<>>,
      raises |-> Raises(E, St)]))
=============================================================================
