---------------------------- MODULE Trace_Engine ----------------------------
(* Trace validation (code -> spec) of Engine.process: the events recorded by harness/tracer.py inside one real
   process() call - RuleBlock.activate of each block with the Rule.trigger calls inside it, then
   OutputVariable.defuzzify of each output - are re-run through the operators of Engine.tla.

   The harness turns each recorded call into a small engine description: every rule's antecedent is the *recorded*
   activation degree (tree kind "fixed"), rank-abstracted (order, equality, zero, sign, NaN and infinities are kept:
   the activation methods and the bookkeeping of contributions depend on nothing else), the conclusions are those
   the rule holds, the activation method and its parameters are the block's.  The specification must then
     - accept the phase order: fuzzy outputs start empty, the enabled blocks are activated in order, exactly
       once, and only then the outputs are defuzzified, in order;
     - select and mark as triggered exactly the rules the code triggered (ActivateBlock, C08);
     - predict every contribution to every fuzzy output: term, implication, position and - for conclusions
       without hedges - the stored degree (Conclude, C07).
   All traces of a run are validated in one TLC invocation; the verdict is total. *)
EXTENDS Engine, TLC, Json, IOUtils

Traces == JsonDeserialize(IOEnv.VERIF_TRACES)
VARIABLES tid, l, st, done, nout, verdict
tvars == <<tid, l, st, done, nout, verdict>>
Tr == Traces[tid]
E  == Tr.engine
N  == Len(Tr.events)
Ev == Tr.events[l]

Init == /\ tid \in 1..Len(Traces) /\ l = 1 /\ verdict = "ok" /\ done = {} /\ nout = 0
        /\ st = ClearFuzzy(Traces[tid].engine, Fresh(Traces[tid].engine))

EnabledBlocks == { b \in 1..Len(E.blocks) : E.blocks[b].enabled }
Pending == EnabledBlocks \ done
NextBlock == CHOOSE b \in Pending : \A c \in Pending : b <= c
NewTerms(s1, o) == SubSeq(s1.fuzzy[o], Len(st.fuzzy[o]) + 1, Len(s1.fuzzy[o]))
\* recorded contribution: [term, impl, deg, cmp]  (cmp: the degree is comparable - no hedge, not normalised)
Matches(acts, rec) == /\ Len(acts) = Len(rec)
                      /\ \A k \in 1..Len(acts) : /\ acts[k].term.name = rec[k].term
                                                 /\ acts[k].impl = rec[k].impl
                                                 /\ (rec[k].cmp => acts[k].degree = rec[k].deg)
StepActivate ==
  /\ verdict = "ok" /\ l <= N /\ Ev.kind = "activate"
  /\ LET phase == nout = 0 /\ Pending # {} /\ Ev.b = NextBlock
         s1 == IF phase THEN ActivateBlock(E, st, Ev.b) ELSE st
         sel == phase /\ s1.trig[Ev.b] = Ev.trig
         con == phase /\ \A o \in 1..Len(E.outputs) : Matches(NewTerms(s1, o), Ev.added[o])
     IN /\ verdict' = IF ~phase THEN "rejected:phase-order" ELSE IF ~sel THEN "rejected:selection" ELSE IF ~con THEN "rejected:contributions" ELSE "ok"
        /\ st' = s1 /\ done' = done \cup {Ev.b}
  /\ l' = l + 1 /\ UNCHANGED <<tid, nout>>
StepDefuzzify ==
  /\ verdict = "ok" /\ l <= N /\ Ev.kind = "defuzzify"
  /\ verdict' = IF Pending = {} /\ Ev.o = nout + 1 THEN "ok" ELSE "rejected:phase-order"
  /\ nout' = nout + 1 /\ l' = l + 1 /\ UNCHANGED <<tid, st, done>>
Finish ==
  /\ verdict = "ok" /\ l = N + 1
  /\ verdict' = IF Pending = {} /\ nout = Len(E.outputs) THEN "accepted" ELSE "rejected:incomplete"
  /\ l' = l + 1 /\ UNCHANGED <<tid, st, done, nout>>
Next == StepActivate \/ StepDefuzzify \/ Finish
Spec == Init /\ [][Next]_tvars

Terminal == verdict # "ok"
Report == Terminal => PrintT(ToJson([tid |-> Tr.id, verdict |-> verdict, at |-> l - 1,
                                     trig |-> IF l - 1 <= N /\ l > 1 /\ Tr.events[l - 1].kind = "activate" THEN st.trig[Tr.events[l - 1].b] ELSE <<>>,
                                     fuzzy |-> [o \in 1..Len(E.outputs) |-> [k \in 1..Len(st.fuzzy[o]) |-> <<st.fuzzy[o][k].term.name, st.fuzzy[o][k].impl, st.fuzzy[o][k].degree>>]]]))
=============================================================================
