--------------------------- MODULE MC_FunctionSyntax ---------------------------
(* C17: parse(print(tree)) = tree for formula trees, the postfix of the tree is the shunting-yard output, and the
   documented meaning of every element.  Trees are enumerated (two operator levels over an alphabet that contains
   every precedence level and both associativities) or read from a seeded case file (deeper trees over all 13
   operators and 34 functions).  Each state carries the printed texts, the postfix and the values under several
   variable assignments. *)
EXTENDS FunctionSyntax, TLC, Json, IOUtils
CONSTANTS FromFile, Emit, RightAssocMinus      \* canary: a printer that believes `-` associates to the right
\* (the last three: other spellings of a number that float() reads - no leading zero, no fraction digits, an exponent)
NumTab == [tk \in {"2.000", "0.500", "3.000", "0.250", "1.000", "0.000", "4.000", "1.500", ".5", "3.", "1E0"} |->
             CASE tk = "2.000" -> Two [] tk = "0.500" -> Half [] tk = "3.000" -> I(3) [] tk = "0.250" -> Q(1,4) [] tk = "1.000" -> One
               [] tk = "0.000" -> Zero [] tk = "4.000" -> I(4) [] tk = "1.500" -> Q(3,2)
               [] tk = ".5" -> Half [] tk = "3." -> I(3) [] tk = "1E0" -> One]
Num(tk) == [k |-> "num", tok |-> tk, x |-> NumTab[tk]]
Var(n) == [k |-> "var", n |-> n]
Un(o, a) == [k |-> "un", o |-> o, a |-> a]
Bin(o, l, r) == [k |-> "bin", o |-> o, l |-> l, r |-> r]
F1(f, a) == [k |-> "f1", f |-> f, a |-> a]
F2(f, a, b) == [k |-> "f2", f |-> f, a |-> a, b |-> b]
Atoms == { Var("x"), Var("a"), Num("2.000"), Num("0.500"), [k |-> "f0", f |-> "pi"] }     \* pi: a function of no argument written without parentheses
UnOps == {"not", "neg", "uminus", "uplus"}
BinOps == {"pow", "mul", "div", "mod", "add", "sub", "and", "or"}
Logical(t) == (t.k = "un" /\ t.o = "not") \/ (t.k = "bin" /\ t.o \in {"and", "or"})
\* truth-valued results are used only under logical operators (or as the final result)
WellTyped1(t) == CASE t.k = "un"  -> (t.o = "not" \/ ~Logical(t.a))
                   [] t.k = "bin" -> (t.o \in {"and", "or"} \/ (~Logical(t.l) /\ ~Logical(t.r)))
                   [] t.k = "f1"  -> ~Logical(t.a)
                   [] t.k = "f2"  -> ~Logical(t.a) /\ ~Logical(t.b)
                   [] OTHER -> TRUE
L1 == { Un(o, a) : o \in UnOps, a \in Atoms } \cup { Bin(o, l, r) : o \in BinOps, l \in Atoms, r \in Atoms }
      \cup { F1(f, a) : f \in {"sin", "abs"}, a \in Atoms } \cup { F2(f, a, b) : f \in {"atan2", "max"}, a \in Atoms, b \in Atoms }
\* second level over a reduced first level (x and one literal; one operator of every precedence level)
A2 == { Var("x"), Num("2.000") }
S1 == A2 \cup { Un(o, a) : o \in {"neg", "uminus", "uplus"}, a \in A2 } \cup { Bin(o, l, r) : o \in {"pow", "mul", "mod", "sub", "and"}, l \in A2, r \in A2 }
         \cup { F1("sin", a) : a \in A2 } \cup { F2("atan2", a, b) : a \in A2, b \in A2 }
L2(o) == IF o \in UnOps THEN { Un(o, a) : a \in S1 }
         ELSE IF o \in BinOps THEN { Bin(o, l, r) : l \in S1, r \in S1 }
         ELSE IF o = "f1" THEN { F1("sin", a) : a \in S1 } \cup { F1("floor", a) : a \in S1 }
         ELSE { F2(f, a, b) : f \in {"atan2", "eq"}, a \in S1, b \in S1 }
Groups == UnOps \cup BinOps \cup {"f1", "f2", "level1"}
FileCases == IF FromFile THEN JsonDeserialize(IOEnv.VERIF_CASES) ELSE <<>>
\* JSON trees carry numbers as tokens only: give literals their value
RECURSIVE Hydrate(_)
Hydrate(t) == CASE t.k = "num" -> Num(t.tok)
                [] t.k = "un" -> Un(t.o, Hydrate(t.a))
                [] t.k = "bin" -> Bin(t.o, Hydrate(t.l), Hydrate(t.r))
                [] t.k = "f1" -> F1(t.f, Hydrate(t.a))
                [] t.k = "f2" -> F2(t.f, Hydrate(t.a), Hydrate(t.b))
                [] OTHER -> t
RECURSIVE WellTyped(_)
WellTyped(t) == WellTyped1(t) /\ CASE t.k = "un" -> WellTyped(t.a) [] t.k = "bin" -> WellTyped(t.l) /\ WellTyped(t.r)
                                   [] t.k = "f1" -> WellTyped(t.a) [] t.k = "f2" -> WellTyped(t.a) /\ WellTyped(t.b) [] OTHER -> TRUE

\* canary printer: treats `-` as right-associative, so that (x - 2) - x is printed without parentheses as x - 2 - x but so is x - (2 - x)
RECURSIVE ShowBad(_,_)
ShowBad(t, st) ==
  IF t.k = "bin" /\ t.o = "sub" THEN
       LET l == t.l r == t.r
           lp == PrecT(l) < 70 \/ PrecT(l) = 70
           rp == PrecT(r) < 70
       IN (IF lp THEN Paren(ShowBad(l, st)) ELSE ShowBad(l, st)) \o <<"-">> \o (IF rp THEN Paren(ShowBad(r, st)) ELSE ShowBad(r, st))
  ELSE ShowF(t, st)
Printed(t, st) == IF RightAssocMinus THEN ShowBad(t, st) ELSE ShowF(t, st)

VARIABLES tree, grp, ready
vars == <<tree, grp, ready>>
Init == tree = Var("x") /\ ready = FALSE /\ grp \in (IF FromFile THEN { <<g>> : g \in 1..32 } ELSE { <<g>> : g \in Groups })
Next == /\ ~ready /\ ready' = TRUE /\ UNCHANGED grp
        /\ IF FromFile THEN \E i \in { j \in 1..Len(FileCases) : j % 32 = grp[1] - 1 } : tree' = Hydrate(FileCases[i])
           ELSE IF grp[1] = "level1" THEN tree' \in { t \in Atoms \cup L1 \cup {[k |-> "f0", f |-> "pi"]} : WellTyped(t) }
           ELSE tree' \in { t \in L2(grp[1]) : WellTyped(t) }
Spec == Init /\ [][Next]_vars

RoundTrip == ready => \A st \in 0..1 : ReadFormula(Printed(tree, st), NumTab) = tree
PostfixAgrees == ready => \A st \in 0..1 : InfixToPostfix(Printed(tree, st)) = PostfixF(tree)
Envs == << [x |-> KQ(Half), a |-> KQ(I(3)), c |-> KQ(Q(-3,2))], [x |-> KQ(I(-2)), a |-> KQ(Q(3,2)), c |-> KQ(Half)],
           [x |-> KQ(Zero), a |-> KQ(One), c |-> KQ(Two)], [x |-> KQ(Q(7,4)), a |-> KQ(Q(-1,4)), c |-> KQ(I(4))], [x |-> KQ(NaN), a |-> KQ(One), c |-> KQ(One)] >>
EmitInv == (Emit /\ ready) => PrintT(ToJson([tree |-> tree, shown |-> [st \in 1..2 |-> ShowF(tree, st - 1)], postfix |-> PostfixF(tree),
                                            values |-> [i \in 1..Len(Envs) |-> EvalT(tree, Envs[i])]]))
=============================================================================
