---------------------------- MODULE RuleLifecycle ----------------------------
(***************************************************************************)
(* Loading, unloading and re-loading rules (fuzzylite.rule.Rule /           *)
(* RuleBlock, Engine.restart): what `is_loaded()` means after every         *)
(* operation, in particular after a load that fails (C16: "never leaves a   *)
(* rule reporting loaded after a failed load"; C13: restart reloads the     *)
(* rules).                                                                 *)
(*                                                                         *)
(* A rule holds a text (the last one Rule.parse accepted) and two parsed    *)
(* halves, each either unloaded (0) or built from some text (its index).    *)
(* Texts are classes: "good" (loads), "bad-ante" (the antecedent refers to  *)
(* an unknown term: the load fails before the consequent is touched),       *)
(* "bad-cons" (the consequent refers to an unknown term: the antecedent is  *)
(* loaded, the consequent is not).  A text that Rule.parse itself refuses   *)
(* (no `if`) changes nothing.  The engine's vocabulary may change under    *)
(* the rules (a variable renamed, or replaced by one of another name, the   *)
(* number of variables unchanged): "v1-only" texts name the variable as it  *)
(* is called in vocabulary 1, "v2-only" texts as in vocabulary 2; a load    *)
(* consults the vocabulary as it is at the time of the load.               *)
(***************************************************************************)
EXTENDS Integers, Sequences, FiniteSets
CONSTANTS NRules,
          Texts,          \* sequence of text classes: Texts[t] \in {"good", "bad-ante", "bad-cons", "v1-only", "v2-only"}
          KeepOnFailure   \* canary: a load that does not unload first, so that a failed load keeps the previous parse
VARIABLES rules,          \* rules[i] = [txt, ante, cons]: index of the current text; source text of each loaded half (0: unloaded)
          raised,         \* did the last operation raise?
          voc             \* the engine's current vocabulary: 1 or 2
rvars == <<rules, raised, voc>>
\* the class of a text under the vocabulary as it is now
ClassOf(t) == IF Texts[t] = "v1-only" THEN (IF voc = 1 THEN "good" ELSE "bad-ante")
              ELSE IF Texts[t] = "v2-only" THEN (IF voc = 2 THEN "good" ELSE "bad-ante") ELSE Texts[t]

IsLoaded(r) == r.ante # 0 /\ r.cons # 0
\* Rule.load: deactivate; antecedent.load (unload, parse, may raise); consequent.load (unload, parse, may raise)
LoadOne(r) ==
  LET c == ClassOf(r.txt) IN
  IF c = "bad-ante" THEN [r EXCEPT !.ante = IF KeepOnFailure THEN @ ELSE 0]
  ELSE IF c = "bad-cons" THEN [r EXCEPT !.ante = r.txt, !.cons = IF KeepOnFailure THEN @ ELSE 0]
  ELSE [r EXCEPT !.ante = r.txt, !.cons = r.txt]
Fails(r) == ClassOf(r.txt) # "good"
UnloadOne(r) == [r EXCEPT !.ante = 0, !.cons = 0]

RInit == rules = [i \in 1..NRules |-> [txt |-> 1, ante |-> 0, cons |-> 0]] /\ raised = FALSE /\ voc = 1
Parse(i, t)   == rules' = [rules EXCEPT ![i].txt = t] /\ raised' = FALSE /\ UNCHANGED voc         \* the parsed halves are left as they are
ParseRefused(i) == UNCHANGED <<rules, voc>> /\ raised' = TRUE
Load(i)       == rules' = [rules EXCEPT ![i] = LoadOne(@)] /\ raised' = Fails(rules[i]) /\ UNCHANGED voc
Unload(i)     == rules' = [rules EXCEPT ![i] = UnloadOne(@)] /\ raised' = FALSE /\ UNCHANGED voc
\* RuleBlock.load_rules: every rule is unloaded and loaded, the errors are collected and raised together at the end
LoadRules     == rules' = [i \in 1..NRules |-> LoadOne(UnloadOne(rules[i]))] /\ raised' = (\E i \in 1..NRules : Fails(rules[i])) /\ UNCHANGED voc
UnloadRules   == rules' = [i \in 1..NRules |-> UnloadOne(rules[i])] /\ raised' = FALSE /\ UNCHANGED voc
\* the engine's vocabulary changes; rules already loaded hold the objects they were built from and stay as they are
Rename        == voc' = 3 - voc /\ raised' = FALSE /\ UNCHANGED rules
ReloadRules   == LoadRules                                                          \* unload_rules, then load_rules

\* ---- what must hold ---------------------------------------------------------------------------------------
\* a rule reports loaded only if both halves come from one text, and that text loads
\* (whether it loaded is judged under the vocabulary of the time of the load: see the two action properties)
LoadedIsConsistent == \A i \in 1..NRules : IsLoaded(rules[i]) => (rules[i].ante = rules[i].cons /\ Texts[rules[i].ante] \in {"good", "v1-only", "v2-only"})
\* C16: after a load of rule i that failed, rule i does not report loaded
NotLoadedAfterFailedLoad(i) == (raised' /\ Fails(rules[i])) => ~IsLoaded(rules'[i])
\* after a load that succeeded, the rule is loaded from its current text
LoadedFromCurrentText(i) == ~Fails(rules[i]) => (IsLoaded(rules'[i]) /\ rules'[i].ante = rules[i].txt)
=============================================================================
