-------------------------------- MODULE KExpr --------------------------------
(***************************************************************************)
(* Kernel expressions.  TLA+ has no reals: where a documented definition   *)
(* needs sqrt, exp, cos, log or a rational power, the specification builds *)
(* a small expression tree over exact XReal leaves instead of a number.    *)
(* Constructors fold constants, so whenever a value is rational it *is* an *)
(* exact <<"q", x>> leaf and TLC can state invariants about it; only the   *)
(* genuinely irrational part is left to harness/kexpr.py, which evaluates  *)
(* the tree with fractions + math at the comparison step.                  *)
(*   <<"q", x>>            exact extended real                              *)
(*   <<"add"|"mul"|"div", e1, e2>>   <<"neg"|"abs"|"sqrt"|"exp"|"cos"|"log", e>> *)
(*   <<"powq", e, x>>      e ^ x  with x an exact rational                  *)
(*   <<"pi">>                                                               *)
(***************************************************************************)
EXTENDS XReal

KQ(x) == <<"q", x>>
IsQ(e) == e[1] = "q"
QV(e)  == e[2]
KPi == <<"pi">>

KAdd(e1, e2) == IF IsQ(e1) /\ IsQ(e2) THEN KQ(Add(QV(e1), QV(e2)))
                ELSE IF IsQ(e1) /\ QV(e1) = Zero THEN e2
                ELSE IF IsQ(e2) /\ QV(e2) = Zero THEN e1
                ELSE <<"add", e1, e2>>
KNeg(e) == IF IsQ(e) THEN KQ(Neg(QV(e))) ELSE <<"neg", e>>
KSub(e1, e2) == KAdd(e1, KNeg(e2))
KMul(e1, e2) == IF IsQ(e1) /\ IsQ(e2) THEN KQ(Mul(QV(e1), QV(e2)))
                ELSE IF IsQ(e1) /\ QV(e1) = One THEN e2
                ELSE IF IsQ(e2) /\ QV(e2) = One THEN e1
                ELSE <<"mul", e1, e2>>
KDiv(e1, e2) == IF IsQ(e1) /\ IsQ(e2) THEN KQ(Div(QV(e1), QV(e2))) ELSE <<"div", e1, e2>>
KAbs(e) == IF IsQ(e) THEN KQ(Abs(QV(e))) ELSE <<"abs", e>>

\* exact square roots of small perfect squares; NaN below zero (numpy.sqrt), inf at inf
RECURSIVE ISqrtFrom(_,_)
ISqrtFrom(n, r) == IF r * r >= n THEN r ELSE ISqrtFrom(n, r + 1)
ISqrt(n) == ISqrtFrom(n, 0)              \* least r with r*r >= n  (n >= 0, small)
IsSquare(n) == n >= 0 /\ n <= 1000000 /\ ISqrt(n) * ISqrt(n) = n
KSqrt(e) ==
  IF IsQ(e) THEN
     LET x == QV(e) IN
     IF IsNaN(x) THEN KQ(NaN)
     ELSE IF x = PInf THEN KQ(PInf)
     ELSE IF Lt(x, Zero) THEN KQ(NaN)
     ELSE IF IsSquare(x[2]) /\ IsSquare(x[3]) THEN KQ(Q(ISqrt(x[2]), ISqrt(x[3])))
     ELSE <<"sqrt", e>>
  ELSE <<"sqrt", e>>
KExp(e) == IF IsQ(e) /\ QV(e) = Zero THEN KQ(One)
           ELSE IF IsQ(e) /\ QV(e) = NInf THEN KQ(Zero)
           ELSE IF IsQ(e) /\ QV(e) = PInf THEN KQ(PInf)
           ELSE IF IsQ(e) /\ IsNaN(QV(e)) THEN KQ(NaN)
           ELSE <<"exp", e>>
KCos(e) == IF IsQ(e) /\ QV(e) = Zero THEN KQ(One)
           ELSE IF IsQ(e) /\ ~IsFin(QV(e)) THEN KQ(NaN)
           ELSE <<"cos", e>>
KLog(e) == IF IsQ(e) /\ QV(e) = One THEN KQ(Zero)
           ELSE IF IsQ(e) /\ QV(e) = Zero THEN KQ(NInf)
           ELSE IF IsQ(e) /\ IsNaN(QV(e)) THEN KQ(NaN)
           ELSE <<"log", e>>
\* e ^ x for a natural exponent folds exactly
KPowN(e, n) == IF IsQ(e) THEN KQ(PowI(QV(e), n)) ELSE <<"powq", e, I(n)>>
KPowQ(e, x) == IF x[1] = 0 /\ x[3] = 1 /\ x[2] >= 0 /\ x[2] <= 8 /\ IsQ(e) /\ IsFin(QV(e)) THEN KQ(PowI(QV(e), x[2]))
               ELSE <<"powq", e, x>>
=============================================================================
