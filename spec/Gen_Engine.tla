------------------------------ MODULE Gen_Engine ------------------------------
(* Runs Engine.tla on the cases of a JSON file: each case is an engine description and a history of
   input rows processed one after another from a fresh instance.  One state per (case, rows done);
   every state satisfies the design invariants below and carries the observable projection that the
   harness compares with the real engine after the same step. *)
EXTENDS Engine, TLC, Json, IOUtils
Cases == JsonDeserialize(IOEnv.VERIF_CASES)
VARIABLES cid, k, st
vars == <<cid, k, st>>
E == Cases[cid].engine
Rows == Cases[cid].rows
Init == cid \in 1..Len(Cases) /\ k = 0 /\ st = Fresh(Cases[cid].engine)
Next == /\ k < Len(Rows) /\ ~Raises(E, st)
        /\ k' = k + 1 /\ st' = ProcessRow(E, st, Rows[k + 1]) /\ UNCHANGED cid
Spec == Init /\ [][Next]_vars

Good(v) == ~IsBad(v)
\* stored degrees are in [0,1] (NaN/-inf -> 0, +inf -> 1) whenever they are exact
DegreesStored == \A o \in 1..Len(E.outputs) : \A i \in 1..Len(st.fuzzy[o]) :
                    LET d == st.fuzzy[o][i].degree IN Good(d) => (~IsNaN(d) /\ ~IsInf(d))
\* a rule is marked triggered only if its degree is positive; an unloaded or disabled rule never is
TriggeredPositive == \A b \in 1..Len(E.blocks) : \A i \in 1..Len(E.blocks[b].rules) :
                        st.trig[b][i] => (Gt(st.deg[b][i], Zero) /\ E.blocks[b].rules[i].enabled /\ E.blocks[b].rules[i].loaded /\ E.blocks[b].enabled)
\* nothing is contributed to a disabled output variable, and every contribution names a term of its variable
NoDisabledContribution == \A o \in 1..Len(E.outputs) : (~E.outputs[o].enabled) => st.fuzzy[o] = <<>>
\* lock-range keeps the value inside the range (or NaN)
RangeLocked == \A o \in 1..Len(E.outputs) : LET v == st.outval[o] var == E.outputs[o] IN
                 (var.lockRange /\ Good(v) /\ ~IsNaN(v) /\ k > 0 /\ var.enabled) => (Ge(v, var.min) /\ Le(v, var.max))
\* an integral defuzzifier returns a point of the range
IntegralInRange == \A o \in 1..Len(E.outputs) : LET var == E.outputs[o] raw == RawValue(E, st, o) IN
                 (k > 0 /\ var.enabled /\ var.defuzzifier.cls \in IntegralDefuzzifiers /\ Good(raw) /\ ~IsNaN(raw)) => (Ge(raw, var.min) /\ Le(raw, var.max))
EmitInv == k > 0 => PrintT(ToJson([cid |-> Cases[cid].id, k |-> k, obs |-> Observe(E, st)]))
=============================================================================
