--------------------------- MODULE MC_FunctionScope ---------------------------
(* C17, variable resolution: every behaviour of at most MaxSteps operations on an engine's variable lists, on the
   variables' values, on the term's own variables and on the term itself (configure / unload / load / detach /
   attach), interleaved with evaluations.  The specification's evaluation always sees the *current* scope; the
   canary (StaleScope) captures the engine's variable list at the first evaluation after (re)attachment, as a
   cached implementation would, and must violate SeesCurrentScope.  Each complete behaviour is emitted with the
   expected outcome of every evaluation and replayed on one long-lived Function term. *)
EXTENDS FunctionScope, TLC, Json
CONSTANTS MaxSteps, Emit, StaleScope

Var(n) == [k |-> "var", n |-> n]
Lit(tk, x) == [k |-> "num", tok |-> tk, x |-> x]
Bin(o, l, r) == [k |-> "bin", o |-> o, l |-> l, r |-> r]
Formulas == << Bin("add", Bin("mul", Var("a"), Var("x")), Lit("1.000", One)),                                   \* a * x + 1
               Bin("add", Bin("mul", Var("a"), Var("x")), Bin("pow", Var("b"), Lit("2.000", Two))),             \* a * x + b ^ 2
               Bin("sub", Var("o"), Bin("mul", Var("c"), Var("x"))) >>                                           \* o - c * x
InNames == {"a", "b", "x"}          \* an engine variable may (illegally) be called x
OutNames == {"o"}
TermVarNames == {"c", "x", "a"}     \* c is legitimate; x is reserved; a may clash with the engine's a
Vals == { I(2), Q(-3, 2) }
XVals == { Q(1, 2) }

VARIABLES steps, expect
vars == <<ins, outs, tv, attached, loaded, fi, nid, cache, steps, expect>>

\* what the evaluation sees: the current scope, or (canary) the list captured by the first evaluation
Seen == IF ~attached THEN <<>> ELSE IF StaleScope /\ cache # <<>> THEN cache[1] ELSE EngineVars
Evaluate(xv) == /\ cache' = (IF StaleScope /\ attached /\ cache = <<>> THEN <<EngineVars>> ELSE cache)
                /\ UNCHANGED <<ins, outs, tv, attached, loaded, fi, nid>>
                /\ steps' = Append(steps, [act |-> "Evaluate", name |-> "", v |-> xv, k |-> 0])
                /\ expect' = Append(expect, Outcome(Formulas[fi], Seen, xv))
Log(a, name, v, k) == /\ steps' = Append(steps, [act |-> a, name |-> name, v |-> v, k |-> k])
                      /\ expect' = Append(expect, <<"-">>)

Init == ScopeInit /\ steps = <<>> /\ expect = <<>>
Next == /\ Len(steps) < MaxSteps
        /\ \/ \E nm \in InNames, v \in Vals : AddIn(nm, v) /\ Log("AddIn", nm, v, 0)
           \/ \E nm \in OutNames, v \in Vals : AddOut(nm, v) /\ Log("AddOut", nm, v, 0)
           \/ \E nm \in EngineNames : RemoveVar(nm) /\ Log("Remove", nm, Zero, 0)
           \/ \E nm \in EngineNames, v \in Vals : ReplaceVar(nm, v) /\ Log("Replace", nm, v, 0)
           \/ \E nm \in EngineNames, v \in Vals : SetValue(nm, v) /\ Log("SetValue", nm, v, 0)
           \/ \E nm \in TermVarNames : SetTermVar(nm, I(3)) /\ Log("SetTermVar", nm, I(3), 0)
           \/ \E nm \in TermVarNames : DelTermVar(nm) /\ Log("DelTermVar", nm, Zero, 0)
           \/ \E k \in 1..Len(Formulas) : Configure(k) /\ Log("Configure", "", Zero, k)
           \/ Unload /\ Log("Unload", "", Zero, 0)
           \/ Load /\ Log("Load", "", Zero, 0)
           \/ Detach /\ Log("Detach", "", Zero, 0)
           \/ Attach /\ Log("Attach", "", Zero, 0)
           \/ \E xv \in XVals : Evaluate(xv)
Spec == Init /\ [][Next]_vars

\* the last evaluation's outcome is the formula's value in the scope as it is now
SeesCurrentScope ==
  (steps # <<>> /\ steps[Len(steps)].act = "Evaluate") =>
      expect[Len(expect)] = Outcome(Formulas[fi], Visible, steps[Len(steps)].v)
\* an evaluation yields a value exactly when the term is loaded, no reserved or clashing name is used and every variable of the formula is in scope
ValueIffResolvable ==
  (steps # <<>> /\ steps[Len(steps)].act = "Evaluate") =>
      LET names == { Visible[i].n : i \in 1..Len(Visible) } IN
      (expect[Len(expect)][1] = "value") <=>
          (loaded /\ "x" \notin TermNames /\ "x" \notin names /\ TermNames \cap names = {}
           /\ VarsOf(Formulas[fi]) \subseteq (names \cup {"x"} \cup TermNames))
TypeOK == /\ Len(ins) <= 2 /\ Len(outs) <= 1 /\ fi \in 1..Len(Formulas)
          /\ \A i, j \in 1..Len(EngineVars) : i # j => EngineVars[i].n # EngineVars[j].n /\ EngineVars[i].id # EngineVars[j].id
Texts == [k \in 1..Len(Formulas) |-> ShowF(Formulas[k], 0)]
\* only behaviours that end in an evaluation and are complete (or cannot be extended) are emitted; their prefixes are inside them
EmitInv == (Emit /\ Len(steps) = MaxSteps /\ steps[Len(steps)].act = "Evaluate") =>
              PrintT(ToJson([steps |-> steps, expect |-> expect, formulas |-> Texts]))
View == <<ins, outs, tv, attached, loaded, fi, cache, Len(steps), IF steps = <<>> THEN <<>> ELSE <<steps[Len(steps)], expect[Len(expect)]>> >>
=============================================================================
