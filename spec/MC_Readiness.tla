------------------------------ MODULE MC_Readiness ------------------------------
(* C19: for every base engine of the case file and every subset of its removable operators
   (conjunction / disjunction / implication per rule block, aggregation / defuzzifier per output variable):
   an engine reported ready can be processed on every finite row, and whatever processing needs is reported. *)
EXTENDS Readiness, TLC, Json, IOUtils, FiniteSets
CONSTANTS Emit, Nested
Cases == JsonDeserialize(IOEnv.VERIF_CASES)
\* removable[i] = [where |-> "block"|"output", idx, field]
Remove1(E, r) == IF r.where = "block"
                 THEN [E EXCEPT !.blocks[r.idx] = IF r.field = "conjunction" THEN [@ EXCEPT !.conjunction = "none"]
                                                  ELSE IF r.field = "disjunction" THEN [@ EXCEPT !.disjunction = "none"]
                                                  ELSE [@ EXCEPT !.implication = "none"]]
                 ELSE [E EXCEPT !.outputs[r.idx] = IF r.field = "aggregation" THEN [@ EXCEPT !.aggregation = "none"]
                                                   ELSE [@ EXCEPT !.defuzzifier = [cls |-> "none", resolution |-> 1, type |-> "Automatic"]]]
RECURSIVE RemoveAll(_,_,_)
RemoveAll(E, rem, mask) == IF mask = {} THEN E ELSE LET i == CHOOSE j \in mask : TRUE IN RemoveAll(Remove1(E, rem[i]), rem, mask \ {i})
VARIABLES cid, mask, ready, raises      \* raises: per row, does processing raise (computed once)
vars == <<cid, mask, ready, raises>>
Eng == RemoveAll(Cases[cid].engine, Cases[cid].removable, mask)
Init == cid \in 1..Len(Cases) /\ mask = {} /\ ready = FALSE /\ raises = <<>>
Next == /\ ~ready /\ ready' = TRUE /\ UNCHANGED cid
        /\ mask' \in SUBSET (1..Len(Cases[cid].removable))
        /\ LET e == RemoveAll(Cases[cid].engine, Cases[cid].removable, mask') IN
           raises' = [k \in 1..Len(Cases[cid].rows) |-> ProcessRaises(e, Cases[cid].rows[k])]
Spec == Init /\ [][Next]_vars
ReadyImpliesProcessable == (ready /\ IsReady(Eng, Nested) /\ HasActivations(Eng)) => \A k \in 1..Len(raises) : ~raises[k]
\* conversely: when removing exactly one operator makes processing raise on some row, that operator is reported
NeededIsReported == (ready /\ Cardinality(mask) = 1 /\ \E k \in 1..Len(raises) : raises[k]) =>
                      LET r == Cases[cid].removable[CHOOSE i \in mask : TRUE] IN <<r.field, r.idx>> \in ReadyErrors(Eng, Nested)
EmitInv == (Emit /\ ready) => PrintT(ToJson([cid |-> Cases[cid].id, mask |-> [i \in 1..Len(Cases[cid].removable) |-> i \in mask],
                                            errors |-> SetToSeq(ReadyErrors(Eng, FALSE)), raises |-> raises]))
=============================================================================
