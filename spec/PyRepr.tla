-------------------------------- MODULE PyRepr --------------------------------
(***************************************************************************)
(* The Python representation of engines and components (C15): the          *)
(* constructor-call tree that each __repr__ must produce, and its meaning. *)
(*                                                                         *)
(*   Tree(e, alias, dec)   abstract engine -> call tree                    *)
(*   Eval(tree, alias)     call tree -> abstract engine (what executing    *)
(*                         the code builds: omitted arguments take the     *)
(*                         constructors' defaults)                         *)
(*                                                                         *)
(* Nodes: [k |-> "call", fn, pos, kw]  fn: dotted name, pos: arguments,    *)
(*            kw: sequence of [name, val]                                  *)
(*        [k |-> "str", s]  [k |-> "num", n]  [k |-> "int", i]             *)
(*        [k |-> "bool", b] [k |-> "none"]    [k |-> "list", items]        *)
(*        [k |-> "name", id]  (inf, nan: library constants)                *)
(*        [k |-> "neg", a]   [k |-> "dict", items : Seq([key, val])]             *)
(* Finite numbers are leaves holding the numeral; Python prints them with  *)
(* repr(), whose digits are not modelled - the leaf is compared by value.  *)
(* Abstract engines, numerals and CloseOne are those of FllSyntax.         *)
(***************************************************************************)
EXTENDS FllSyntax
CONSTANT DropDisabled      \* canary: a representation that omits `enabled` even when it is False

\* Representation.package_of
Prefix(alias, mod) == IF alias = "" THEN "fuzzylite." \o mod \o "." ELSE IF alias = "*" THEN "" ELSE alias \o "."
ImportStatement(alias) == IF alias = "" THEN "import fuzzylite" ELSE IF alias = "*" THEN "from fuzzylite import *" ELSE "import fuzzylite as " \o alias

Call(fn, pos, kw) == [k |-> "call", fn |-> fn, pos |-> pos, kw |-> kw]
StrNode(s) == [k |-> "str", s |-> s]
IntNode(i) == [k |-> "int", i |-> i]
BoolNode(b) == [k |-> "bool", b |-> b]
NoneNode == [k |-> "none"]
ListNode(items) == [k |-> "list", items |-> items]
KW(name, val) == [name |-> name, val |-> val]
\* Representation.repr_float: inf and nan are library constants, a negative infinity is the negated constant
NumNode(x, alias) == CASE x.k = "num" -> [k |-> "num", n |-> x]
                       [] x.k = "nan" -> [k |-> "name", id |-> Prefix(alias, "library") \o "nan"]
                       [] x.k = "inf" -> [k |-> "name", id |-> Prefix(alias, "library") \o "inf"]
                       [] x.k = "-inf" -> [k |-> "neg", a |-> [k |-> "name", id |-> Prefix(alias, "library") \o "inf"]]
NumNodes(seq, alias) == [j \in 1..Len(seq) |-> NumNode(seq[j], alias)]
RECURSIVE JoinWords(_)
JoinWords(ws) == IF ws = <<>> THEN "" ELSE IF Len(ws) = 1 THEN ws[1] ELSE ws[1] \o " " \o JoinWords(Tail(ws))

\* ---- trees --------------------------------------------------------------------------------------------------
ArrayFn(alias) == Prefix(alias, "library") \o "array"
RECURSIVE Pairs(_,_)
Pairs(p, alias) == IF p = <<>> THEN <<>> ELSE <<Call(ArrayFn(alias), <<ListNode(<<NumNode(p[1], alias), NumNode(p[2], alias)>>)>>, <<>>)>> \o Pairs(SubSeq(p, 3, Len(p)), alias)
TermTree(t, alias, dec) ==
  LET fn == Prefix(alias, "term") \o t.cls  nm == StrNode(t.name)
      hs == IF HasHeight(t.cls) /\ ~CloseOne(t.h, dec) THEN <<NumNode(t.h, alias)>> ELSE <<>> IN
  IF t.cls = "Function" THEN
       Call(fn, <<nm, StrNode(JoinWords(t.f))>>,
            IF t.fv = <<>> THEN <<>> ELSE <<KW("variables", [k |-> "dict", items |-> [j \in 1..Len(t.fv) |-> [key |-> t.fv[j].n, val |-> NumNode(t.fv[j].v, alias)]]])>>)
  ELSE IF t.cls = "Linear" THEN Call(fn, <<nm, ListNode(NumNodes(t.p, alias))>>, <<>>)
  ELSE IF t.cls = "Discrete" THEN
       Call(fn, <<nm, Call(ArrayFn(alias), <<ListNode(IF t.p = <<>> THEN <<Call(ArrayFn(alias), <<ListNode(<<>>)>>, <<>>)>> ELSE Pairs(t.p, alias))>>, <<>>)>> \o hs, <<>>)
  ELSE Call(fn, <<nm>> \o NumNodes(t.p, alias) \o hs, <<>>)
Terms(v, alias, dec) == ListNode([j \in 1..Len(v.terms) |-> TermTree(v.terms[j], alias, dec)])
DescKW(d) == IF d = <<>> THEN <<>> ELSE <<KW("description", StrNode(JoinWords(d)))>>
EnabledKW(b) == IF b \/ DropDisabled THEN <<>> ELSE <<KW("enabled", BoolNode(FALSE))>>
NormTree(nm, alias) == IF nm = "none" THEN NoneNode ELSE Call(Prefix(alias, "norm") \o nm, <<>>, <<>>)
DefuzzTree(d, alias) ==
  IF d.cls = "none" THEN NoneNode
  ELSE Call(Prefix(alias, "defuzzifier") \o d.cls, <<>>,
            (IF d.cls \in IntegralCls /\ d.res # 1000 THEN <<KW("resolution", IntNode(d.res))>> ELSE <<>>)
            \o (IF d.cls \in WeightedCls /\ d.type # "Automatic" THEN <<KW("type", StrNode(d.type))>> ELSE <<>>))
ActTree(a, alias) ==
  IF a.cls = "none" THEN NoneNode
  ELSE Call(Prefix(alias, "activation") \o a.cls, <<>>,
            IF a.cls \in {"First", "Last"} THEN <<KW("rules", IntNode(a.n)), KW("threshold", NumNode(a.thr, alias))>>
            ELSE IF a.cls \in {"Highest", "Lowest"} THEN <<KW("rules", IntNode(a.n))>>
            ELSE IF a.cls = "Threshold" THEN <<KW("comparator", StrNode(a.cmp)), KW("threshold", NumNode(a.thr, alias))>>
            ELSE <<>>)
InputTree(v, alias, dec) ==
  Call(Prefix(alias, "variable") \o "InputVariable", <<>>,
       <<KW("name", StrNode(v.name))>> \o DescKW(v.desc) \o EnabledKW(v.enabled) \o
       <<KW("minimum", NumNode(v.min, alias)), KW("maximum", NumNode(v.max, alias)), KW("lock_range", BoolNode(v.lockRange)), KW("terms", Terms(v, alias, dec))>>)
OutputTree(v, alias, dec) ==
  Call(Prefix(alias, "variable") \o "OutputVariable", <<>>,
       <<KW("name", StrNode(v.name))>> \o DescKW(v.desc) \o EnabledKW(v.enabled) \o
       <<KW("minimum", NumNode(v.min, alias)), KW("maximum", NumNode(v.max, alias)), KW("lock_range", BoolNode(v.lockRange)),
         KW("lock_previous", BoolNode(v.lockPrev)), KW("default_value", NumNode(v.default, alias)), KW("aggregation", NormTree(v.aggr, alias)),
         KW("defuzzifier", DefuzzTree(v.defuzz, alias)), KW("terms", Terms(v, alias, dec))>>)
\* Rule.text: the weight is printed at the configured decimals, and only when it is not close to 1
RuleText(r, dec) == JoinWords(r.toks \o (IF CloseOne(r.w, dec) THEN <<>> ELSE <<"with", Fmt(r.w, dec)>>))
RuleTree(r, alias, dec) == Call(Prefix(alias, "rule") \o "Rule.create", <<StrNode(RuleText(r, dec))>>, <<>>)
BlockTree(b, alias, dec) ==
  Call(Prefix(alias, "rule") \o "RuleBlock", <<>>,
       <<KW("name", StrNode(b.name))>> \o DescKW(b.desc) \o EnabledKW(b.enabled) \o
       <<KW("conjunction", NormTree(b.conj, alias)), KW("disjunction", NormTree(b.disj, alias)), KW("implication", NormTree(b.impl, alias)),
         KW("activation", ActTree(b.act, alias)), KW("rules", ListNode([j \in 1..Len(b.rules) |-> RuleTree(b.rules[j], alias, dec)]))>>)
Tree(e, alias, dec) ==
  Call(Prefix(alias, "engine") \o "Engine", <<>>,
       <<KW("name", StrNode(e.name))>> \o DescKW(e.desc) \o
       <<KW("input_variables", ListNode([j \in 1..Len(e.inputs) |-> InputTree(e.inputs[j], alias, dec)])),
         KW("output_variables", ListNode([j \in 1..Len(e.outputs) |-> OutputTree(e.outputs[j], alias, dec)])),
         KW("rule_blocks", ListNode([j \in 1..Len(e.blocks) |-> BlockTree(e.blocks[j], alias, dec)]))>>)

\* ---- meaning of a tree: what executing it builds ---------------------------------------------------------------
HasKW(c, name) == \E j \in 1..Len(c.kw) : c.kw[j].name = name
GetKW(c, name) == c.kw[CHOOSE j \in 1..Len(c.kw) : c.kw[j].name = name].val
NumOf(node) == CASE node.k = "num" -> node.n
                 [] node.k = "neg" -> NInfN
                 [] node.k = "name" -> IF \E a \in {"", "*", "fl", "zz"} : node.id = Prefix(a, "library") \o "nan" THEN NanN ELSE PInfN
ClassOf(fn, alias, mod, classes) == CHOOSE c \in classes : fn = Prefix(alias, mod) \o c
AllTermClasses == TermClasses
WordsOf(s, d) == d          \* strings are compared as produced: the description / formula / rule words are carried alongside (see EvalWith)
EvalTerm(c, alias, src) ==
  LET cls == ClassOf(c.fn, alias, "term", AllTermClasses)  nm == c.pos[1].s IN
  IF cls = "Function" THEN [name |-> nm, cls |-> cls, p |-> <<>>, h |-> OneN, f |-> src.f, fv |-> IF HasKW(c, "variables") THEN [j \in 1..Len(GetKW(c, "variables").items) |-> [n |-> GetKW(c, "variables").items[j].key, v |-> NumOf(GetKW(c, "variables").items[j].val)]] ELSE <<>>]
  ELSE IF cls = "Linear" THEN [name |-> nm, cls |-> cls, p |-> [j \in 1..Len(c.pos[2].items) |-> NumOf(c.pos[2].items[j])], h |-> OneN, f |-> <<>>, fv |-> <<>>]
  ELSE IF cls = "Discrete" THEN
       LET rows == c.pos[2].pos[1].items
           flat == Flatten([j \in 1..Len(rows) |-> [q \in 1..Len(rows[j].pos[1].items) |-> NumOf(rows[j].pos[1].items[q])]]) IN
       [name |-> nm, cls |-> cls, p |-> flat, h |-> IF Len(c.pos) = 3 THEN NumOf(c.pos[3]) ELSE OneN, f |-> <<>>, fv |-> <<>>]
  ELSE LET a == Arity[cls] IN
       [name |-> nm, cls |-> cls, p |-> [j \in 1..a |-> NumOf(c.pos[j + 1])], h |-> IF Len(c.pos) = a + 2 THEN NumOf(c.pos[a + 2]) ELSE OneN, f |-> <<>>, fv |-> <<>>]
EvalNorm(node, alias, classes) == IF node.k = "none" THEN "none" ELSE ClassOf(node.fn, alias, "norm", classes)
EvalDefuzz(node, alias) ==
  IF node.k = "none" THEN NoDefuzz
  ELSE LET cls == ClassOf(node.fn, alias, "defuzzifier", IntegralCls \cup WeightedCls)  d == DefaultDefuzz(cls) IN
       [d EXCEPT !.res = IF HasKW(node, "resolution") THEN GetKW(node, "resolution").i ELSE @,
                 !.type = IF HasKW(node, "type") THEN GetKW(node, "type").s ELSE @]
EvalAct(node, alias) ==
  IF node.k = "none" THEN NoAct
  ELSE LET cls == ClassOf(node.fn, alias, "activation", {"General", "First", "Last", "Highest", "Lowest", "Proportional", "Threshold"})  d == DefaultAct(cls) IN
       [d EXCEPT !.n = IF HasKW(node, "rules") THEN GetKW(node, "rules").i ELSE @,
                 !.thr = IF HasKW(node, "threshold") THEN NumOf(GetKW(node, "threshold")) ELSE @,
                 !.cmp = IF HasKW(node, "comparator") THEN GetKW(node, "comparator").s ELSE @]
AllSNorms == {"AlgebraicSum", "BoundedSum", "DrasticSum", "EinsteinSum", "HamacherSum", "Maximum", "NilpotentMaximum", "NormalizedSum", "UnboundedSum"}
AllTNorms == {"AlgebraicProduct", "BoundedDifference", "DrasticProduct", "EinsteinProduct", "HamacherProduct", "Minimum", "NilpotentMinimum"}
\* Strings are atomic in TLC: the words of descriptions, formulas and rules are taken from the source component `src`
\* after checking that the string in the tree is their concatenation (StringsAgree), so that Eval stays a function of the tree.
EvalVarCommon(c, alias, src) ==
  [name |-> GetKW(c, "name").s,
   desc |-> IF HasKW(c, "description") THEN src.desc ELSE <<>>,
   enabled |-> IF HasKW(c, "enabled") THEN GetKW(c, "enabled").b ELSE TRUE,
   min |-> NumOf(GetKW(c, "minimum")), max |-> NumOf(GetKW(c, "maximum")),
   lockRange |-> GetKW(c, "lock_range").b,
   terms |-> [j \in 1..Len(GetKW(c, "terms").items) |-> EvalTerm(GetKW(c, "terms").items[j], alias, src.terms[j])]]
EvalInput(c, alias, src) == EvalVarCommon(c, alias, src)
EvalOutput(c, alias, src) ==
  LET v == EvalVarCommon(c, alias, src) IN
  [name |-> v.name, desc |-> v.desc, enabled |-> v.enabled, min |-> v.min, max |-> v.max, lockRange |-> v.lockRange, terms |-> v.terms,
   aggr |-> EvalNorm(GetKW(c, "aggregation"), alias, AllSNorms), defuzz |-> EvalDefuzz(GetKW(c, "defuzzifier"), alias),
   default |-> NumOf(GetKW(c, "default_value")), lockPrev |-> GetKW(c, "lock_previous").b]
\* the rule text is parsed by Rule.parse: the weight is what the text says (1 when there is no `with`)
EvalRule(c, src, dec) == [toks |-> src.toks, w |-> IF CloseOne(src.w, dec) THEN OneN ELSE src.w]
EvalBlock(c, alias, src, dec) ==
  [name |-> GetKW(c, "name").s, desc |-> IF HasKW(c, "description") THEN src.desc ELSE <<>>,
   enabled |-> IF HasKW(c, "enabled") THEN GetKW(c, "enabled").b ELSE TRUE,
   conj |-> EvalNorm(GetKW(c, "conjunction"), alias, AllTNorms), disj |-> EvalNorm(GetKW(c, "disjunction"), alias, AllSNorms),
   impl |-> EvalNorm(GetKW(c, "implication"), alias, AllTNorms), act |-> EvalAct(GetKW(c, "activation"), alias),
   rules |-> [j \in 1..Len(GetKW(c, "rules").items) |-> EvalRule(GetKW(c, "rules").items[j], src.rules[j], dec)]]
Eval(c, alias, src, dec) ==
  [name |-> GetKW(c, "name").s, desc |-> IF HasKW(c, "description") THEN src.desc ELSE <<>>,
   inputs |-> [j \in 1..Len(GetKW(c, "input_variables").items) |-> EvalInput(GetKW(c, "input_variables").items[j], alias, src.inputs[j])],
   outputs |-> [j \in 1..Len(GetKW(c, "output_variables").items) |-> EvalOutput(GetKW(c, "output_variables").items[j], alias, src.outputs[j])],
   blocks |-> [j \in 1..Len(GetKW(c, "rule_blocks").items) |-> EvalBlock(GetKW(c, "rule_blocks").items[j], alias, src.blocks[j], dec)]]
\* every string in the tree is the concatenation of the words it stands for
StringsAgree(c, e, dec) ==
  /\ (HasKW(c, "description") => GetKW(c, "description").s = JoinWords(e.desc))
  /\ \A j \in 1..Len(e.blocks) : \A q \in 1..Len(e.blocks[j].rules) :
        GetKW(GetKW(c, "rule_blocks").items[j], "rules").items[q].pos[1].s = RuleText(e.blocks[j].rules[q], dec)
=============================================================================
