------------------------------- MODULE FldGrid -------------------------------
(***************************************************************************)
(* The grid of a FuzzyLite Dataset export (C18): how many values per input  *)
(* variable a request for `v` values yields, the mixed-radix counter of     *)
(* Op.increment that enumerates the grid, and which lines of a reader are   *)
(* tabulated.                                                               *)
(***************************************************************************)
EXTENDS Integers, Sequences

RECURSIVE IPow(_,_)
IPow(b, e) == IF e = 0 THEN 1 ELSE b * IPow(b, e - 1)
\* `all variables = v` over n inputs: the largest k with k^n <= v (at least 1)
RECURSIVE RootFrom(_,_,_)
RootFrom(v, n, k) == IF IPow(k + 1, n) <= v THEN RootFrom(v, n, k + 1) ELSE k
Root(v, n) == IF n = 1 THEN (IF v < 1 THEN 1 ELSE v) ELSE RootFrom(v, n, 1)
\* values per input variable
PerVariable(scope, v, n) == IF scope = "all" THEN Root(v, n) ELSE IF v < 1 THEN 1 ELSE v
\* the i-th of k equidistant values from lo to hi inclusive, as a pair <<numerator, denominator>> of lo + i*(hi-lo)/(k-1)
\* (a single value when k = 1: the minimum)

\* ---- Op.increment: x is a vector of digits, each from 0 to hi[j]; the last position varies fastest ----------------
\* returns [x, more]: the next vector and whether the counter advanced (FALSE: it wrapped around, enumeration is over)
RECURSIVE IncAt(_,_,_)
IncAt(x, hi, pos) ==
  IF pos < 1 THEN [x |-> x, more |-> FALSE]
  ELSE IF x[pos] < hi[pos] THEN [x |-> [x EXCEPT ![pos] = @ + 1], more |-> TRUE]
  ELSE IF pos = 1 THEN [x |-> [x EXCEPT ![pos] = 0], more |-> FALSE]
  ELSE IncAt([x EXCEPT ![pos] = 0], hi, pos - 1)
Increment(x, hi) == IF x = <<>> THEN [x |-> x, more |-> FALSE] ELSE IncAt(x, hi, Len(x))

\* declarative: the t-th vector (t = 0, 1, ...) of the lexicographic enumeration with the last position fastest
RECURSIVE Digits(_,_,_)
Digits(t, hi, pos) == IF pos < 1 THEN <<>> ELSE Digits(t \div (hi[pos] + 1), hi, pos - 1) \o << t % (hi[pos] + 1) >>
Vector(t, hi) == Digits(t, hi, Len(hi))
RECURSIVE Size(_,_)
Size(hi, pos) == IF pos < 1 THEN 1 ELSE (hi[pos] + 1) * Size(hi, pos - 1)

\* ---- the table: one Engine.restart() before the first row, then the engine's state is carried from row to row ----------
\* An abstract engine with one output that locks its previous value: two rules read the LAST input (whose grid is the
\* integers 0..hi): `A` fires where the digit is 1 or 2 modulo 8 and concludes the constant 1, `B` where it is 5 modulo 8
\* and concludes 2; on the other points no rule fires and the output keeps the value of the previous ROW (0 stands for
\* nan: no valid value yet).  Rows at every multiple of 8 are dead points, so a state that is not carried across any
\* internal boundary of the export (a batch, a chunk, a restart) shows in the column.
Fires(x) == LET d == x[Len(x)] % 8 IN IF d \in {1, 2} THEN 1 ELSE IF d = 5 THEN 2 ELSE 0
RowValue(x, prev) == IF Fires(x) # 0 THEN Fires(x) ELSE prev

\* ---- reader: which lines are tabulated ---------------------------------------------------------------------------------
\* line kinds: "data", "blank", "comment" (# in the first column after stripping), "space-comment" (indented #)
Tabulated(lines, skip) == { i \in 1..Len(lines) : i > skip /\ lines[i] = "data" }
=============================================================================
