---------------------------- MODULE FunctionSyntax ----------------------------
(***************************************************************************)
(* Formulas of fuzzylite.term.Function (C17): expression trees over the 13 *)
(* operators and 34 functions of the function factory, a printer with      *)
(* minimal or redundant parentheses, the postfix-to-tree machine of        *)
(* Function.parse (the infix-to-postfix step is ShuntingYard.tla) and the  *)
(* documented numeric meaning of every element.                            *)
(*                                                                         *)
(* Trees:  [k |-> "num", tok, x]   numeric literal: its token and value     *)
(*         [k |-> "var", n]        variable                                 *)
(*         [k |-> "un",  o, a]     unary operator  o in {not, neg, uminus, uplus}  *)
(*         [k |-> "bin", o, l, r]  binary operator (names of ShuntingYard.OpT)    *)
(*         [k |-> "f0"|"f1"|"f2", f, a, b]   function call                  *)
(***************************************************************************)
EXTENDS ShuntingYard, KExpr

IsAtom(t) == t.k \in {"num", "var", "f0", "f1", "f2"}
PrecT(t) == IF t.k \in {"un", "bin"} THEN OpT[t.o].p ELSE 1000

\* ---- printing ---------------------------------------------------------------------------------
Paren(s) == <<"(">> \o s \o <<")">>
RECURSIVE ShowF(_,_)
ShowF(t, st) ==
  CASE t.k = "num" -> <<t.tok>>
    [] t.k = "var" -> <<t.n>>
    [] t.k = "f0"  -> <<t.f>>
    [] t.k = "f1"  -> <<t.f, "(">> \o ShowF(t.a, st) \o <<")">>
    [] t.k = "f2"  -> <<t.f, "(">> \o ShowF(t.a, st) \o <<",">> \o ShowF(t.b, st) \o <<")">>
    [] t.k = "un"  -> LET c == t.a  s == ShowF(c, st) IN
                      <<OpT[t.o].sym>> \o (IF (st = 1 /\ ~IsAtom(c)) \/ PrecT(c) < PrecT(t) THEN Paren(s) ELSE s)
    [] t.k = "bin" -> LET o == OpT[t.o]  l == t.l  r == t.r
                          \* a child of equal precedence needs parentheses on the side the operator does not associate to
                          lp == IF st = 1 THEN ~IsAtom(l) ELSE PrecT(l) < o.p \/ (PrecT(l) = o.p /\ o.right)
                          rp == IF st = 1 THEN ~IsAtom(r) ELSE PrecT(r) < o.p \/ (PrecT(r) = o.p /\ ~o.right)
                      IN (IF lp THEN Paren(ShowF(l, st)) ELSE ShowF(l, st)) \o <<o.sym>> \o (IF rp THEN Paren(ShowF(r, st)) ELSE ShowF(r, st))
RECURSIVE PostfixF(_)
PostfixF(t) ==
  CASE t.k = "num" -> <<t.tok>>
    [] t.k = "var" -> <<t.n>>
    [] t.k = "f0"  -> <<t.f>>
    [] t.k = "f1"  -> PostfixF(t.a) \o <<t.f>>
    [] t.k = "f2"  -> PostfixF(t.a) \o PostfixF(t.b) \o <<t.f>>
    [] t.k = "un"  -> PostfixF(t.a) \o <<OpT[t.o].sym>>
    [] t.k = "bin" -> PostfixF(t.l) \o PostfixF(t.r) \o <<OpT[t.o].sym>>

\* ---- Function.parse: postfix tokens -> tree (a stack machine); literals are recognised through NumValue ---------------
\* numtab: function from the numeric literal tokens to the XReal they denote; any other operand token is a variable
RECURSIVE ParsePF(_,_,_)
ParsePF(toks, stack, numtab) ==
  IF toks = <<>> THEN (IF Len(stack) = 1 THEN stack[1] ELSE [k |-> "error", why |-> "invalid-formula"])
  ELSE LET tk == Head(toks)  rest == Tail(toks)  n == Len(stack) IN
    IF IsOp(tk) THEN
       LET o == OpOf(tk) IN
       IF OpT[o].arity > n THEN [k |-> "error", why |-> "arity"]
       ELSE IF OpT[o].arity = 1 THEN ParsePF(rest, Append(Pop(stack), [k |-> "un", o |-> o, a |-> stack[n]]), numtab)
       ELSE ParsePF(rest, Append(SubSeq(stack, 1, n - 2), [k |-> "bin", o |-> o, l |-> stack[n - 1], r |-> stack[n]]), numtab)
    ELSE IF IsFun(tk) THEN
       IF FunArity(tk) > n THEN [k |-> "error", why |-> "arity"]
       ELSE IF FunArity(tk) = 0 THEN ParsePF(rest, Append(stack, [k |-> "f0", f |-> tk]), numtab)
       ELSE IF FunArity(tk) = 1 THEN ParsePF(rest, Append(Pop(stack), [k |-> "f1", f |-> tk, a |-> stack[n]]), numtab)
       ELSE ParsePF(rest, Append(SubSeq(stack, 1, n - 2), [k |-> "f2", f |-> tk, a |-> stack[n - 1], b |-> stack[n]]), numtab)
    ELSE IF tk \in {"(", ")", ","} THEN ParsePF(rest, stack, numtab)
    ELSE IF tk \notin DOMAIN numtab THEN ParsePF(rest, Append(stack, [k |-> "var", n |-> tk]), numtab)
    ELSE ParsePF(rest, Append(stack, [k |-> "num", tok |-> tk, x |-> numtab[tk]]), numtab)
ReadFormula(toks, numtab) ==
  LET pf == InfixToPostfix(toks) IN IF pf = ERR THEN [k |-> "error", why |-> "mismatching-parentheses"] ELSE ParsePF(pf, <<>>, numtab)

\* ---- meaning ------------------------------------------------------------------------------------------
\* values are kernel expressions (exact <<"q", x>> whenever rational); truth values are the exact 0 / 1
KB(b) == KQ(Ind(b))
Exact(e) == IsQ(e) /\ ~IsBad(QV(e))
\* binary64 holds a rational exactly only when its denominator is a power of two (the magnitudes here are small): a
\* discontinuous element is judged only on such operands, otherwise rounding decides which side it falls on
Pow2Set == { IPow(2, i) : i \in 0..30 }
Dy(e) == Exact(e) /\ (IsFin(QV(e)) => QV(e)[3] \in Pow2Set)
\* floor and friends on exact rationals
FloorQ(x) == IF ~IsFin(x) THEN x ELSE I(x[2] \div x[3])                       \* TLC's \div floors
CeilQ(x)  == IF ~IsFin(x) THEN x ELSE Neg(FloorQ(Neg(x)))
TruncQ(x) == IF Lt(x, Zero) THEN CeilQ(x) ELSE FloorQ(x)
\* numpy.round: half to even
RoundQ(x) == IF ~IsFin(x) THEN x
             ELSE LET f == FloorQ(x)  d == Sub(x, f) IN
                  IF Lt(d, Half) THEN f ELSE IF Gt(d, Half) THEN Add(f, One) ELSE IF f[2] % 2 = 0 THEN f ELSE Add(f, One)
\* numpy.remainder: sign of the divisor;  numpy.fmod: sign of the dividend
RemQ(a, b)  == IF IsFin(a) /\ IsFin(b) /\ b # Zero THEN Sub(a, Mul(b, FloorQ(Div(a, b)))) ELSE NaN
FmodQ(a, b) == IF IsFin(a) /\ IsFin(b) /\ b # Zero THEN Sub(a, Mul(b, TruncQ(Div(a, b)))) ELSE NaN
Fn1(name, e) == <<"fn1", name, e>>
Fn2(name, e1, e2) == <<"fn2", name, e1, e2>>
Truthy(e) == IF Exact(e) THEN KB(QV(e) # Zero) ELSE Fn1("truthy", e)
\* IEEE pow: x^0 = 1 for every x (NaN included); 0^-n = +inf; everything else that is not a small integer power is left to the evaluator
PowK(a, b) == IF Exact(a) /\ Exact(b) /\ QV(b) = Zero THEN KQ(One)
              ELSE IF Exact(a) /\ Exact(b) /\ IsFin(QV(a)) /\ IsFin(QV(b)) /\ QV(b)[3] = 1 /\ QV(b)[2] >= 0 /\ QV(b)[2] <= 6 THEN KQ(PowI(QV(a), QV(b)[2]))
              ELSE IF Exact(a) /\ Exact(b) /\ IsFin(QV(a)) /\ QV(a) # Zero /\ QV(b)[3] = 1 /\ QV(b)[2] < 0 /\ QV(b)[2] >= -6 THEN KQ(Div(One, PowI(QV(a), -QV(b)[2])))
              ELSE Fn2("pow", a, b)
EvalUn(o, a) ==
  CASE o = "not" -> IF Exact(a) THEN KB(QV(a) = Zero) ELSE Fn1("not", a)
    [] o = "neg" -> KNeg(a)
    [] o = "uminus" -> KNeg(a)
    [] o = "uplus" -> a
EvalBin(o, l, r) ==
  CASE o \in {"pow", "pow2"} -> PowK(l, r)
    [] o = "mul" -> KMul(l, r)
    \* x / 0 is an infinity whose sign is that of the IEEE zero the code holds (-0.0 from x % x, ~0, ...): not judged
    [] o = "div" -> IF Exact(r) /\ QV(r) = Zero THEN Fn2("div-by-zero", l, r) ELSE KDiv(l, r)
    [] o = "mod" -> IF Dy(l) /\ Dy(r) THEN KQ(RemQ(QV(l), QV(r))) ELSE IF Exact(l) /\ Exact(r) THEN Fn2("not-judged", l, r) ELSE Fn2("remainder", l, r)
    [] o = "add" -> KAdd(l, r)
    [] o = "sub" -> KSub(l, r)
    [] o = "and" -> IF Exact(l) /\ Exact(r) THEN KB(QV(l) # Zero /\ QV(r) # Zero) ELSE Fn2("and", l, r)
    [] o = "or"  -> IF Exact(l) /\ Exact(r) THEN KB(QV(l) # Zero \/ QV(r) # Zero) ELSE Fn2("or", l, r)
EvalF1(f, a) ==
  IF Exact(a) /\ ~Dy(a) /\ f \in {"floor", "ceil", "round"} THEN Fn1("not-judged", a)
  ELSE IF Exact(a) /\ f \in {"abs", "fabs", "floor", "ceil", "round"} THEN
       KQ(CASE f \in {"abs", "fabs"} -> Abs(QV(a)) [] f = "floor" -> FloorQ(QV(a)) [] f = "ceil" -> CeilQ(QV(a)) [] f = "round" -> RoundQ(QV(a)))
  ELSE IF f = "sqrt" THEN KSqrt(a) ELSE IF f = "exp" THEN KExp(a) ELSE IF f = "cos" THEN KCos(a) ELSE IF f = "log" THEN KLog(a)
  ELSE Fn1(f, a)
EvalF2(f, a, b) ==
  \* the meaning of min / max with a NaN operand is not documented: left to the evaluator, which does not judge it
  IF Exact(a) /\ Exact(b) /\ ~(Dy(a) /\ Dy(b)) /\ f \in {"gt", "ge", "eq", "neq", "le", "lt", "fmod"} THEN Fn2("not-judged", a, b)
  ELSE IF Exact(a) /\ Exact(b) /\ f \in {"gt", "ge", "eq", "neq", "le", "lt", "min", "max", "fmod"}
     /\ ~(f \in {"min", "max"} /\ (IsNaN(QV(a)) \/ IsNaN(QV(b)))) THEN
       LET x == QV(a)  y == QV(b) IN
       CASE f = "gt" -> KB(Gt(x, y)) [] f = "ge" -> KB(Ge(x, y) \/ (IsNaN(x) /\ IsNaN(y))) [] f = "le" -> KB(Le(x, y) \/ (IsNaN(x) /\ IsNaN(y)))
         [] f = "lt" -> KB(Lt(x, y)) [] f = "eq" -> KB(x = y) [] f = "neq" -> KB(x # y)
         [] f = "min" -> KQ(XMin(x, y)) [] f = "max" -> KQ(XMax(x, y)) [] f = "fmod" -> KQ(FmodQ(x, y))
  ELSE IF f = "pow" THEN PowK(a, b)
  ELSE IF f = "atan2" /\ Exact(a) /\ QV(a) = Zero THEN Fn2("atan2-of-zero", a, b)      \* sign of zero again
  ELSE Fn2(f, a, b)
\* env: function from variable names to their values (kernel expressions)
RECURSIVE EvalT(_,_)
EvalT(t, env) ==
  CASE t.k = "num" -> KQ(t.x)
    [] t.k = "var" -> env[t.n]
    [] t.k = "f0"  -> KPi
    [] t.k = "f1"  -> EvalF1(t.f, EvalT(t.a, env))
    [] t.k = "f2"  -> EvalF2(t.f, EvalT(t.a, env), EvalT(t.b, env))
    [] t.k = "un"  -> EvalUn(t.o, EvalT(t.a, env))
    [] t.k = "bin" -> EvalBin(t.o, EvalT(t.l, env), EvalT(t.r, env))
=============================================================================
