SPECIFICATION Spec
CONSTANTS MaxLen = 2
  FromFile = FALSE
  Emit = FALSE
INVARIANT ZeroDegreeInvariance
INVARIANT NaNExactly
INVARIANT AverageOfConstants
INVARIANT InferenceTable
INVARIANT GroupingShape
CHECK_DEADLOCK FALSE
