------------------------------ MODULE FllSyntax ------------------------------
(***************************************************************************)
(* The FuzzyLite Language (C14): abstract engines, the exporter            *)
(* (FllExporter: engine -> lines of tokens), the importer (FllImporter:    *)
(* lines -> engine, one step per line, keyed by the text before the colon) *)
(* and the meaning-preserving variants of a text.                          *)
(*                                                                         *)
(* Numbers are decimal numerals at `dec` decimals - sign, integer part and *)
(* fraction scaled by 10^dec - or inf / -inf / nan: exactly what the       *)
(* language can hold.  A token is a record [s, n, i]: its spelling, the    *)
(* numeral it denotes (NoNum for words) and the integer it denotes (-1 for *)
(* non-integers); the exporter produces spelling and value together, the   *)
(* importer reads values, variants change spellings only.                  *)
(*                                                                         *)
(* engine = [name, desc, inputs, outputs, blocks]                          *)
(* input  = [name, desc, enabled, min, max, lockRange, terms]              *)
(* output = input + [aggr, defuzz : [cls, res, type], default, lockPrev]   *)
(* term   = [name, cls, p : numerals, h : numeral, f : formula words,      *)
(*           fv : a Function term's own variables, Seq([n, v])]            *)
(* block  = [name, desc, enabled, conj, disj, impl,                         *)
(*           act : [cls, n, thr, cmp], rules : Seq([toks, w])]             *)
(***************************************************************************)
EXTENDS Integers, Sequences, TLC
CONSTANT CrossLocks        \* canary: an importer that stores lock-previous under lock-range and vice versa

\* ---- numerals ---------------------------------------------------------------------------------------
\* TLC's integers are 32-bit: an integer part of 10 digits or more is held as `hi` (its leading digits, a string) followed by
\* the nine digits of `ip`;  hi = "" for every integer part below 10^9
NoNum == [k |-> "none", neg |-> FALSE, hi |-> "", ip |-> 0, fp |-> 0]
Num(neg, ip, fp) == [k |-> "num", neg |-> neg, hi |-> "", ip |-> ip, fp |-> fp]
Big(neg, hi, ip, fp) == [k |-> "num", neg |-> neg, hi |-> hi, ip |-> ip, fp |-> fp]
NanN  == [k |-> "nan",  neg |-> FALSE, hi |-> "", ip |-> 0, fp |-> 0]
PInfN == [k |-> "inf",  neg |-> FALSE, hi |-> "", ip |-> 0, fp |-> 0]
NInfN == [k |-> "-inf", neg |-> TRUE,  hi |-> "", ip |-> 0, fp |-> 0]
OneN  == Num(FALSE, 1, 0)
ZeroN == Num(FALSE, 0, 0)
RECURSIVE Pow10(_)
Pow10(n) == IF n = 0 THEN 1 ELSE 10 * Pow10(n - 1)
RECURSIVE Pad(_,_)
Pad(str, n) == IF Len(str) >= n THEN str ELSE Pad("0" \o str, n)
\* Op.str: f"{x:.{decimals}f}"
IntPart(x) == IF x.hi = "" THEN ToString(x.ip) ELSE x.hi \o Pad(ToString(x.ip), 9)
Fmt(x, dec) == IF x.k = "num"
               THEN (IF x.neg THEN "-" ELSE "") \o IntPart(x) \o (IF dec = 0 THEN "" ELSE "." \o Pad(ToString(x.fp), dec))
               ELSE x.k
\* Op.is_close(x, 1.0) with the default tolerances (atol = 0.001, rtol = 0), on numerals
Tol(dec) == Pow10(dec) \div 1000
CloseOne(x, dec) == x.k = "num" /\ ~x.neg /\ x.hi = "" /\ ((x.ip = 1 /\ x.fp <= Tol(dec)) \/ (x.ip = 0 /\ Pow10(dec) - x.fp <= Tol(dec)))

\* ---- tokens and lines -----------------------------------------------------------------------------------
W(s)       == [s |-> s, n |-> NoNum, i |-> -1]
NT(x, dec) == [s |-> Fmt(x, dec), n |-> x, i |-> -1]
IT(j)      == [s |-> ToString(j), n |-> NoNum, i |-> j]
BT(b)      == W(IF b THEN "true" ELSE "false")
Ws(seq)    == [j \in 1..Len(seq) |-> W(seq[j])]
Line(ind, key, val) == [ind |-> ind, key |-> key, val |-> val, cmt |-> FALSE]
Headers == {"Engine", "InputVariable", "OutputVariable", "RuleBlock"}

IntegralCls == {"Bisector", "Centroid", "LargestOfMaximum", "MeanOfMaximum", "SmallestOfMaximum"}
WeightedCls == {"WeightedAverage", "WeightedSum"}
NoDefuzz == [cls |-> "none", res |-> 0, type |-> ""]
DefaultDefuzz(cls) == [cls |-> cls, res |-> IF cls \in IntegralCls THEN 1000 ELSE 0, type |-> IF cls \in WeightedCls THEN "Automatic" ELSE ""]
NoAct == [cls |-> "none", n |-> 0, thr |-> NoNum, cmp |-> ""]
DefaultAct(cls) == [cls |-> cls,
                    n   |-> IF cls \in {"First", "Last", "Highest", "Lowest"} THEN 1 ELSE 0,
                    thr |-> IF cls \in {"First", "Last", "Threshold"} THEN ZeroN ELSE NoNum,
                    cmp |-> IF cls = "Threshold" THEN ">" ELSE ""]
\* number of parameters before the optional height; -1: variable length (Discrete pairs, Linear coefficients), -2: text
Arity == [Arc |-> 2, Bell |-> 3, Binary |-> 2, Concave |-> 2, Constant |-> 1, Cosine |-> 2, Discrete |-> -1, Gaussian |-> 2,
          GaussianProduct |-> 4, Linear |-> -1, PiShape |-> 4, Ramp |-> 2, Rectangle |-> 2, SemiEllipse |-> 2, Sigmoid |-> 2,
          SigmoidDifference |-> 4, SigmoidProduct |-> 4, Spike |-> 2, SShape |-> 2, Trapezoid |-> 4, Triangle |-> 3, ZShape |-> 2,
          Function |-> -2]
TermClasses == DOMAIN Arity
HasHeight(cls) == cls \notin {"Constant", "Linear", "Function"}

\* ---- exporter ---------------------------------------------------------------------------------------
TermLine(t, dec) ==
  Line(1, "term", <<W(t.name), W(t.cls)>> \o
       (IF t.cls = "Function" THEN Ws(t.f)
        ELSE [j \in 1..Len(t.p) |-> NT(t.p[j], dec)] \o (IF CloseOne(t.h, dec) THEN <<>> ELSE <<NT(t.h, dec)>>)))
DescLine(d) == IF d = <<>> THEN <<>> ELSE <<Line(1, "description", Ws(d))>>
NameVal(nm) == IF nm = "" THEN <<>> ELSE <<W(nm)>>
VarLines(kind, v, dec) ==
  <<Line(0, kind, NameVal(v.name))>> \o DescLine(v.desc) \o
  <<Line(1, "enabled", <<BT(v.enabled)>>), Line(1, "range", <<NT(v.min, dec), NT(v.max, dec)>>), Line(1, "lock-range", <<BT(v.lockRange)>>)>>
TermLines(v, dec) == [j \in 1..Len(v.terms) |-> TermLine(v.terms[j], dec)]
DefuzzVal(d) == IF d.cls = "none" THEN <<W("none")>>
                ELSE <<W(d.cls)>> \o (IF d.cls \in IntegralCls /\ d.res # 1000 THEN <<IT(d.res)>> ELSE <<>>)
                                  \o (IF d.cls \in WeightedCls /\ d.type # "Automatic" THEN <<W(d.type)>> ELSE <<>>)
ActVal(a, dec) == IF a.cls = "none" THEN <<W("none")>>
                  ELSE <<W(a.cls)>> \o (IF a.cls \in {"First", "Last"} THEN <<IT(a.n), NT(a.thr, dec)>>
                                        ELSE IF a.cls \in {"Highest", "Lowest"} THEN <<IT(a.n)>>
                                        ELSE IF a.cls = "Threshold" THEN <<W(a.cmp), NT(a.thr, dec)>> ELSE <<>>)
InputLines(v, dec) == VarLines("InputVariable", v, dec) \o TermLines(v, dec)
OutputLines(v, dec) ==
  VarLines("OutputVariable", v, dec) \o
  <<Line(1, "aggregation", <<W(v.aggr)>>), Line(1, "defuzzifier", DefuzzVal(v.defuzz)),
    Line(1, "default", <<NT(v.default, dec)>>), Line(1, "lock-previous", <<BT(v.lockPrev)>>)>> \o TermLines(v, dec)
RuleLine(r, dec) == Line(1, "rule", Ws(r.toks) \o (IF CloseOne(r.w, dec) THEN <<>> ELSE <<W("with"), NT(r.w, dec)>>))
BlockLines(b, dec) ==
  <<Line(0, "RuleBlock", NameVal(b.name))>> \o DescLine(b.desc) \o
  <<Line(1, "enabled", <<BT(b.enabled)>>), Line(1, "conjunction", <<W(b.conj)>>), Line(1, "disjunction", <<W(b.disj)>>),
    Line(1, "implication", <<W(b.impl)>>), Line(1, "activation", ActVal(b.act, dec))>> \o
  [j \in 1..Len(b.rules) |-> RuleLine(b.rules[j], dec)]
RECURSIVE Flatten(_)
Flatten(ss) == IF ss = <<>> THEN <<>> ELSE Head(ss) \o Flatten(Tail(ss))
Export(e, dec) ==
  <<Line(0, "Engine", NameVal(e.name))>> \o DescLine(e.desc) \o
  Flatten([j \in 1..Len(e.inputs) |-> InputLines(e.inputs[j], dec)]) \o
  Flatten([j \in 1..Len(e.outputs) |-> OutputLines(e.outputs[j], dec)]) \o
  Flatten([j \in 1..Len(e.blocks) |-> BlockLines(e.blocks[j], dec)])

\* ---- importer: one step per line -------------------------------------------------------------------------
EmptyEngine == [name |-> "", desc |-> <<>>, inputs |-> <<>>, outputs |-> <<>>, blocks |-> <<>>]
NewInput(nm)  == [name |-> nm, desc |-> <<>>, enabled |-> TRUE, min |-> NInfN, max |-> PInfN, lockRange |-> FALSE, terms |-> <<>>]
NewOutput(nm) == [name |-> nm, desc |-> <<>>, enabled |-> TRUE, min |-> NInfN, max |-> PInfN, lockRange |-> FALSE, terms |-> <<>>,
                  aggr |-> "none", defuzz |-> NoDefuzz, default |-> NanN, lockPrev |-> FALSE]
NewBlock(nm)  == [name |-> nm, desc |-> <<>>, enabled |-> TRUE, conj |-> "none", disj |-> "none", impl |-> "none", act |-> NoAct, rules |-> <<>>]
Strs(val) == [j \in 1..Len(val) |-> val[j].s]
NameOf(val) == IF val = <<>> THEN "" ELSE val[1].s
BoolOf(val) == val[1].s = "true"
NormOf(val) == IF val = <<>> \/ val[1].s = "none" THEN "none" ELSE val[1].s
DefuzzOf(val) ==
  IF val = <<>> \/ val[1].s = "none" THEN NoDefuzz
  ELSE LET cls == val[1].s IN
       IF Len(val) = 1 THEN DefaultDefuzz(cls)
       ELSE IF cls \in IntegralCls THEN [DefaultDefuzz(cls) EXCEPT !.res = val[2].i]
       ELSE [DefaultDefuzz(cls) EXCEPT !.type = val[2].s]
ActOf(val) ==
  IF val = <<>> \/ val[1].s = "none" THEN NoAct
  ELSE LET cls == val[1].s  d == DefaultAct(cls) IN
       IF Len(val) = 1 THEN d
       ELSE IF cls \in {"First", "Last"} THEN [d EXCEPT !.n = val[2].i, !.thr = val[3].n]
       ELSE IF cls \in {"Highest", "Lowest"} THEN [d EXCEPT !.n = val[2].i]
       ELSE IF cls = "Threshold" THEN [d EXCEPT !.cmp = val[2].s, !.thr = val[3].n]
       ELSE d                                             \* General / Proportional ignore parameters
Nums(val) == [j \in 1..Len(val) |-> val[j].n]
NaNs(k) == [j \in 1..k |-> NanN]
\* Term.configure: the parameters, then an optional height
TermOf(val) ==
  LET nm == val[1].s  cls == val[2].s  rest == SubSeq(val, 3, Len(val))  a == Arity[cls] IN
  IF cls = "Function" THEN [name |-> nm, cls |-> cls, p |-> <<>>, h |-> OneN, f |-> Strs(rest), fv |-> <<>>]
  ELSE IF rest = <<>> THEN [name |-> nm, cls |-> cls, p |-> (IF a > 0 THEN NaNs(a) ELSE <<>>), h |-> OneN, f |-> <<>>, fv |-> <<>>]
  ELSE IF cls = "Linear" THEN [name |-> nm, cls |-> cls, p |-> Nums(rest), h |-> OneN, f |-> <<>>, fv |-> <<>>]
  ELSE IF cls = "Discrete" THEN
         (IF Len(rest) % 2 = 0 THEN [name |-> nm, cls |-> cls, p |-> Nums(rest), h |-> OneN, f |-> <<>>, fv |-> <<>>]
          ELSE [name |-> nm, cls |-> cls, p |-> Nums(SubSeq(rest, 1, Len(rest) - 1)), h |-> rest[Len(rest)].n, f |-> <<>>, fv |-> <<>>])
  ELSE IF Len(rest) = a THEN [name |-> nm, cls |-> cls, p |-> Nums(rest), h |-> OneN, f |-> <<>>, fv |-> <<>>]
  ELSE [name |-> nm, cls |-> cls, p |-> Nums(SubSeq(rest, 1, a)), h |-> rest[a + 1].n, f |-> <<>>, fv |-> <<>>]     \* Len(rest) = a + 1 (anything else is rejected)
\* Rule.parse: tokens up to `with`, then the weight
RuleOf(val) ==
  LET n == Len(val) IN
  IF n >= 2 /\ val[n - 1].s = "with" THEN [toks |-> Strs(SubSeq(val, 1, n - 2)), w |-> val[n].n]
  ELSE [toks |-> Strs(val), w |-> OneN]
UpdLast(seq, x) == [seq EXCEPT ![Len(seq)] = x]
Last(seq) == seq[Len(seq)]

\* st = [e, comp]
ImportLine(st, ln) ==
  LET e == st.e  k == ln.key  v == ln.val IN
  IF k \in {"#", ""} THEN st                                            \* comment-only and blank lines
  ELSE IF k = "Engine" THEN [e |-> [e EXCEPT !.name = NameOf(v)], comp |-> k]
  ELSE IF k = "InputVariable" THEN [e |-> [e EXCEPT !.inputs = Append(@, NewInput(NameOf(v)))], comp |-> k]
  ELSE IF k = "OutputVariable" THEN [e |-> [e EXCEPT !.outputs = Append(@, NewOutput(NameOf(v)))], comp |-> k]
  ELSE IF k = "RuleBlock" THEN [e |-> [e EXCEPT !.blocks = Append(@, NewBlock(NameOf(v)))], comp |-> k]
  ELSE IF st.comp = "Engine" THEN [st EXCEPT !.e.desc = Strs(v)]        \* only `description` is valid here
  ELSE IF st.comp = "InputVariable" THEN
       LET x == Last(e.inputs)
           y == CASE k = "description" -> [x EXCEPT !.desc = Strs(v)]
                  [] k = "enabled" -> [x EXCEPT !.enabled = BoolOf(v)]
                  [] k = "range" -> [x EXCEPT !.min = v[1].n, !.max = v[2].n]
                  [] k = "lock-range" -> [x EXCEPT !.lockRange = BoolOf(v)]
                  [] k = "term" -> [x EXCEPT !.terms = Append(@, TermOf(v))]
       IN [st EXCEPT !.e.inputs = UpdLast(e.inputs, y)]
  ELSE IF st.comp = "OutputVariable" THEN
       LET x == Last(e.outputs)
           y == CASE k = "description" -> [x EXCEPT !.desc = Strs(v)]
                  [] k = "enabled" -> [x EXCEPT !.enabled = BoolOf(v)]
                  [] k = "range" -> [x EXCEPT !.min = v[1].n, !.max = v[2].n]
                  [] k = "lock-range" -> IF CrossLocks THEN [x EXCEPT !.lockPrev = BoolOf(v)] ELSE [x EXCEPT !.lockRange = BoolOf(v)]
                  [] k = "default" -> [x EXCEPT !.default = v[1].n]
                  [] k = "lock-previous" -> IF CrossLocks THEN [x EXCEPT !.lockRange = BoolOf(v)] ELSE [x EXCEPT !.lockPrev = BoolOf(v)]
                  [] k = "defuzzifier" -> [x EXCEPT !.defuzz = DefuzzOf(v)]
                  [] k = "aggregation" -> [x EXCEPT !.aggr = NormOf(v)]
                  [] k = "term" -> [x EXCEPT !.terms = Append(@, TermOf(v))]
       IN [st EXCEPT !.e.outputs = UpdLast(e.outputs, y)]
  ELSE LET x == Last(e.blocks)
           y == CASE k = "description" -> [x EXCEPT !.desc = Strs(v)]
                  [] k = "enabled" -> [x EXCEPT !.enabled = BoolOf(v)]
                  [] k = "conjunction" -> [x EXCEPT !.conj = NormOf(v)]
                  [] k = "disjunction" -> [x EXCEPT !.disj = NormOf(v)]
                  [] k = "implication" -> [x EXCEPT !.impl = NormOf(v)]
                  [] k = "activation" -> [x EXCEPT !.act = ActOf(v)]
                  [] k = "rule" -> [x EXCEPT !.rules = Append(@, RuleOf(v))]
       IN [st EXCEPT !.e.blocks = UpdLast(e.blocks, y)]
RECURSIVE ImportFrom(_,_)
ImportFrom(st, lines) == IF lines = <<>> THEN st ELSE ImportFrom(ImportLine(st, Head(lines)), Tail(lines))
Import(lines) == ImportFrom([e |-> EmptyEngine, comp |-> ""], lines).e

\* ---- what a text can hold: heights and weights within the comparison tolerance of 1 are 1 ------------------
\* (the language has no syntax for the own variables of a Function term: a text cannot hold them)
CanonTermW(t, dec, dropfv) == LET u == IF HasHeight(t.cls) /\ CloseOne(t.h, dec) THEN [t EXCEPT !.h = OneN] ELSE t IN IF dropfv THEN [u EXCEPT !.fv = <<>>] ELSE u
CanonVarW(v, dec, dropfv) == [v EXCEPT !.terms = [j \in 1..Len(v.terms) |-> CanonTermW(v.terms[j], dec, dropfv)]]
CanonBlock(b, dec) == [b EXCEPT !.rules = [j \in 1..Len(b.rules) |-> IF CloseOne(b.rules[j].w, dec) THEN [b.rules[j] EXCEPT !.w = OneN] ELSE b.rules[j]]]
CanonW(e, dec, dropfv) == [e EXCEPT !.inputs = [j \in 1..Len(e.inputs) |-> CanonVarW(e.inputs[j], dec, dropfv)],
                                    !.outputs = [j \in 1..Len(e.outputs) |-> CanonVarW(e.outputs[j], dec, dropfv)],
                                    !.blocks = [j \in 1..Len(e.blocks) |-> CanonBlock(e.blocks[j], dec)]]
Canon(e, dec) == CanonW(e, dec, TRUE)

\* ---- meaning-preserving variants of a text -------------------------------------------------------------------
\* blocks: maximal runs starting at a header line
RECURSIVE SplitBlocks(_,_)
SplitBlocks(lines, acc) ==
  IF lines = <<>> THEN acc
  ELSE IF Head(lines).key \in Headers \/ acc = <<>> THEN SplitBlocks(Tail(lines), Append(acc, <<Head(lines)>>))
  ELSE SplitBlocks(Tail(lines), UpdLast(acc, Append(Last(acc), Head(lines))))
RECURSIVE Rev(_)
Rev(s) == IF s = <<>> THEN <<>> ELSE Append(Rev(Tail(s)), Head(s))
IsItem(ln) == ln.key \in {"term", "rule"}
\* 1: attributes after the terms / rules and in reverse order (the importer is keyed, not positional)
Reordered(lines) ==
  Flatten([b \in 1..Len(SplitBlocks(lines, <<>>)) |->
     LET blk == SplitBlocks(lines, <<>>)[b]  body == Tail(blk) IN
     <<Head(blk)>> \o SelectSeq(body, IsItem) \o Rev(SelectSeq(body, LAMBDA ln : ~IsItem(ln)))])
\* 2: attributes that state the constructor's default are omitted
IsDefaultLine(ln) ==
  \/ ln.key \in {"enabled"} /\ Strs(ln.val) = <<"true">>
  \/ ln.key \in {"lock-range", "lock-previous"} /\ Strs(ln.val) = <<"false">>
  \/ ln.key = "range" /\ Strs(ln.val) = <<"-inf", "inf">>
  \/ ln.key = "default" /\ Strs(ln.val) = <<"nan">>
  \/ ln.key \in {"aggregation", "defuzzifier", "conjunction", "disjunction", "implication", "activation"} /\ Strs(ln.val) = <<"none">>
WithoutDefaults(lines) == SelectSeq(lines, LAMBDA ln : ~IsDefaultLine(ln))
\* 3: `none` left out
EmptyForNone(lines) == [j \in 1..Len(lines) |-> IF Strs(lines[j].val) = <<"none">> THEN [lines[j] EXCEPT !.val = <<>>] ELSE lines[j]]
\* 4: other spellings of the same numbers
Respell(tok) == IF tok.n.k = "num" /\ tok.n.fp = 0 /\ ~(tok.n.neg /\ tok.n.ip = 0) THEN [tok EXCEPT !.s = (IF tok.n.neg THEN "-" ELSE "") \o IntPart(tok.n)]
                ELSE IF tok.n.k = "nan" THEN [tok EXCEPT !.s = "NaN"]
                ELSE IF tok.n.k = "inf" THEN [tok EXCEPT !.s = "+inf"]
                ELSE IF tok.n.k = "-inf" THEN [tok EXCEPT !.s = "-Infinity"]
                ELSE tok
Respelled(lines) == [j \in 1..Len(lines) |-> [lines[j] EXCEPT !.val = [q \in 1..Len(@) |-> Respell(@[q])]]]
\* 5: defaults spelled out: resolution 1000, type Automatic, height 1, weight 1, parameters of First / Threshold
Explicit(ln, dec) ==
  IF ln.key = "defuzzifier" /\ Len(ln.val) = 1 /\ ln.val[1].s \in IntegralCls THEN [ln EXCEPT !.val = Append(@, IT(1000))]
  ELSE IF ln.key = "defuzzifier" /\ Len(ln.val) = 1 /\ ln.val[1].s \in WeightedCls THEN [ln EXCEPT !.val = Append(@, W("Automatic"))]
  ELSE IF ln.key = "term" /\ HasHeight(ln.val[2].s)
          /\ ((ln.val[2].s = "Discrete" /\ Len(ln.val) % 2 = 0 /\ Len(ln.val) > 2) \/ (Arity[ln.val[2].s] > 0 /\ Len(ln.val) = 2 + Arity[ln.val[2].s]))
       THEN [ln EXCEPT !.val = Append(@, NT(OneN, dec))]
  ELSE IF ln.key = "rule" /\ ~(Len(ln.val) >= 2 /\ ln.val[Len(ln.val) - 1].s = "with") THEN [ln EXCEPT !.val = @ \o <<W("with"), NT(OneN, dec)>>]
  ELSE ln
SpelledOut(lines, dec) == [j \in 1..Len(lines) |-> Explicit(lines[j], dec)]
\* 6: comment lines, blank lines and trailing comments
Commented(lines) ==
  Flatten([j \in 1..Len(lines) |->
     IF j % 3 = 1 THEN <<Line(0, "#", <<W("a"), W("comment:"), W("ignored")>>), [lines[j] EXCEPT !.cmt = TRUE]>>
     ELSE IF j % 3 = 2 THEN <<Line(0, "", <<>>), lines[j]>> ELSE <<[lines[j] EXCEPT !.cmt = TRUE]>>])
\* 7: an attribute given twice: the later one counts
Flip(ln) == [ln EXCEPT !.val = <<BT(~BoolOf(ln.val))>>]
Duplicated(lines) ==
  Flatten([j \in 1..Len(lines) |-> IF lines[j].key \in {"enabled", "lock-range", "lock-previous"} THEN <<Flip(lines[j]), lines[j]>> ELSE <<lines[j]>>])
Variants(lines, dec) ==
  << Reordered(lines), WithoutDefaults(lines), EmptyForNone(lines), Respelled(lines), SpelledOut(lines, dec), Commented(lines), Duplicated(lines),
     Commented(Respelled(Reordered(WithoutDefaults(SpelledOut(lines, dec))))) >>
VariantNames == <<"reordered", "without-defaults", "empty-for-none", "respelled", "spelled-out", "commented", "duplicated", "all-together">>
=============================================================================
