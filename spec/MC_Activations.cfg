SPECIFICATION Spec
CONSTANTS KMax = 3
  WithNaN = FALSE
  Emit = FALSE
  TieReversed = FALSE
INVARIANT MachineEqualsSelection
INVARIANT NoOtherContributes
INVARIANT TriggeredOnlyPositive
INVARIANT AtMostN
CHECK_DEADLOCK FALSE
