SPECIFICATION Spec
CONSTANTS Keys <- KeysDef
  RestoreAll = FALSE
INVARIANT Report
CHECK_DEADLOCK FALSE
