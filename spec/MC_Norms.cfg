SPECIFICATION Spec
CONSTANTS G = 16
  Emit = FALSE
INVARIANT RangeOK
INVARIANT Commutative
INVARIANT Monotone
INVARIANT Associative
INVARIANT Identity
INVARIANT Annihilator
INVARIANT Bound
INVARIANT Duality
INVARIANT NaNRules
CHECK_DEADLOCK FALSE
