---------------------------- MODULE MC_Consequent ----------------------------
(* C07: each conclusion of a triggered rule contributes exactly its own activation.
   One state per (consequent, enabled flags of the three output variables); the invariants quantify
   over the activation degrees.  Conclude / Trigger are the operators of Engine.tla. *)
EXTENDS Engine, TLC, Json
CONSTANTS Emit,
          Leaky        \* canary: hedges of earlier conclusions keep acting on later ones
OutNames == <<"y1", "y2", "y3">>
Hs == {"not", "very", "somewhat", "any", "extremely"}
Chains1 == {<<>>} \cup { <<h>> : h \in Hs }
Chains2 == Chains1 \cup { <<g, h>> : g \in Hs \ {"extremely"}, h \in Hs \ {"extremely"} }
Concl(v, hs) == [var |-> v, hs |-> hs, term |-> "t"]
C1 == { <<Concl(OutNames[v], hs)>> : v \in 1..2, hs \in Chains2 }
C2 == { <<Concl(OutNames[v], hs), Concl(OutNames[w], gs)>> : v \in 1..2, w \in 1..3, hs \in Chains2 \ {<<"extremely">>}, gs \in Chains1 }
C3 == { <<Concl(OutNames[v], hs), Concl(OutNames[w], gs), Concl(OutNames[u], fs)>> :
          v \in 1..2, w \in 1..3, u \in 1..3, hs \in Chains1 \ {<<"extremely">>}, gs \in {<<>>, <<"not">>, <<"very">>}, fs \in {<<>>, <<"somewhat">>, <<"any">>} }
Degrees == << Zero, Q(1,4), Q(9,16), One, NaN, PInf, NInf >>
EnPatterns == { <<TRUE,TRUE,TRUE>>, <<FALSE,TRUE,TRUE>>, <<TRUE,FALSE,TRUE>>, <<TRUE,TRUE,FALSE>> }

T0 == [name |-> "t", k |-> "Triangle", p |-> <<Zero, Half, One>>, h |-> One]
Eng(en) == [name |-> "c07", inputs |-> <<>>,
            outputs |-> [o \in 1..3 |-> [name |-> OutNames[o], enabled |-> en[o], min |-> Zero, max |-> One, lockRange |-> FALSE,
                                         terms |-> <<T0>>, lockPrev |-> FALSE, default |-> NaN, aggregation |-> "Maximum",
                                         defuzzifier |-> [cls |-> "Centroid", resolution |-> 4, type |-> "Automatic"]]],
            blocks |-> <<>>]
Blk == [implication |-> "AlgebraicProduct"]
Empty == [o \in 1..3 |-> <<>>]

\* the defect-shaped variant (Consequent.modify re-using the hedged degree), used as canary
RECURSIVE LeakyConclude(_,_,_,_)
LeakyConclude(E, fz, cons, d) ==
  IF cons = <<>> THEN fz
  ELSE LET c == Head(cons)  o == OutIdx(E, c.var)  var == E.outputs[o]  d2 == IF var.enabled THEN HChain(c.hs, d) ELSE d IN
       LeakyConclude(E, IF var.enabled THEN [fz EXCEPT ![o] = Append(@, [term |-> TermOf(var, c.term), degree |-> NanToNum01(d2), impl |-> Blk.implication])] ELSE fz,
                     Tail(cons), d2)
Contrib(en, cons, d) == IF Leaky THEN LeakyConclude(Eng(en), Empty, cons, d) ELSE Conclude(Eng(en), Empty, Blk, cons, d)

VARIABLES cons, en, grp
vars == <<cons, en, grp>>
\* TLC evaluates initial states in one thread: the initial states only pick a group, the workers expand them
All == C1 \cup C2 \cup C3
Group(g) == { c \in All : Len(c) = ((g - 1) % 3) + 1 /\ c[1].var = OutNames[((g - 1) \div 3) + 1] }
Init == cons = <<>> /\ en \in EnPatterns /\ grp \in 1..6
Next == cons = <<>> /\ cons' \in Group(grp) /\ UNCHANGED <<en, grp>>
Spec == Init /\ [][Next]_vars

Ds == { Degrees[i] : i \in 1..Len(Degrees) }
OfVar(cs, o) == SelectSeq(cs, LAMBDA c : c.var = OutNames[o])
\* exactly one activated term per conclusion whose variable is enabled, nothing for disabled variables
OnePerConclusion == cons # <<>> => \A d \in Ds : \A o \in 1..3 :
   Len(Contrib(en, cons, d)[o]) = IF en[o] THEN Len(OfVar(cons, o)) ELSE 0
\* each contribution is what the conclusion would contribute on its own: own hedges only, the block's implication
Independent == cons # <<>> => \A d \in Ds : \A o \in 1..3 : en[o] =>
   LET mine == OfVar(cons, o) got == Contrib(en, cons, d)[o] IN
   \A i \in 1..Len(mine) : got[i] = Contrib(en, <<mine[i]>>, d)[o][1]
\* stored degrees: NaN and -inf as 0, +inf as 1
Stored == cons # <<>> => \A d \in Ds : \A o \in 1..3 : \A i \in 1..Len(Contrib(en, cons, d)[o]) :
   LET g == Contrib(en, cons, d)[o][i].degree IN ~IsBad(g) => (Le(Zero, g) /\ Le(g, One))
\* reordering the conclusions permutes the contributions per variable and changes nothing else
Rev(s) == [i \in 1..Len(s) |-> s[Len(s) + 1 - i]]
Swap12(s) == IF Len(s) < 2 THEN s ELSE <<s[2], s[1]>> \o SubSeq(s, 3, Len(s))
OrderIndependent == cons # <<>> => \A d \in Ds : \A o \in 1..3 :
   /\ Contrib(en, Rev(cons), d)[o] = Rev(Contrib(en, cons, d)[o])
   /\ LET a == Contrib(en, Swap12(cons), d)[o]  b == Contrib(en, cons, d)[o] IN
      Len(a) = Len(b) /\ { a[i] : i \in 1..Len(a) } = { b[i] : i \in 1..Len(b) }
EmitInv == (Emit /\ cons # <<>>) => PrintT(ToJson([cons |-> cons, en |-> en,
                    expect |-> [i \in 1..Len(Degrees) |-> [o \in 1..3 |-> [k \in 1..Len(Contrib(en, cons, Degrees[i])[o]) |->
                                  Contrib(en, cons, Degrees[i])[o][k].degree]]]]))
=============================================================================
