-------------------------------- MODULE Engine --------------------------------
(***************************************************************************)
(* The inference pipeline of fuzzylite.engine.Engine (C01, C02, C06, C07,   *)
(* C08, C13, C19) as an interpreter of an *engine description* (EDL): a     *)
(* record holding variables, terms, operators, defuzzifiers, rule blocks    *)
(* and rules as antecedent trees and conclusion lists.  The same JSON       *)
(* document is read by TLC and by harness/build.py, which builds the real   *)
(* objects from it with constructors only.                                  *)
(*                                                                         *)
(* EDL (all numbers are XReal triples):                                     *)
(*  engine = [name, inputs: Seq(var), outputs: Seq(out), blocks: Seq(blk)]  *)
(*  var    = [name, enabled, min, max, lockRange, terms: Seq(term)]         *)
(*  out    = var + [lockPrev, default, aggregation (S-norm name | "none"),  *)
(*                  defuzzifier: [cls ("none"|class), resolution, type]]    *)
(*  term   = [name, k, p, h]   (Terms.tla; k = "Linear": p = coefficients;  *)
(*            k = "Function": + tree, a formula tree of FunctionSyntax.tla) *)
(*  blk    = [name, enabled, conjunction, disjunction, implication,         *)
(*            activation: [cls, rules, threshold, comparator], rules]       *)
(*  rule   = [enabled, loaded, weight, ant: tree, cons: Seq([var,hs,term])] *)
(*  tree   = [kind |-> "p", v, hs, t] | [kind |-> "and"|"or", l, r]         *)
(*         | [kind |-> "fixed", d]            (a forced degree, C08)        *)
(*                                                                         *)
(* State of one engine instance (a record, so that several instances can    *)
(* coexist, C13):                                                           *)
(*  inval : value of each input variable                                    *)
(*  fuzzy : per output variable, the sequence of activations               *)
(*  outval, prev : value / previous value of each output variable           *)
(*  deg, trig : per block, per rule: activation degree and triggered flag   *)
(***************************************************************************)
EXTENDS Defuzzifiers, Hedges, FunctionSyntax

\* ---- look-ups ------------------------------------------------------------------------------
IsInput(E, n)  == \E i \in 1..Len(E.inputs) : E.inputs[i].name = n
InIdx(E, n)    == CHOOSE i \in 1..Len(E.inputs) : E.inputs[i].name = n
OutIdx(E, n)   == CHOOSE i \in 1..Len(E.outputs) : E.outputs[i].name = n
TermOf(var, n) == var.terms[CHOOSE i \in 1..Len(var.terms) : var.terms[i].name = n]

ClipVar(var, v) == IF var.lockRange THEN Clip(v, var.min, var.max) ELSE v      \* Variable.value setter

Fresh(E) == [inval  |-> [i \in 1..Len(E.inputs) |-> NaN],
             fuzzy  |-> [o \in 1..Len(E.outputs) |-> <<>>],
             outval |-> [o \in 1..Len(E.outputs) |-> NaN],
             prev   |-> [o \in 1..Len(E.outputs) |-> NaN],
             deg    |-> [b \in 1..Len(E.blocks) |-> [r \in 1..Len(E.blocks[b].rules) |-> Zero]],
             trig   |-> [b \in 1..Len(E.blocks) |-> [r \in 1..Len(E.blocks[b].rules) |-> FALSE]]]

SetInputs(E, st, row) == [st EXCEPT !.inval = [i \in 1..Len(E.inputs) |-> ClipVar(E.inputs[i], row[i])]]

\* ---- antecedents (C06) ------------------------------------------------------------------------
\* a proposition `v is h1 .. hn t`: hedges apply from the one nearest the term outwards; `any` = 1;
\* a disabled variable yields 0; an output variable yields the grouped activation accumulated so far
PropValue(E, st, n) ==
  LET isIn == IsInput(E, n.v)
      var  == IF isIn THEN E.inputs[InIdx(E, n.v)] ELSE E.outputs[OutIdx(E, n.v)]
  IN IF ~var.enabled THEN Zero
     ELSE IF n.hs # <<>> /\ n.hs[Len(n.hs)] = "any" THEN HChain(n.hs, NaN)
     ELSE IF isIn THEN HChain(n.hs, MuX(TermOf(var, n.t), st.inval[InIdx(E, n.v)]))
     ELSE HChain(n.hs, ActivationDegree(st.fuzzy[OutIdx(E, n.v)], var.aggregation, n.t))
RECURSIVE Ant(_,_,_,_)
Ant(E, st, blk, n) ==
  CASE n.kind = "fixed" -> n.d
    [] n.kind = "p"   -> PropValue(E, st, n)
    [] n.kind = "and" -> LET l == Ant(E, st, blk, n.l)  r == Ant(E, st, blk, n.r) IN
                         IF blk.conjunction = "none" THEN Err ELSE Norm(blk.conjunction, l, r)
    [] n.kind = "or"  -> LET l == Ant(E, st, blk, n.l)  r == Ant(E, st, blk, n.r) IN
                         IF blk.disjunction = "none" THEN Err ELSE Norm(blk.disjunction, l, r)
RuleDegree(E, st, blk, r) == Mul(r.weight, Ant(E, st, blk, r.ant))

\* ---- consequents (C07) ------------------------------------------------------------------------
\* one contribution per conclusion whose variable is enabled; each depends on its own hedges only
RECURSIVE Conclude(_,_,_,_,_)
Conclude(E, fz, blk, cons, d) ==
  IF cons = <<>> THEN fz
  ELSE LET c == Head(cons)  o == OutIdx(E, c.var)  var == E.outputs[o] IN
       Conclude(E,
                IF var.enabled
                THEN [fz EXCEPT ![o] = Append(@, [term |-> TermOf(var, c.term),
                                                  degree |-> NanToNum01(HChain(c.hs, d)),
                                                  impl |-> blk.implication])]
                ELSE fz,
                blk, Tail(cons), d)
\* Rule.trigger: a disabled rule contributes nothing and is not marked triggered
Trigger(E, st, b, i, d) ==
  LET blk == E.blocks[b]  r == blk.rules[i] IN
  IF r.enabled
  THEN [st EXCEPT !.fuzzy = Conclude(E, st.fuzzy, blk, r.cons, d), !.trig[b][i] = Gt(d, Zero)]
  ELSE [st EXCEPT !.trig[b][i] = FALSE]
Deactivate(st, b, i) == [st EXCEPT !.deg[b][i] = Zero, !.trig[b][i] = FALSE]
WithDeg(st, b, i, d) == [st EXCEPT !.deg[b][i] = d]

\* ---- activation methods (C08): the loops of activation.py -------------------------------------
Cmp(c, a, t) == CASE c = "<" -> Lt(a, t) [] c = "<=" -> Le(a, t) [] c = "==" -> Eq(a, t)
                  [] c = "!=" -> Ne(a, t) [] c = ">=" -> Ge(a, t) [] c = ">" -> Gt(a, t)

\* General / First / Last / Threshold: compute and trigger rule by rule, in `ord`
RECURSIVE SeqLoop(_,_,_,_,_,_)
SeqLoop(E, st, b, ord, k, count) ==
  IF k > Len(ord) THEN st
  ELSE LET i == ord[k]  blk == E.blocks[b]  r == blk.rules[i]  a == blk.activation
           s0 == Deactivate(st, b, i)
       IN IF ~r.loaded THEN SeqLoop(E, s0, b, ord, k + 1, count)
          ELSE LET d  == RuleDegree(E, s0, blk, r)
                   s1 == WithDeg(s0, b, i, d)
                   fire == CASE a.cls = "General" -> TRUE
                             [] a.cls \in {"First", "Last"} -> count < a.rules /\ Gt(d, Zero) /\ Ge(d, a.threshold)
                             [] a.cls = "Threshold" -> Cmp(a.comparator, d, a.threshold)
               IN IF fire THEN SeqLoop(E, Trigger(E, s1, b, i, d), b, ord, k + 1, count + 1)
                  ELSE SeqLoop(E, s1, b, ord, k + 1, count)

\* Highest / Lowest / Proportional: every degree first (no trigger in between), triggers afterwards
RECURSIVE AllDegrees(_,_,_,_)
AllDegrees(E, st, b, i) ==
  IF i > Len(E.blocks[b].rules) THEN st
  ELSE LET r == E.blocks[b].rules[i]  s0 == Deactivate(st, b, i) IN
       AllDegrees(E, IF r.loaded THEN WithDeg(s0, b, i, RuleDegree(E, s0, E.blocks[b], r)) ELSE s0, b, i + 1)
Candidates(E, st, b) == { i \in 1..Len(E.blocks[b].rules) : E.blocks[b].rules[i].loaded /\ Gt(st.deg[b][i], Zero) }
\* heap order: (key, index) pairs, smallest first; key = -degree (Highest) or degree (Lowest)
Before(st, b, hi, i, j) == LET di == st.deg[b][i]  dj == st.deg[b][j] IN
                           IF hi THEN Gt(di, dj) \/ (Eq(di, dj) /\ i < j) ELSE Lt(di, dj) \/ (Eq(di, dj) /\ i < j)
RECURSIVE HeapOrder(_,_,_,_)
HeapOrder(st, b, hi, cand) ==
  IF cand = {} THEN <<>>
  ELSE LET m == CHOOSE i \in cand : \A j \in cand \ {i} : Before(st, b, hi, i, j) IN <<m>> \o HeapOrder(st, b, hi, cand \ {m})
RECURSIVE TriggerSeq(_,_,_,_,_)
TriggerSeq(E, st, b, ord, k) == IF k > Len(ord) THEN st ELSE TriggerSeq(E, Trigger(E, st, b, ord[k], st.deg[b][ord[k]]), b, ord, k + 1)
Prefix(s, n) == SubSeq(s, 1, IMin(IMax(n, 0), Len(s)))
RECURSIVE IndexOrder(_,_)
IndexOrder(cand, n) == IF cand = {} THEN <<>> ELSE LET m == CHOOSE i \in cand : \A j \in cand : i <= j IN <<m>> \o IndexOrder(cand \ {m}, n)

ActivateBlock(E, st, b) ==
  LET blk == E.blocks[b]  a == blk.activation  n == Len(blk.rules)
      fwd == [i \in 1..n |-> i]
      rev == [i \in 1..n |-> n + 1 - i]
  IN CASE a.cls \in {"General", "First", "Threshold"} -> SeqLoop(E, st, b, fwd, 1, 0)
       [] a.cls = "Last" -> SeqLoop(E, st, b, rev, 1, 0)
       [] a.cls \in {"Highest", "Lowest"} ->
            LET s1 == AllDegrees(E, st, b, 1)
                ord == Prefix(HeapOrder(s1, b, a.cls = "Highest", Candidates(E, s1, b)), a.rules)
            IN TriggerSeq(E, s1, b, ord, 1)
       [] a.cls = "Proportional" ->
            LET s1 == AllDegrees(E, st, b, 1)
                cand == Candidates(E, s1, b)
                ord == IndexOrder(cand, 0)
                sum == FoldSeq(LAMBDA i, acc : Add(acc, s1.deg[b][i]), Zero, ord)
                s2 == [s1 EXCEPT !.deg[b] = [i \in 1..n |-> IF i \in cand THEN Div(s1.deg[b][i], sum) ELSE s1.deg[b][i]]]
            IN TriggerSeq(E, s2, b, ord, 1)
       [] a.cls = "none" -> [st EXCEPT !.deg[b] = [i \in 1..n |-> Err]]     \* RuleBlock.activate raises

\* ---- defuzzification and the value cascade (C09, C10, C12) ---------------------------------------
LinearValue(E, st, t) ==
  LET n == Len(E.inputs)
      c == IF Len(t.p) > n THEN t.p[n + 1] ELSE Zero
  IN IF Len(t.p) \notin {n, n + 1} THEN Err
     ELSE Add(FoldSeq(LAMBDA i, acc : Add(acc, Mul(t.p[i], st.inval[i])), Zero, [i \in 1..n |-> i]), c)
\* Function term: the formula evaluated (FunctionSyntax.EvalT) with the engine's current input and output values under their
\* names and the argument under the name x; a value that is not rational is marked irrational
FunctionValue(E, st, t, x) ==
  LET names == { E.inputs[i].name : i \in 1..Len(E.inputs) } \cup { E.outputs[o].name : o \in 1..Len(E.outputs) } \cup {"x"}
      env == [nm \in names |-> IF nm = "x" THEN KQ(x)
                               ELSE IF IsInput(E, nm) THEN KQ(st.inval[InIdx(E, nm)]) ELSE KQ(st.outval[OutIdx(E, nm)])]
      e == EvalT(t.tree, env)
  IN IF IsBad(x) THEN x ELSE IF IsQ(e) THEN QV(e) ELSE Irr
ZOf(E, st, g) == IF g.term.k = "Linear" THEN LinearValue(E, st, g.term)
                 ELSE IF g.term.k = "Function" THEN FunctionValue(E, st, g.term, g.degree)
                 ELSE MuX(g.term, g.degree)

RawValue(E, st, o) ==
  LET var == E.outputs[o]  dz == var.defuzzifier  acts == st.fuzzy[o] IN
  IF dz.cls = "none" THEN Err
  ELSE IF dz.cls \in IntegralDefuzzifiers THEN
       IF acts # <<>> /\ var.aggregation = "none" THEN Err
       ELSE IF \E i \in 1..Len(acts) : acts[i].impl = "none" THEN Err
       ELSE DefuzzifyIntegral(dz.cls, acts, var.aggregation, var.min, var.max, dz.resolution)
  ELSE LET w == Weighted(dz.cls, dz.type, acts, var.aggregation, LAMBDA g : ZOf(E, st, g)) IN
       IF w.raises THEN Err ELSE w.v

\* OutputVariable.defuzzify for one row: lock-previous, default, clipping (C12)
DefuzzifyOutput(E, st, o) ==
  LET var == E.outputs[o] IN
  IF ~var.enabled THEN st
  ELSE LET raw == RawValue(E, st, o)
           a == IF IsNaN(raw) /\ var.lockPrev THEN st.outval[o] ELSE raw
           c == IF IsNaN(a) /\ ~IsNaN(var.default) THEN var.default ELSE a
       IN IF IsErr(raw) THEN [st EXCEPT !.outval[o] = Err]
          ELSE [st EXCEPT !.prev[o] = st.outval[o], !.outval[o] = ClipVar(var, c)]

\* ---- Engine.process, Engine.restart ----------------------------------------------------------------
ClearFuzzy(E, st) == [st EXCEPT !.fuzzy = [o \in 1..Len(E.outputs) |-> <<>>]]
RECURSIVE Blocks(_,_,_)
Blocks(E, st, b) == IF b > Len(E.blocks) THEN st
                    ELSE Blocks(E, IF E.blocks[b].enabled THEN ActivateBlock(E, st, b) ELSE st, b + 1)
RECURSIVE Defuzz(_,_,_)
Defuzz(E, st, o) == IF o > Len(E.outputs) THEN st ELSE Defuzz(E, DefuzzifyOutput(E, st, o), o + 1)
Process(E, st) == Defuzz(E, Blocks(E, ClearFuzzy(E, st), 1), 1)
\* restart: inputs NaN, rules reloaded (degrees reset), outputs and fuzzy outputs cleared
Restart(E, st) == Fresh(E)

ProcessRow(E, st, row) == Process(E, SetInputs(E, st, row))
RECURSIVE ProcessRows(_,_,_)
ProcessRows(E, st, rows) == IF rows = <<>> THEN <<>> ELSE LET s == ProcessRow(E, st, Head(rows)) IN <<s>> \o ProcessRows(E, s, Tail(rows))

\* did evaluation meet a missing operator / defuzzifier / activation method (the library raises)?
Raises(E, st) == \/ \E b \in 1..Len(E.blocks) : \E i \in 1..Len(E.blocks[b].rules) : IsErr(st.deg[b][i])
                 \/ \E o \in 1..Len(E.outputs) : IsErr(st.outval[o])
\* does an observed value carry the "irrational" marker (the driver skips the case)?
Tainted(E, st) == \/ \E b \in 1..Len(E.blocks) : \E i \in 1..Len(E.blocks[b].rules) : IsIrr(st.deg[b][i])
                  \/ \E o \in 1..Len(E.outputs) : IsIrr(st.outval[o]) \/ IsIrr(st.prev[o]) \/ \E k \in 1..Len(st.fuzzy[o]) : IsIrr(st.fuzzy[o][k].degree)

\* observable projection compared with the real engine after every step
Observe(E, st) == [out  |-> st.outval, prev |-> st.prev,
                   fuzzy |-> [o \in 1..Len(E.outputs) |-> [k \in 1..Len(st.fuzzy[o]) |->
                                 [term |-> st.fuzzy[o][k].term.name, degree |-> st.fuzzy[o][k].degree, impl |-> st.fuzzy[o][k].impl]]],
                   deg  |-> st.deg, trig |-> st.trig,
                   raises |-> Raises(E, st), tainted |-> Tainted(E, st)]
=============================================================================
