SPECIFICATION Spec
CONSTANTS Palette = "dyadic"
  Emit = FALSE
INVARIANT InverseExact
INVARIANT MonotoneZ
CHECK_DEADLOCK FALSE
