----------------------------- MODULE Defuzzifiers -----------------------------
(***************************************************************************)
(* Fuzzy outputs and defuzzifiers (C09, C10).                              *)
(*                                                                         *)
(* An activation is a record [term, degree, impl]: a term record of        *)
(* Terms.tla (with its name), the stored degree (already passed through    *)
(* NanToNum01, as the Activated.degree setter does) and the name of the    *)
(* implication T-norm ("none" when absent).  A fuzzy output is a sequence  *)
(* of activations in the order in which the rules contributed them.        *)
(***************************************************************************)
EXTENDS Terms, Norms, FiniteSets

IntegralDefuzzifiers == {"Bisector", "Centroid", "LargestOfMaximum", "MeanOfMaximum", "SmallestOfMaximum"}
WeightedDefuzzifiers == {"WeightedAverage", "WeightedSum"}

\* ---- sampling ---------------------------------------------------------------------------------
\* the r midpoints of r equal cells of [lo, hi]
Midpoints(lo, hi, r) == [i \in 1..r |-> Add(lo, Mul(Q(2*i - 1, 2*r), Sub(hi, lo)))]

\* membership of one activated term and of the aggregated set at a point (term value given by muOf)
ActMuV(a, m) == Norm(a.impl, a.degree, m)
\* Aggregated.membership: left fold of the aggregation S-norm starting from 0
AggMu(acts, aggr, x) ==
  FoldSeq(LAMBDA a, y : Norm(aggr, y, ActMuV(a, MuX(a.term, x))), Zero, acts)
\* FoldSeq folds from the left with op(element, accumulator)
Sample(acts, aggr, xs) == [i \in 1..Len(xs) |-> AggMu(acts, aggr, xs[i])]

\* ---- the five reductions from the sampled pair (x, y) --------------------------------------------
Idx(xs) == 1..Len(xs)
SumY(ys) == FoldSeq(LAMBDA v, acc : Add(acc, v), Zero, ys)
Centroid(xs, ys) == Div(FoldSeq(LAMBDA i, acc : Add(acc, Mul(xs[i], ys[i])), Zero, [i \in Idx(xs) |-> i]), SumY(ys))

XMaxSeq(ys) == FoldSeq(LAMBDA v, acc : XMax(acc, v), ys[1], ys)
MaxSet(ys) == LET m == XMaxSeq(ys) IN { i \in Idx(ys) : Gt(ys[i], Zero) /\ Eq(ys[i], m) }
MeanOf(xs, ix) == Div(FoldSet(LAMBDA i, acc : Add(acc, xs[i]), Zero, ix), I(Cardinality(ix)))
SmallestOfMaximum(xs, ys) == LET ix == MaxSet(ys) IN IF ix = {} THEN NaN ELSE xs[CHOOSE i \in ix : \A j \in ix : i <= j]
LargestOfMaximum(xs, ys)  == LET ix == MaxSet(ys) IN IF ix = {} THEN NaN ELSE xs[CHOOSE i \in ix : \A j \in ix : i >= j]
MeanOfMaximum(xs, ys)     == LET ix == MaxSet(ys) IN IF ix = {} THEN NaN ELSE MeanOf(xs, ix)

\* Bisector: the sample point(s) whose normalised cumulative membership is closest to one half
NanZero(v) == IF IsNaN(v) THEN Zero ELSE v                       \* numpy.nancumsum
RECURSIVE CumFrom(_,_,_)
CumFrom(ys, i, acc) == IF i > Len(ys) THEN <<>> ELSE LET c == Add(acc, NanZero(ys[i])) IN <<c>> \o CumFrom(ys, i + 1, c)
Cum(ys) == CumFrom(ys, 1, Zero)
Bisector(xs, ys) ==
  LET cum == Cum(ys)
      tot == cum[Len(cum)]
      dev == [i \in Idx(ys) |-> Abs(Sub(Div(cum[i], tot), Half))]
      ix  == { i \in Idx(ys) : \A j \in Idx(ys) : Le(dev[i], dev[j]) }
  IN IF ix = {} THEN NaN ELSE MeanOf(xs, ix)

Integral(cls, xs, ys) ==
  CASE cls = "Centroid" -> Centroid(xs, ys)
    [] cls = "Bisector" -> Bisector(xs, ys)
    [] cls = "SmallestOfMaximum" -> SmallestOfMaximum(xs, ys)
    [] cls = "MeanOfMaximum" -> MeanOfMaximum(xs, ys)
    [] cls = "LargestOfMaximum" -> LargestOfMaximum(xs, ys)
DefuzzifyIntegral(cls, acts, aggr, lo, hi, r) ==
  LET xs == Midpoints(lo, hi, r) IN Integral(cls, xs, Sample(acts, aggr, xs))

\* ---- grouping by term name -------------------------------------------------------------------------
\* Aggregated.grouped_terms: first-occurrence order; repeated names combined with the aggregation
\* operator (plain sum when there is none); every stored degree passes through NanToNum01
AggrOrSum(aggr) == IF aggr = "none" THEN "UnboundedSum" ELSE aggr
RECURSIVE Grouped(_,_,_)
Grouped(acts, aggr, groups) ==
  IF acts = <<>> THEN groups
  ELSE LET a == Head(acts)
           hit == { i \in 1..Len(groups) : groups[i].term.name = a.term.name }
       IN IF hit = {} THEN Grouped(Tail(acts), aggr, Append(groups, [term |-> a.term, degree |-> NanToNum01(a.degree), impl |-> "none"]))
          ELSE LET i == CHOOSE j \in hit : TRUE IN
               Grouped(Tail(acts), aggr,
                       [groups EXCEPT ![i].degree = NanToNum01(Norm(AggrOrSum(aggr), groups[i].degree, a.degree))])
GroupedTerms(acts, aggr) == Grouped(acts, aggr, <<>>)
\* Aggregated.activation_degree(term): what an output variable in an antecedent sees
ActivationDegree(acts, aggr, name) ==
  LET g == GroupedTerms(acts, aggr)
      hit == { i \in 1..Len(g) : g[i].term.name = name }
  IN IF hit = {} THEN Zero ELSE g[CHOOSE i \in hit : TRUE].degree

\* ---- weighted defuzzifiers ---------------------------------------------------------------------------
TermType(t) == IF t.k \in {"Constant", "Linear", "Function"} THEN "TakagiSugeno"
               ELSE IF IsMonotonic(t) THEN "Tsukamoto" ELSE "Automatic"
\* type inferred from the activated terms: the common type, "Automatic" for an empty output, "error" for a mixture
InferType(acts) ==
  LET ts == { TermType(acts[i].term) : i \in 1..Len(acts) } IN
  IF ts = {} THEN "Automatic" ELSE IF Cardinality(ts) = 1 THEN CHOOSE x \in ts : TRUE ELSE "error"

TsukamotoX(t, y) ==
  IF IsBad(y) THEN y
  ELSE LET e == Tsukamoto(t, y, [x |-> KQ(y), p |-> [i \in 1..Len(t.p) |-> KQ(t.p[i])], h |-> KQ(t.h)]).v
       IN IF IsQ(e) THEN QV(e) ELSE Irr
\* z of a group: membership function at w (Takagi-Sugeno: the term's value; inverse Tsukamoto otherwise),
\* or the Tsukamoto inverse; zOf lets the engine supply the value of Linear / Function terms
GroupZ(type, g, zOf(_)) == IF type = "Tsukamoto" THEN TsukamotoX(g.term, g.degree) ELSE zOf(g)
\* result record: [raises |-> BOOLEAN, v |-> XReal]
Weighted(cls, type, acts, aggr, zOf(_)) ==
  LET ty == IF type = "Automatic" THEN InferType(acts) ELSE type IN
  IF ty = "error" THEN [raises |-> TRUE, v |-> NaN]
  \* a term that is not monotonic refuses the Tsukamoto inverse (Term.tsukamoto raises)
  ELSE IF ty = "Tsukamoto" /\ \E i \in 1..Len(acts) : ~IsMonotonic(acts[i].term) THEN [raises |-> TRUE, v |-> NaN]
  ELSE LET g  == GroupedTerms(acts, aggr)
           \* a group whose weight is 0 contributes nothing (an activation with degree 0 never changes the result)
           ws == FoldSeq(LAMBDA e, acc : Add(acc, IF Eq(e.degree, Zero) THEN Zero ELSE Mul(e.degree, GroupZ(ty, e, zOf))),
                         IF acts = <<>> THEN NaN ELSE Zero, g)
           wt == FoldSeq(LAMBDA e, acc : Add(acc, e.degree), Zero, g)
       IN [raises |-> FALSE,
           v |-> IF cls = "WeightedAverage" THEN Div(ws, wt) ELSE Mul(Div(ws, wt), wt)]
=============================================================================
