----------------------------- MODULE MC_Settings -----------------------------
(* Exhaustive instance: all behaviours of at most MaxSteps actions over nesting depth <= MaxDepth.
   The rollback treats keys independently, so two keys already realise every pattern of
   named-in-outer / named-in-inner / both / neither (DESIGN.md C20). *)
EXTENDS Settings, TLC, Json
CONSTANTS Vals, MaxDepth, MaxSteps, Emit,
          Deferred,    \* "no": contexts are created and entered in one step; "only": created first, entered by a later step; "both"
          NK           \* number of settings; the keys are 1..NK (cfg: Keys <- KeysDef)
KeysDef == 1..NK
VARIABLES steps, expect,
          pend         \* a context object that has been created (cm = settings.context(...)) but not entered yet: <<>> or <<[named, vals]>>
vars == <<cur, stack, steps, expect, pend>>

Init == SInit([k \in Keys |-> 0]) /\ steps = <<>> /\ expect = <<>> /\ pend = <<>>
Log(s) == steps' = Append(steps, s) /\ expect' = Append(expect, cur')
KeySeq == [i \in 1..NK |-> i]
Named(n) == [i \in 1..NK |-> KeySeq[i] \in n]
ValSeq(v) == [i \in 1..NK |-> v[KeySeq[i]]]
Next == /\ Len(steps) < MaxSteps
        /\ \/ \* creating the context object does nothing yet; what it restores at exit is what the settings are when it is *entered*
              \E k \in Keys, v \in Vals :
                /\ Deferred # "no" /\ pend = <<>> /\ Len(stack) < MaxDepth
                /\ pend' = <<[named |-> {k}, vals |-> [j \in Keys |-> IF j = k THEN v ELSE CHOOSE w \in Vals : TRUE]]>>
                /\ UNCHANGED <<cur, stack>>
                /\ Log([act |-> "Create", named |-> Named({k}), vals |-> ValSeq([j \in Keys |-> IF j = k THEN v ELSE CHOOSE w \in Vals : TRUE]), lvl |-> 0])
           \/ /\ pend # <<>> /\ Len(stack) < MaxDepth
              /\ Enter(pend[1].named, pend[1].vals) /\ pend' = <<>>
              /\ Log([act |-> "EnterCreated", named |-> Named(pend[1].named), vals |-> ValSeq(pend[1].vals), lvl |-> 0])
           \/ \E named \in (SUBSET Keys \ {{}}), vals \in [Keys -> Vals] :
                /\ Deferred # "only" /\ UNCHANGED pend /\ Len(stack) < MaxDepth
                /\ \A k \in Keys \ named : vals[k] = CHOOSE v \in Vals : TRUE     \* unnamed values are irrelevant: fix them
                /\ Enter(named, vals)
                /\ Log([act |-> "Enter", named |-> Named(named), vals |-> ValSeq(vals), lvl |-> 0])
           \/ UNCHANGED pend /\ ExitOne /\ Log([act |-> "Exit", named |-> [i \in 1..NK |-> FALSE], vals |-> [i \in 1..NK |-> 0], lvl |-> 0])
           \/ UNCHANGED pend /\ \E lvl \in 0..MaxDepth : Raise(lvl) /\ Log([act |-> "Raise", named |-> [i \in 1..NK |-> FALSE], vals |-> [i \in 1..NK |-> 0], lvl |-> lvl])
           \/ UNCHANGED pend /\ \E k \in Keys, v \in Vals : Assign(k, v) /\ Log([act |-> "Assign", named |-> Named({k}), vals |-> ValSeq([j \in Keys |-> v]), lvl |-> 0])
Spec == Init /\ [][Next]_vars

PropExitRestores == [][ExitRestores]_vars
PropEnterVisible == [][EnterVisible]_vars
(* the snapshots on the stack are a chain: each frame's snapshot is what the settings were when it was entered *)
TypeOK == /\ cur \in [Keys -> Vals \cup {0}] /\ Len(stack) <= MaxDepth
(* closing sequence: expected settings after each normal exit of the contexts still open at the end *)
RECURSIVE Closing(_,_)
Closing(c, st) == IF st = <<>> THEN <<>>
                  ELSE LET c2 == Restore(c, st[Len(st)]) IN <<c2>> \o Closing(c2, SubSeq(st, 1, Len(st)-1))
CurSeq(c) == [i \in 1..NK |-> c[KeySeq[i]]]
EmitInv == (Emit /\ Len(steps) = MaxSteps) =>
   PrintT(ToJson([steps |-> steps, expect |-> [i \in 1..Len(expect) |-> CurSeq(expect[i])],
                  closing |-> LET cl == Closing(cur, stack) IN [i \in 1..Len(cl) |-> CurSeq(cl[i])]]))
View == <<cur, stack, Len(steps), pend>>
=============================================================================
