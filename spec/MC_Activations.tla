---------------------------- MODULE MC_Activations ----------------------------
(* C08: activation methods trigger exactly the rules their definition selects.
   A block of K rules `if in_i is t then out is u_i` whose degrees are forced through the inputs
   (t = Ramp(0,1), so the degree of rule i is the value of in_i).  The loops of Engine.ActivateBlock
   (shaped like activation.py) are compared with the declarative selection written from the property. *)
EXTENDS Engine, TLC, Json
CONSTANTS KMax, WithNaN, Emit,
          TieReversed,    \* canary: declarative selection breaking ties by *reverse* insertion order
          BigK            \* 0, or the size of one large block: instead of all small cases, blocks of BigK rules with many equal degrees
DegPal == { Zero, Q(1,4), Half, Q(3,4), One } \cup (IF WithNaN THEN {NaN} ELSE {})
Thresholds == { Zero, Q(1,4), Q(3,8), Half, One }
Comparators == { "<", "<=", "==", "!=", ">=", ">" }
Methods == {"General", "First", "Last", "Highest", "Lowest", "Proportional", "Threshold"}
Acts(cls, k) ==
  CASE cls \in {"General", "Proportional"} -> { [cls |-> cls, rules |-> 1, threshold |-> Zero, comparator |-> ">"] }
    [] cls \in {"First", "Last"} -> { [cls |-> cls, rules |-> n, threshold |-> t, comparator |-> ">"] : n \in 0..(k + 1), t \in Thresholds }
    [] cls \in {"Highest", "Lowest"} -> { [cls |-> cls, rules |-> n, threshold |-> Zero, comparator |-> ">"] : n \in 0..(k + 1) }
    [] cls = "Threshold" -> { [cls |-> cls, rules |-> 1, threshold |-> t, comparator |-> c] : t \in Thresholds \cup {NaN, PInf}, c \in Comparators }   \* legal, if unusual, thresholds: every comparison with NaN is false except !=
\* enabled / loaded patterns: everything on; one rule disabled; one rule unloaded
Patterns(k) == { [en |-> [i \in 1..k |-> TRUE], ld |-> [i \in 1..k |-> TRUE]] }
          \cup { [en |-> [i \in 1..k |-> i # j], ld |-> [i \in 1..k |-> TRUE]] : j \in 1..k }
          \cup { [en |-> [i \in 1..k |-> TRUE], ld |-> [i \in 1..k |-> i # j]] : j \in 1..k }
Ramp01 == [name |-> "t", k |-> "Ramp", p |-> <<Zero, One>>, h |-> One]
UName(i) == "u" \o ToString(i)
IName(i) == "in" \o ToString(i)
\* large blocks: degree vectors with many ties - a pattern of period 5, all equal, descending steps, ascending steps with zeros
BigDegs(kk) == { [i \in 1..kk |-> Q((i * 7) % 5, 4)], [i \in 1..kk |-> Half], [i \in 1..kk |-> Q(4 - ((i \div 9) % 5), 4)],
                 [i \in 1..kk |-> IF i % 3 = 0 THEN Zero ELSE Q(((i \div 7) % 4) + 1, 4)],
                 \* degrees within the library's comparison tolerance (0.001) of the threshold 1/2, on both sides of it
                 [i \in 1..kk |-> IF i % 3 = 0 THEN Q(1023, 2048) ELSE IF i % 3 = 1 THEN Q(1025, 2048) ELSE Half] }
BigActs(c, kk) ==
  CASE c \in {"General", "Proportional"} -> Acts(c, kk)
    [] c \in {"First", "Last"} -> { a \in Acts(c, kk) : a.rules \in {1, 7, kk - 1} /\ a.threshold \in {Zero, Half} }
    [] c \in {"Highest", "Lowest"} -> { a \in Acts(c, kk) : a.rules \in {1, 2, 7, 17, kk - 1, kk + 1} }
    [] c = "Threshold" -> { a \in Acts(c, kk) : a.threshold \in {Half, Zero} }
Eng(k, act, pat) ==
  [name |-> "c08",
   inputs |-> [i \in 1..k |-> [name |-> IName(i), enabled |-> TRUE, min |-> Zero, max |-> One, lockRange |-> FALSE, terms |-> <<Ramp01>>]],
   outputs |-> << [name |-> "out", enabled |-> TRUE, min |-> Zero, max |-> One, lockRange |-> FALSE, lockPrev |-> FALSE, default |-> NaN,
                   aggregation |-> "Maximum", defuzzifier |-> [cls |-> "Centroid", resolution |-> 2, type |-> "Automatic"],
                   terms |-> [i \in 1..k |-> [name |-> UName(i), k |-> "Triangle", p |-> <<Zero, Half, One>>, h |-> One]]] >>,
   blocks |-> << [name |-> "rb", enabled |-> TRUE, conjunction |-> "Minimum", disjunction |-> "Maximum", implication |-> "Minimum", activation |-> act,
                  rules |-> [i \in 1..k |-> [enabled |-> pat.en[i], loaded |-> pat.ld[i], weight |-> One,
                                            ant |-> [kind |-> "p", v |-> IName(i), hs |-> <<>>, t |-> "t"],
                                            cons |-> << [var |-> "out", hs |-> <<>>, term |-> UName(i)] >>]]] >>]

VARIABLES k, cls, pat, act, degs, ready, m      \* m: the machine's result, computed once per case
vars == <<k, cls, pat, act, degs, ready, m>>
Init == /\ (IF BigK > 0 THEN k = BigK ELSE k \in 1..KMax) /\ cls \in Methods /\ ready = FALSE
        /\ pat \in (IF BigK > 0 THEN { [en |-> [i \in 1..k |-> TRUE], ld |-> [i \in 1..k |-> TRUE]], [en |-> [i \in 1..k |-> i # 2], ld |-> [i \in 1..k |-> i # k - 1]] } ELSE Patterns(k))
        /\ act = [cls |-> cls, rules |-> 0, threshold |-> Zero, comparator |-> ">"] /\ degs = <<>> /\ m = <<>>
Next == /\ ~ready /\ ready' = TRUE /\ UNCHANGED <<k, cls, pat>>
        /\ act' \in (IF BigK > 0 THEN BigActs(cls, k) ELSE Acts(cls, k)) /\ degs' \in (IF BigK > 0 THEN BigDegs(k) ELSE [1..k -> DegPal])
        /\ LET e == Eng(k, act', pat) IN m' = ActivateBlock(e, SetInputs(e, Fresh(e), degs'), 1)
Spec == Init /\ [][Next]_vars

EE == Eng(k, act, pat)
\* the machine: Engine.ActivateBlock on a fresh state with the inputs set
M == m

\* ---- the declarative selection, written from the property's sentences ---------------------------------
D(i) == IF pat.ld[i] THEN degs[i] ELSE Zero                  \* an unloaded rule has degree 0 and never fires
RIdx == 1..k
Positive == { i \in RIdx : pat.ld[i] /\ Gt(D(i), Zero) }
Eligible == { i \in Positive : Ge(D(i), act.threshold) }
Earlier(i, j) == IF TieReversed THEN i > j ELSE i < j
\* rank of i in an ordering: number of members strictly before it
RankFwd(ss, i) == Cardinality({ j \in ss : j < i })
RankRev(ss, i) == Cardinality({ j \in ss : j > i })
RankHigh(ss, i) == Cardinality({ j \in ss : Gt(D(j), D(i)) \/ (Eq(D(j), D(i)) /\ Earlier(j, i)) })
RankLow(ss, i)  == Cardinality({ j \in ss : Lt(D(j), D(i)) \/ (Eq(D(j), D(i)) /\ Earlier(j, i)) })
\* the rules on which trigger() is called, with their firing rank
Fired == CASE cls = "General"      -> { i \in RIdx : pat.ld[i] }
           [] cls = "First"        -> { i \in Eligible : RankFwd(Eligible, i) < act.rules }
           [] cls = "Last"         -> { i \in Eligible : RankRev(Eligible, i) < act.rules }
           [] cls = "Highest"      -> { i \in Positive : RankHigh(Positive, i) < act.rules }
           [] cls = "Lowest"       -> { i \in Positive : RankLow(Positive, i) < act.rules }
           [] cls = "Proportional" -> Positive
           [] cls = "Threshold"    -> { i \in RIdx : pat.ld[i] /\ Cmp(act.comparator, D(i), act.threshold) }
FireRank(i) == CASE cls \in {"General", "First", "Proportional", "Threshold"} -> i
                 [] cls = "Last" -> 0 - i
                 [] cls = "Highest" -> RankHigh(Positive, i)
                 [] cls = "Lowest" -> RankLow(Positive, i)
SumPos == FoldSet(LAMBDA i, acc : Add(acc, D(i)), Zero, Positive)
FinalDeg(i) == IF cls = "Proportional" /\ i \in Positive THEN Div(D(i), SumPos) ELSE D(i)
Contributing == { i \in Fired : pat.en[i] }
\* expected fuzzy output: one activation per contributing rule, in firing order
ExpFuzzy == LET cs  == Contributing
                fr  == [i \in cs |-> FireRank(i)]
                pos == [j \in cs |-> Cardinality({ q \in cs : fr[q] < fr[j] })]
            IN [r \in 1..Cardinality(cs) |->
                  LET i == CHOOSE j \in cs : pos[j] = r - 1
                  IN [term |-> UName(i), degree |-> NanToNum01(FinalDeg(i)), impl |-> "Minimum"]]
ExpTrig == LET cs == Contributing IN [i \in RIdx |-> i \in cs /\ Gt(FinalDeg(i), Zero)]
ExpDeg == [i \in RIdx |-> FinalDeg(i)]

MachineEqualsSelection == ready =>
   /\ M.deg[1] = ExpDeg
   /\ M.trig[1] = ExpTrig
   /\ [r \in 1..Len(M.fuzzy[1]) |-> [term |-> M.fuzzy[1][r].term.name, degree |-> M.fuzzy[1][r].degree, impl |-> M.fuzzy[1][r].impl]] = ExpFuzzy
\* no other rule contributes; a rule is marked triggered only if its degree is positive
NoOtherContributes == ready => LET cs == Contributing IN \A r \in 1..Len(M.fuzzy[1]) : \E i \in cs : M.fuzzy[1][r].term.name = UName(i)
TriggeredOnlyPositive == ready => \A i \in RIdx : M.trig[1][i] => Gt(M.deg[1][i], Zero)
AtMostN == (ready /\ cls \in {"First", "Last", "Highest", "Lowest"}) => Cardinality(Fired) <= act.rules
EmitInv == (Emit /\ ready) => PrintT(ToJson([k |-> k, act |-> act, en |-> pat.en, ld |-> pat.ld, degs |-> degs,
                                            deg |-> M.deg[1], trig |-> M.trig[1],
                                            fuzzy |-> [r \in 1..Len(M.fuzzy[1]) |-> [term |-> M.fuzzy[1][r].term.name, degree |-> M.fuzzy[1][r].degree]]]))
=============================================================================
