SPECIFICATION Spec
CONSTANTS G = 32
  Emit = FALSE
INVARIANT RangeOK
INVARIANT FixedPoints
INVARIANT MonotoneQ
INVARIANT VeryBelowId
INVARIANT SomewhatAboveId
INVARIANT Inverses
INVARIANT NotInvolutive
INVARIANT NaNRule
CHECK_DEADLOCK FALSE
