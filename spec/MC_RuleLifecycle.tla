--------------------------- MODULE MC_RuleLifecycle ---------------------------
(* Every behaviour of MaxSteps operations on a block of NRules rules; each is emitted with the expected observation
   (per rule: text index, is_loaded, which text each half was built from; whether the operation raised) after every
   step and replayed on a real RuleBlock.  Canary: loads that keep the previous parse when they fail. *)
EXTENDS RuleLifecycle, TLC, Json
CONSTANTS MaxSteps, Emit
TextsDef == <<"good", "good", "bad-ante", "bad-cons", "v1-only", "v2-only">>       \* cfg: Texts <- TextsDef
VARIABLES steps, expect
vars == <<rules, raised, voc, steps, expect>>
Obs == [rules |-> rules', raised |-> raised']
Log(a, i, t) == steps' = Append(steps, [act |-> a, i |-> i, t |-> t]) /\ expect' = Append(expect, Obs)
Init == RInit /\ steps = <<>> /\ expect = <<>>
Next == /\ Len(steps) < MaxSteps
        /\ \/ \E i \in 1..NRules, t \in 1..Len(Texts) : t # rules[i].txt /\ Parse(i, t) /\ Log("parse", i, t)
           \/ \E i \in 1..NRules : ParseRefused(i) /\ Log("parse-refused", i, 0)
           \/ \E i \in 1..NRules : Load(i) /\ Log("load", i, 0)
           \/ \E i \in 1..NRules : IsLoaded(rules[i]) /\ Unload(i) /\ Log("unload", i, 0)
           \/ LoadRules /\ Log("load_rules", 0, 0)
           \/ UnloadRules /\ Log("unload_rules", 0, 0)
           \/ ReloadRules /\ Log("restart", 0, 0)
           \/ Rename /\ Log("rename", 0, 0)
Spec == Init /\ [][Next]_vars
LastIs(a) == steps # <<>> /\ steps[Len(steps)].act = a
PropFailedLoad == [][\A i \in 1..NRules : (steps' # steps /\ steps'[Len(steps')].act = "load" /\ steps'[Len(steps')].i = i) => NotLoadedAfterFailedLoad(i)]_vars
PropGoodLoad   == [][\A i \in 1..NRules : (steps' # steps /\ steps'[Len(steps')].act = "load" /\ steps'[Len(steps')].i = i) => LoadedFromCurrentText(i)]_vars
\* load_rules / restart: every rule whose text loads is loaded from it, whatever the other rules do; it raises iff some rule fails
BlockLoad == (LastIs("load_rules") \/ LastIs("restart")) =>
               /\ \A i \in 1..NRules : (ClassOf(rules[i].txt) = "good") <=> IsLoaded(rules[i])
               /\ \A i \in 1..NRules : IsLoaded(rules[i]) => rules[i].ante = rules[i].txt
               /\ raised = (\E i \in 1..NRules : ClassOf(rules[i].txt) # "good")
EmitInv == (Emit /\ Len(steps) = MaxSteps) => PrintT(ToJson([steps |-> steps, expect |-> expect]))
View == <<rules, raised, voc, Len(steps), IF steps = <<>> THEN <<>> ELSE steps[Len(steps)]>>
=============================================================================
