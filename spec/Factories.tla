------------------------------ MODULE Factories ------------------------------
(***************************************************************************)
(* The factories of fuzzylite.factory and the parts of the library that    *)
(* consult them (growth of the specification beyond the listed properties; *)
(* it is the state behind C06/C16 - which words are hedges -, C14 - which  *)
(* class a term / norm line constructs - and C17 - which words are         *)
(* functions).                                                             *)
(*                                                                         *)
(* State: a set of live FactoryManager objects, each a registry            *)
(* kind -> key -> constructor (ConstructionFactory.constructors /          *)
(* CloningFactory.objects); the manager the library currently uses         *)
(* (settings.factory_manager: assigned, or swapped by settings.context and *)
(* restored on exit); one long-lived Function term holding the tree it     *)
(* parsed.  Every consumer reads the CURRENT manager at the time of the    *)
(* call and nothing else: Rule.create (hedges), FllImporter (term and norm *)
(* classes), Engine.configure (norm by name), Function.parse (function     *)
(* elements, deep-copied into the tree: a parsed term keeps the elements   *)
(* it was parsed with).                                                    *)
(***************************************************************************)
EXTENDS FunctionSyntax, FiniteSets

CONSTANTS Managers,       \* names of the FactoryManager objects that may be created ("d" is the library's own)
          Cached,         \* canary: hedge look-ups are memoised on first use and never invalidated
          LateBinding     \* canary: a parsed formula keeps the NAMES of its functions and looks them up when evaluated

None == "none"
HKeys == {"very", "not", "quite"}       HCtors == {"Very", "Not"}
NKeys == {"Minimum", "Tmin"}            NCtors == {"Minimum", "AlgebraicProduct"}
TKeys == {"Triangle", "Peak"}           TCtors == {"Triangle", "Ramp"}
FKeys == {"sin", "sq"}                  FElems == {"sin", "square", "mul2"}     \* elements: library sin (unary), x*x (unary), a*b (binary)
ElemArity(e) == IF e = "mul2" THEN 2 ELSE 1
Kinds == {"hedge", "tnorm", "term", "function"}
KeysOf(k) == CASE k = "hedge" -> HKeys [] k = "tnorm" -> NKeys [] k = "term" -> TKeys [] k = "function" -> FKeys
CtorsOf(k) == CASE k = "hedge" -> HCtors [] k = "tnorm" -> NCtors [] k = "term" -> TCtors [] k = "function" -> FElems
\* what FactoryManager() registers (restricted to the keys of the model)
Default == [ hedge    |-> [key \in HKeys |-> CASE key = "very" -> "Very" [] key = "not" -> "Not" [] OTHER -> None],
             tnorm    |-> [key \in NKeys |-> IF key = "Minimum" THEN "Minimum" ELSE None],
             term     |-> [key \in TKeys |-> IF key = "Triangle" THEN "Triangle" ELSE None],
             function |-> [key \in FKeys |-> IF key = "sin" THEN "sin" ELSE None] ]

VARIABLES reg,        \* [live managers -> registry]
          live,       \* the managers created so far
          cur,        \* settings.factory_manager
          saved,      \* stack of the managers that open settings.context blocks will restore
          held,       \* the long-lived Function term: <<>> or <<tree, registry it was parsed with>>
          memo,       \* canary Cached: hedge key -> constructor remembered from the first look-up
          obs         \* what the last operation returned
fvars == <<reg, live, cur, saved, held, memo, obs>>

\* ---- the rule language over a registry: RuleSyntax with the registered hedge keys ----------------------------------
RS(H) == INSTANCE RuleSyntax WITH InVars <- {"a"}, OutVars <- {"y"}, TermNames <- {"lo", "quite"}, HedgeNames <- H
RuleTexts == << <<"if", "a", "is", "very", "lo", "then", "y", "is", "lo">>,
                <<"if", "a", "is", "quite", "lo", "then", "y", "is", "lo">>,
                <<"if", "a", "is", "quite", "then", "y", "is", "lo">>,          \* `quite` is also the name of a term of a
                <<"if", "a", "is", "lo", "then", "y", "is", "quite", "lo">>,
                <<"if", "a", "is", "not", "quite", "quite", "then", "y", "is", "very", "lo">> >>
HedgesOf(r) == { key \in HKeys : r.hedge[key] # None } \cup {"any"}
ClassOf(r, key) == IF Cached /\ key \in DOMAIN memo THEN memo[key] ELSE r.hedge[key]
ReadRuleR(r, i) ==
  LET H == IF Cached THEN (HedgesOf(r) \cup DOMAIN memo) ELSE HedgesOf(r)
      x == RS(H)!ReadRule(RuleTexts[i]) IN
  IF RS(H)!IsError(x) THEN <<"SyntaxError", x.err>>
  ELSE <<"ok", [j \in 1..Len(x.ant.hs) |-> ClassOf(r, x.ant.hs[j])], x.ant.t,
               [c \in 1..Len(x.cons) |-> [j \in 1..Len(x.cons[c].hs) |-> ClassOf(r, x.cons[c].hs[j])]]>>

\* ---- formulas over a registry: the shunting yard and the postfix machine with the registered function names --------
\* (ShuntingYard.tla and FunctionSyntax.tla fix the table to the library's default; here it is a parameter, and
\* MC_Factories checks that on the default table both agree)
FunTab(r) == [key \in { q \in FKeys : r.function[q] # None } |-> r.function[key]]
IsFunR(tab, tok) == tok \in DOMAIN tab
RegisteredR(tab, tok) == IsFunR(tab, tok) \/ IsOp(tok)
IsOperandR(tab, tok) == ~RegisteredR(tab, tok) /\ tok \notin {"(", ")", ","}
RECURSIVE PopWhileR(_,_,_,_)
PopWhileR(tab, stack, queue, tok) ==
  IF stack # <<>> /\ RegisteredR(tab, Top(stack))
     /\ LET e == OpT[OpOf(tok)] IN ((~e.right /\ e.p <= PrecOf(Top(stack))) \/ (e.right /\ e.p < PrecOf(Top(stack))))
  THEN PopWhileR(tab, Pop(stack), Append(queue, Top(stack)), tok)
  ELSE <<stack, queue>>
RECURSIVE SYR(_,_,_,_)
SYR(tab, toks, stack, queue) ==
  IF toks = <<>> THEN
     (IF stack = <<>> THEN queue
      ELSE IF Top(stack) \in {"(", ")"} THEN ERR
      ELSE SYR(tab, toks, Pop(stack), Append(queue, Top(stack))))
  ELSE LET k == Head(toks)  rest == Tail(toks) IN
    IF IsOperandR(tab, k) THEN SYR(tab, rest, stack, Append(queue, k))
    ELSE IF IsFunR(tab, k) THEN SYR(tab, rest, Append(stack, k), queue)
    ELSE IF k = "," THEN LET pq == PopToParen(stack, queue) IN IF pq[1] = ERR THEN ERR ELSE SYR(tab, rest, pq[1], pq[2])
    ELSE IF IsOp(k) THEN LET pq == PopWhileR(tab, stack, queue, k) IN SYR(tab, rest, Append(pq[1], k), pq[2])
    ELSE IF k = "(" THEN SYR(tab, rest, Append(stack, k), queue)
    ELSE LET pq == PopToParen(stack, queue) IN
         IF pq[1] = ERR THEN ERR
         ELSE LET s2 == Pop(pq[1]) IN
              IF s2 # <<>> /\ IsFunR(tab, Top(s2)) THEN SYR(tab, rest, Pop(s2), Append(pq[2], Top(s2))) ELSE SYR(tab, rest, s2, pq[2])
\* the tree keeps the ELEMENT (a deep copy of the registered object), not the key
RECURSIVE ParsePFR(_,_,_,_)
ParsePFR(tab, toks, stack, numtab) ==
  IF toks = <<>> THEN (IF Len(stack) = 1 THEN stack[1] ELSE [k |-> "error", why |-> "invalid-formula"])
  ELSE LET tk == Head(toks)  rest == Tail(toks)  n == Len(stack) IN
    IF IsOp(tk) THEN
       LET o == OpOf(tk) IN
       IF OpT[o].arity > n THEN [k |-> "error", why |-> "arity"]
       ELSE IF OpT[o].arity = 1 THEN ParsePFR(tab, rest, Append(Pop(stack), [k |-> "un", o |-> o, a |-> stack[n]]), numtab)
       ELSE ParsePFR(tab, rest, Append(SubSeq(stack, 1, n - 2), [k |-> "bin", o |-> o, l |-> stack[n - 1], r |-> stack[n]]), numtab)
    ELSE IF IsFunR(tab, tk) THEN
       LET ar == ElemArity(tab[tk]) IN
       IF ar > n THEN [k |-> "error", why |-> "arity"]
       ELSE IF ar = 1 THEN ParsePFR(tab, rest, Append(Pop(stack), [k |-> "f1", f |-> tab[tk], key |-> tk, a |-> stack[n]]), numtab)
       ELSE ParsePFR(tab, rest, Append(SubSeq(stack, 1, n - 2), [k |-> "f2", f |-> tab[tk], key |-> tk, a |-> stack[n - 1], b |-> stack[n]]), numtab)
    ELSE IF tk \in {"(", ")", ","} THEN ParsePFR(tab, rest, stack, numtab)
    ELSE IF tk \notin DOMAIN numtab THEN ParsePFR(tab, rest, Append(stack, [k |-> "var", n |-> tk]), numtab)
    ELSE ParsePFR(tab, rest, Append(stack, [k |-> "num", tok |-> tk, x |-> numtab[tk]]), numtab)
ReadFormulaR(tab, toks, numtab) ==
  LET pf == SYR(tab, toks, <<>>, <<>>) IN IF pf = ERR THEN [k |-> "error", why |-> "mismatching-parentheses"] ELSE ParsePFR(tab, pf, <<>>, numtab)

NumTab == [tok \in {"1.000"} |-> One]
Formulas == << <<"sq", "(", "x", ")">>,
               <<"sin", "(", "x", ")">>,
               <<"sq", "(", "x", ")", "+", "1.000">>,
               <<"sq", "(", "x", ",", "x", ")">>,
               <<"sq">>,
               <<"sq", "(", "sin", "(", "x", ")", ")">> >>
\* value of a tree at x: "unknown-variable" when a name that is not a registered function was read as a variable.
\* tabAtEval is used by the LateBinding canary only.
ElemValue(e, a, b) == CASE e = "square" -> KMul(a, a) [] e = "mul2" -> KMul(a, b) [] e = "sin" -> Fn1("sin", a)
RECURSIVE EvalR(_,_,_)
EvalR(t, x, tabAtEval) ==
  CASE t.k = "num" -> KQ(t.x)
    [] t.k = "var" -> IF t.n = "x" THEN KQ(x) ELSE <<"unknown-variable">>
    [] t.k \in {"f1", "f2"} ->
         LET e == IF LateBinding THEN (IF t.key \in DOMAIN tabAtEval THEN tabAtEval[t.key] ELSE "unregistered") ELSE t.f
             a == EvalR(t.a, x, tabAtEval)
             b == IF t.k = "f2" THEN EvalR(t.b, x, tabAtEval) ELSE a IN
         IF e = "unregistered" \/ a = <<"unknown-variable">> \/ b = <<"unknown-variable">> \/ ElemArity(e) # (IF t.k = "f1" THEN 1 ELSE 2)
         THEN <<"unknown-variable">> ELSE ElemValue(e, a, b)
    [] t.k = "bin" -> LET l == EvalR(t.l, x, tabAtEval)  r == EvalR(t.r, x, tabAtEval) IN
                      IF l = <<"unknown-variable">> \/ r = <<"unknown-variable">> THEN <<"unknown-variable">> ELSE EvalBin(t.o, l, r)
    [] t.k = "un" -> LET a == EvalR(t.a, x, tabAtEval) IN IF a = <<"unknown-variable">> THEN a ELSE EvalUn(t.o, a)
Keys(t) == IF t.k = "error" THEN <<>> ELSE t      \* (the harness compares the shape through the postfix text)

\* ---- results of the consumers on a registry r ---------------------------------------------------------------------------
Construct(r, k, key) == IF r[k][key] = None THEN <<"ValueError">> ELSE <<"ok", r[k][key]>>
Result(r, u) ==
  CASE u.op = "construct" -> Construct(r, u.k, u.key)               \* factory.construct(key) / factory.copy(key)
    [] u.op = "contains"  -> <<"ok", r[u.k][u.key] # None>>         \* key in factory
    [] u.op = "len"       -> <<"ok", Cardinality({ key \in KeysOf(u.k) : r[u.k][key] # None })>>      \* number of the model's keys registered
    [] u.op = "rule"      -> ReadRuleR(r, u.i)                      \* Rule.create(text, engine)
    [] u.op = "import"    -> Construct(r, u.k, u.key)               \* FllImporter: `term: t <key> ...` / `conjunction: <key>`
    [] u.op = "configure" -> Construct(r, "tnorm", u.key)           \* Engine.configure(conjunction=<key>)
Uses == [op : {"construct", "contains", "import"}, k : Kinds, key : HKeys \cup NKeys \cup TKeys \cup FKeys, i : {0}]
        \cup [op : {"len"}, k : Kinds, key : {""}, i : {0}]
        \cup [op : {"rule"}, k : {""}, key : {""}, i : 1..Len(RuleTexts)]
        \cup [op : {"configure"}, k : {""}, key : NKeys, i : {0}]
WellFormedUse(u) == (u.op \in {"construct", "contains"} => u.key \in KeysOf(u.k))
                    /\ (u.op = "import" => u.k \in {"term", "tnorm"} /\ u.key \in KeysOf(u.k))

\* ---- actions ---------------------------------------------------------------------------------------------------------
Create(m) == /\ m \notin live /\ live' = live \cup {m}
             /\ reg' = [x \in live \cup {m} |-> IF x = m THEN Default ELSE reg[x]]
             /\ obs' = <<"-">> /\ UNCHANGED <<cur, saved, held, memo>>
Register(m, k, key, c) == /\ m \in live /\ key \in KeysOf(k) /\ c \in CtorsOf(k) /\ reg[m][k][key] # c
                          /\ reg' = [reg EXCEPT ![m][k][key] = c]
                          /\ obs' = <<"-">> /\ UNCHANGED <<live, cur, saved, held, memo>>
Deregister(m, k, key) == /\ m \in live /\ key \in KeysOf(k) /\ reg[m][k][key] # None
                         /\ reg' = [reg EXCEPT ![m][k][key] = None]
                         /\ obs' = <<"-">> /\ UNCHANGED <<live, cur, saved, held, memo>>
Assign(m) == /\ m \in live /\ m # cur /\ cur' = m /\ obs' = <<"-">> /\ UNCHANGED <<reg, live, saved, held, memo>>
Enter(m)  == /\ m \in live /\ Len(saved) < 2 /\ saved' = Append(saved, cur) /\ cur' = m
             /\ obs' = <<"-">> /\ UNCHANGED <<reg, live, held, memo>>
Exit      == /\ saved # <<>> /\ cur' = saved[Len(saved)] /\ saved' = SubSeq(saved, 1, Len(saved) - 1)
             /\ obs' = <<"-">> /\ UNCHANGED <<reg, live, held, memo>>
Use(u)    == /\ WellFormedUse(u) /\ obs' = Result(reg[cur], u)
             /\ memo' = IF Cached /\ u.op = "rule"
                        THEN [key \in DOMAIN memo \cup { q \in HKeys : reg[cur].hedge[q] # None } |-> IF key \in DOMAIN memo THEN memo[key] ELSE reg[cur].hedge[key]]
                        ELSE memo
             /\ UNCHANGED <<reg, live, cur, saved, held>>
\* term.configure(formula) on the long-lived Function: parsed with the current registry; a failed parse leaves no tree
Parse(i)  == LET t == ReadFormulaR(FunTab(reg[cur]), Formulas[i], NumTab) IN
             /\ held' = IF t.k = "error" THEN <<>> ELSE <<t, FunTab(reg[cur])>>
             /\ obs' = IF t.k = "error" THEN <<"SyntaxError", t.why>> ELSE <<"ok", SYR(FunTab(reg[cur]), Formulas[i], <<>>, <<>>)>>
             /\ UNCHANGED <<reg, live, cur, saved, memo>>
\* term.membership(x) later, possibly under another manager
Evaluate(x) == /\ held # <<>>
               /\ obs' = LET v == EvalR(held[1], x, FunTab(reg[cur])) IN IF v = <<"unknown-variable">> THEN <<"ValueError">> ELSE <<"value", v>>
               /\ UNCHANGED <<reg, live, cur, saved, held, memo>>

FInit == /\ live = {"d"} /\ reg = [m \in {"d"} |-> Default] /\ cur = "d" /\ saved = <<>> /\ held = <<>>
         /\ memo = [key \in {} |-> None] /\ obs = <<"-">>
=============================================================================
