------------------------------ MODULE MC_PyRepr ------------------------------
(* C15 on the model: for every engine e (the component-wise enumeration and the case files of MC_FllSyntax), every
   alias setting and number of decimals, executing the representation rebuilds the engine:
       Eval(Tree(e, alias, dec)) = Canon(e, dec)
   (a height or weight within the comparison tolerance of 1 is not written and comes back as 1), and every string in
   the tree is the concatenation of the words it stands for.  Canary: a representation that drops `enabled=False`.
   Each state is emitted with its trees under two alias settings and compared, node for node, with the real repr(). *)
EXTENDS MC_FllSyntax, PyRepr
Aliases == <<"fl", "", "*", "zz">>
Rebuilds == ready => \A j \in 1..Len(Aliases) :
               LET t == Tree(eng, Aliases[j], dec) IN Eval(t, Aliases[j], eng, dec) = CanonW(eng, dec, FALSE) /\ StringsAgree(t, eng, dec)
PickAlias == ((Len(Text) + idx) % 3) + 2
EmitTrees == (Emit /\ ready) =>
   PrintT(ToJson([engine |-> eng, dec |-> dec, canon |-> CanonW(eng, dec, FALSE),
                  trees |-> << [alias |-> "fl", imp |-> ImportStatement("fl"), tree |-> Tree(eng, "fl", dec)],
                               [alias |-> Aliases[PickAlias], imp |-> ImportStatement(Aliases[PickAlias]), tree |-> Tree(eng, Aliases[PickAlias], dec)] >>]))
=============================================================================
