SPECIFICATION Spec
CONSTANTS FromFile = FALSE
  Emit = FALSE
  Decs = {3}
  CrossLocks = FALSE
INVARIANT RoundTrip
INVARIANT TextStable
INVARIANT VariantsNormalise
CHECK_DEADLOCK FALSE
