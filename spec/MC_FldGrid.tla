------------------------------ MODULE MC_FldGrid ------------------------------
(* C18 on the model: (a) Root is the integer n-th root for all v <= VMax, n <= 4; (b) the counter of Op.increment,
   run as a state machine, visits exactly the k^n index vectors in lexicographic order, last index fastest, then stops;
   (c) reader filtering; (d) the table of an engine whose output locks its previous value, exported over more than a
   thousand rows: each row's value follows from the previous ROW's (one restart, before the first row).
   Canaries: a root computed by flooring an inexact real root (one too small on perfect powers); an export that
   restarts the engine every RestartEvery rows. *)
EXTENDS FldGrid, TLC, Json
CONSTANTS VMax, KMax, Emit, FloorRoot, RestartEvery,
          SkipFirstRestart      \* canary: the export does not restart the engine before the first row
VARIABLES mode, v, n, hi, x, t, more, visited, prev, col
vars == <<mode, v, n, hi, x, t, more, visited, prev, col>>
TableShapes == { <<1499>>, <<39, 39>>, <<10, 10, 10>>, <<2, 3, 255>> }
\* canary root: exact root minus one on perfect powers above 1 (what int(pow(v, 1/n)) does when the power is rounded down)
BadRoot(vv, nn) == LET k == Root(vv, nn) IN IF nn = 3 /\ k > 3 /\ IPow(k, nn) = vv THEN k - 1 ELSE k
TheRoot(vv, nn) == IF FloorRoot THEN BadRoot(vv, nn) ELSE Root(vv, nn)
Init == \/ /\ \/ (mode = "root" /\ v \in 1..VMax /\ n \in 1..4 /\ hi = <<>> /\ x = <<>> /\ t = 0 /\ more = TRUE /\ visited = <<>>)
              \/ (mode = "count" /\ v = 0 /\ n \in 1..4 /\ \E k \in 1..KMax : hi = [j \in 1..n |-> k - 1]
                  /\ x = [j \in 1..n |-> 0] /\ t = 0 /\ more = TRUE /\ visited = << [j \in 1..n |-> 0] >>)
              \/ (mode = "count" /\ v = 1 /\ n = 3 /\ hi \in { <<2, 0, 1>>, <<0, 3, 0>>, <<1, 2, 3>> }      \* inactive variables: radix 1
                  /\ x = <<0, 0, 0>> /\ t = 0 /\ more = TRUE /\ visited = << <<0, 0, 0>> >>)
           /\ prev = 0 /\ col = <<>>
        \* v: the value the output holds from the engine's use BEFORE the export (0: none); the export restarts the engine first
        \/ (mode = "table" /\ v \in {0, 2} /\ hi \in TableShapes /\ n = Len(hi) /\ x = [j \in 1..Len(hi) |-> 0] /\ t = 0 /\ more = TRUE
            /\ visited = <<>>
            /\ LET first == RowValue([j \in 1..Len(hi) |-> 0], IF SkipFirstRestart THEN v ELSE 0) IN prev = first /\ col = << first >>)
Count == /\ mode = "count" /\ more
         /\ LET r == Increment(x, hi) IN
            /\ x' = r.x /\ more' = r.more /\ t' = t + 1
            /\ visited' = IF r.more THEN Append(visited, r.x) ELSE visited
         /\ UNCHANGED <<mode, v, n, hi, prev, col>>
\* one row of the table: the engine processes the next grid point in the state the previous row left
Row == /\ mode = "table" /\ more
       /\ LET r == Increment(x, hi)
              p0 == IF RestartEvery > 0 /\ (t + 1) % RestartEvery = 0 THEN 0 ELSE prev
              val == RowValue(r.x, p0) IN
          /\ x' = r.x /\ more' = r.more /\ t' = t + 1
          /\ prev' = IF r.more THEN val ELSE prev
          /\ col' = IF r.more THEN Append(col, val) ELSE col
       /\ UNCHANGED <<mode, v, n, hi, visited>>
Next == Count \/ Row
Spec == Init /\ [][Next]_vars
RootIsIntegerRoot == mode = "root" => LET k == TheRoot(v, n) IN k >= 1 /\ IPow(k, n) <= v /\ IPow(k + 1, n) > v
\* while counting, the current vector is the t-th of the lexicographic enumeration
CounterIsLexicographic == (mode = "count" /\ more) => x = Vector(t, hi)
\* it stops exactly after the last vector, having visited each once
CounterStopsAtEnd == (mode = "count" /\ ~more) => (t = Size(hi, Len(hi)) /\ Len(visited) = Size(hi, Len(hi))
                                                     /\ \A i \in 1..Len(visited) : visited[i] = Vector(i - 1, hi))
\* a row on which no rule fires repeats the row before it; a row on which one fires shows that rule's constant
HoldsAcrossRows == (mode = "table" /\ more) =>
                      /\ Len(col) = t + 1
                      /\ col[t + 1] = IF Fires(x) # 0 THEN Fires(x) ELSE IF t = 0 THEN 0 ELSE col[t]
EmitInv == Emit => /\ (mode = "root" => PrintT(ToJson([kind |-> "root", v |-> v, n |-> n, k |-> Root(v, n)])))
                   /\ ((mode = "count" /\ ~more) => PrintT(ToJson([kind |-> "count", hi |-> hi, visited |-> visited])))
                   /\ ((mode = "table" /\ ~more) => PrintT(ToJson([kind |-> "table", hi |-> hi, stale |-> v, col |-> col])))
=============================================================================
