------------------------------ MODULE MC_FldGrid ------------------------------
(* C18 on the model: (a) Root is the integer n-th root for all v <= VMax, n <= 4; (b) the counter of Op.increment,
   run as a state machine, visits exactly the k^n index vectors in lexicographic order, last index fastest, then stops;
   (c) reader filtering.  Canary: a root computed by flooring an inexact real root (one too small on perfect powers). *)
EXTENDS FldGrid, TLC, Json
CONSTANTS VMax, KMax, Emit, FloorRoot
VARIABLES mode, v, n, hi, x, t, more, visited
vars == <<mode, v, n, hi, x, t, more, visited>>
\* canary root: exact root minus one on perfect powers above 1 (what int(pow(v, 1/n)) does when the power is rounded down)
BadRoot(vv, nn) == LET k == Root(vv, nn) IN IF nn = 3 /\ k > 3 /\ IPow(k, nn) = vv THEN k - 1 ELSE k
TheRoot(vv, nn) == IF FloorRoot THEN BadRoot(vv, nn) ELSE Root(vv, nn)
Init == \/ (mode = "root" /\ v \in 1..VMax /\ n \in 1..4 /\ hi = <<>> /\ x = <<>> /\ t = 0 /\ more = TRUE /\ visited = <<>>)
        \/ (mode = "count" /\ v = 0 /\ n \in 1..4 /\ \E k \in 1..KMax : hi = [j \in 1..n |-> k - 1]
            /\ x = [j \in 1..n |-> 0] /\ t = 0 /\ more = TRUE /\ visited = << [j \in 1..n |-> 0] >>)
        \/ (mode = "count" /\ v = 1 /\ n = 3 /\ hi \in { <<2, 0, 1>>, <<0, 3, 0>>, <<1, 2, 3>> }      \* inactive variables: radix 1
            /\ x = <<0, 0, 0>> /\ t = 0 /\ more = TRUE /\ visited = << <<0, 0, 0>> >>)
Next == /\ mode = "count" /\ more
        /\ LET r == Increment(x, hi) IN
           /\ x' = r.x /\ more' = r.more /\ t' = t + 1
           /\ visited' = IF r.more THEN Append(visited, r.x) ELSE visited
        /\ UNCHANGED <<mode, v, n, hi>>
Spec == Init /\ [][Next]_vars
RootIsIntegerRoot == mode = "root" => LET k == TheRoot(v, n) IN k >= 1 /\ IPow(k, n) <= v /\ IPow(k + 1, n) > v
\* while counting, the current vector is the t-th of the lexicographic enumeration
CounterIsLexicographic == (mode = "count" /\ more) => x = Vector(t, hi)
\* it stops exactly after the last vector, having visited each once
CounterStopsAtEnd == (mode = "count" /\ ~more) => (t = Size(hi, Len(hi)) /\ Len(visited) = Size(hi, Len(hi))
                                                     /\ \A i \in 1..Len(visited) : visited[i] = Vector(i - 1, hi))
EmitInv == Emit => /\ (mode = "root" => PrintT(ToJson([kind |-> "root", v |-> v, n |-> n, k |-> Root(v, n)])))
                   /\ ((mode = "count" /\ ~more) => PrintT(ToJson([kind |-> "count", hi |-> hi, visited |-> visited])))
=============================================================================
