---------------------------- MODULE FunctionScope ----------------------------
(***************************************************************************)
(* Variable resolution of a long-lived Function term (C17: "variables      *)
(* resolve to the engine's current input/output values, the term's own     *)
(* variables and x").  The state is what a formula can see: the engine's   *)
(* input and output variable lists (objects with identity, name, value),   *)
(* the term's own variable map, whether the term is attached to the engine *)
(* and loaded, and the formula.  Every action is one public operation on   *)
(* the real objects; Evaluate is Function.membership(x).                   *)
(***************************************************************************)
EXTENDS FunctionSyntax

VARIABLES ins,        \* engine.input_variables : sequence of [id, n, v]
          outs,       \* engine.output_variables
          tv,         \* term.variables : set of [n, v]
          attached,   \* term.engine is the engine
          loaded,     \* term.root is not None
          fi,         \* index of the current formula
          nid,        \* next object identity
          cache       \* canary only: the scope captured by the first evaluation

svars == <<ins, outs, tv, attached, loaded, fi, nid, cache>>

EngineVars == ins \o outs
EngineNames == { EngineVars[i].n : i \in 1..Len(EngineVars) }
TermNames == { p.n : p \in tv }
HasName(s, name) == \E i \in 1..Len(s) : s[i].n = name
IndexOf(s, name) == CHOOSE i \in 1..Len(s) : s[i].n = name
Without(s, name) == SelectSeq(s, LAMBDA o : o.n # name)

RECURSIVE VarsOf(_)
VarsOf(t) == CASE t.k = "var" -> {t.n}
               [] t.k = "un" -> VarsOf(t.a)
               [] t.k = "bin" -> VarsOf(t.l) \cup VarsOf(t.r)
               [] t.k = "f1" -> VarsOf(t.a)
               [] t.k = "f2" -> VarsOf(t.a) \cup VarsOf(t.b)
               [] OTHER -> {}

\* what membership(x) sees: engine variables by name (current objects, current values), then x, then the term's own
Scope(evars, xv) ==
  LET names == { evars[i].n : i \in 1..Len(evars) } \cup {"x"} \cup TermNames IN
  [ nm \in names |->
      IF nm \in TermNames THEN KQ((CHOOSE p \in tv : p.n = nm).v)
      ELSE IF nm = "x" THEN KQ(xv)
      ELSE KQ(evars[IndexOf(evars, nm)].v) ]

\* outcome of membership(x): <<"RuntimeError">> | <<"ValueError", why>> | <<"value", kernel expression>>
Outcome(tree, evars, xv) ==
  LET names == { evars[i].n : i \in 1..Len(evars) } IN
  IF ~loaded THEN <<"RuntimeError", "not-loaded">>
  ELSE IF "x" \in TermNames THEN <<"ValueError", "x-is-reserved">>
  ELSE IF "x" \in names THEN <<"ValueError", "engine-variable-named-x">>
  ELSE IF TermNames \cap names # {} THEN <<"ValueError", "term-variable-overrides-engine-variable">>
  ELSE IF ~(VarsOf(tree) \subseteq (names \cup {"x"} \cup TermNames)) THEN <<"ValueError", "unknown-variable">>
  ELSE <<"value", EvalT(tree, Scope(evars, xv))>>

Visible == IF attached THEN EngineVars ELSE <<>>

\* ---- actions (guards keep names unique within the engine: duplicate names have no documented meaning) ----
AddIn(name, v)  == /\ name \notin EngineNames /\ Len(ins) < 2
                   /\ ins' = Append(ins, [id |-> nid, n |-> name, v |-> v]) /\ nid' = nid + 1
                   /\ UNCHANGED <<outs, tv, attached, loaded, fi, cache>>
AddOut(name, v) == /\ name \notin EngineNames /\ Len(outs) < 1
                   /\ outs' = Append(outs, [id |-> nid, n |-> name, v |-> v]) /\ nid' = nid + 1
                   /\ UNCHANGED <<ins, tv, attached, loaded, fi, cache>>
RemoveVar(name)    == /\ name \in EngineNames
                   /\ ins' = Without(ins, name) /\ outs' = Without(outs, name)
                   /\ UNCHANGED <<tv, attached, loaded, fi, nid, cache>>
\* a different object of the same name takes the place of the old one
ReplaceVar(name, v) == /\ name \in EngineNames
                    /\ ins' = [i \in 1..Len(ins) |-> IF ins[i].n = name THEN [id |-> nid, n |-> name, v |-> v] ELSE ins[i]]
                    /\ outs' = [i \in 1..Len(outs) |-> IF outs[i].n = name THEN [id |-> nid, n |-> name, v |-> v] ELSE outs[i]]
                    /\ nid' = nid + 1 /\ UNCHANGED <<tv, attached, loaded, fi, cache>>
SetValue(name, v) == /\ name \in EngineNames
                     /\ ins' = [i \in 1..Len(ins) |-> IF ins[i].n = name THEN [ins[i] EXCEPT !.v = v] ELSE ins[i]]
                     /\ outs' = [i \in 1..Len(outs) |-> IF outs[i].n = name THEN [outs[i] EXCEPT !.v = v] ELSE outs[i]]
                     /\ UNCHANGED <<tv, attached, loaded, fi, nid, cache>>
SetTermVar(name, v) == /\ tv' = { p \in tv : p.n # name } \cup {[n |-> name, v |-> v]}
                       /\ UNCHANGED <<ins, outs, attached, loaded, fi, nid, cache>>
DelTermVar(name) == /\ name \in TermNames /\ tv' = { p \in tv : p.n # name }
                    /\ UNCHANGED <<ins, outs, attached, loaded, fi, nid, cache>>
\* term.configure(formula): a new formula is loaded into the same term object
Configure(k) == /\ k # fi /\ fi' = k /\ loaded' = TRUE
                /\ UNCHANGED <<ins, outs, tv, attached, nid, cache>>
\* term.unload(): root dropped and the term's own variables cleared;  term.load()
Unload == /\ loaded /\ loaded' = FALSE /\ tv' = {} /\ UNCHANGED <<ins, outs, attached, fi, nid, cache>>
Load   == /\ ~loaded /\ loaded' = TRUE /\ UNCHANGED <<ins, outs, tv, attached, fi, nid, cache>>
\* term.update_reference(None) / term.update_reference(engine)
\* ("update the reference to the engine and load the function if it is not loaded")
Detach == /\ attached /\ attached' = FALSE /\ loaded' = TRUE /\ cache' = <<>> /\ UNCHANGED <<ins, outs, tv, fi, nid>>
Attach == /\ ~attached /\ attached' = TRUE /\ loaded' = TRUE /\ cache' = <<>> /\ UNCHANGED <<ins, outs, tv, fi, nid>>

ScopeInit == /\ ins = <<>> /\ outs = <<>> /\ tv = {} /\ attached = TRUE /\ loaded = TRUE /\ fi = 1 /\ nid = 1 /\ cache = <<>>
=============================================================================
