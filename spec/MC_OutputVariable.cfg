SPECIFICATION Spec
CONSTANTS NaN = 99
  L = 4
  MaxSteps = 4
  Emit = FALSE
  DefaultFirst = FALSE
INVARIANT TypeOK
INVARIANT ValueIsPerRowCascade
INVARIANT LockRangeInv
INVARIANT DefaultInv
PROPERTY PrevIsLastBefore
PROPERTY FailureAtomic
VIEW View
CHECK_DEADLOCK FALSE
