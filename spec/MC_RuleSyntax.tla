----------------------------- MODULE MC_RuleSyntax -----------------------------
(* C06 design theorem: for every antecedent tree and every print style, reading the printed text with the
   shunting-yard step and the Antecedent.load machine gives back the tree - i.e. `and` binds tighter than
   `or`, both associate to the left, parentheses override.  Trees: one operator level over 18 leaves and two
   operator levels over 3 leaves.  Canary: a printer that believes `or` binds tighter must fail. *)
EXTENDS RuleSyntax, TLC, Json
CONSTANTS Emit, SwapPrecedence
Leaf(v, hs, t) == [kind |-> "p", v |-> v, hs |-> hs, t |-> t]
Chains == { <<>>, <<"not">>, <<"very">>, <<"not", "very">> }
Leaves18 == { Leaf(v, hs, t) : v \in {"a", "y"}, hs \in Chains, t \in {"lo", "hi"} } \cup { Leaf(v, <<"any">>, "") : v \in {"a", "y"} }
Leaves3 == { Leaf("a", <<>>, "lo"), Leaf("y", <<"not">>, "hi"), Leaf("a", <<"very", "any">>, "") }
Node(k, l, r) == [kind |-> k, l |-> l, r |-> r]
Ops == {"and", "or"}
\* TLC cannot build a set whose elements are records of different shapes with set comprehension over a union type
\* unless each comprehension is homogeneous: leaves and nodes are kept in separate sets and joined by \cup.
L1(ls) == { Node(k, l, r) : k \in Ops, l \in ls, r \in ls }
T1of3 == Leaves3 \cup L1(Leaves3)
Trees == Leaves18 \cup L1(Leaves18) \cup { Node(k, l, r) : k \in Ops, l \in T1of3, r \in T1of3 }

\* the canary printer: same as Show but with the precedences of `and` and `or` exchanged
RECURSIVE ShowSwapped(_,_)
ShowSwapped(t, st) ==
  IF IsLeaf(t) THEN (IF st = 2 THEN Par(LeafToks(t)) ELSE LeafToks(t))
  ELSE LET l == t.l  r == t.r
           lp == ~IsLeaf(l) /\ (st >= 1 \/ PrecK(l.kind) > PrecK(t.kind))
           rp == ~IsLeaf(r) /\ (st >= 1 \/ PrecK(r.kind) >= PrecK(t.kind))
       IN (IF lp THEN Par(ShowSwapped(l, st)) ELSE ShowSwapped(l, st)) \o <<t.kind>> \o (IF rp THEN Par(ShowSwapped(r, st)) ELSE ShowSwapped(r, st))
Printed(t, st) == IF SwapPrecedence THEN ShowSwapped(t, st) ELSE Show(t, st)

VARIABLES tree, grp
vars == <<tree, grp>>
Group(g) == IF g = 0 THEN Leaves18 \cup L1(Leaves18)
            ELSE { Node(k, l, r) : k \in Ops, l \in T1of3, r \in T1of3 }
Init == tree = [kind |-> "none"] /\ grp \in 0..1
Next == tree.kind = "none" /\ tree' \in Group(grp) /\ UNCHANGED grp
Spec == Init /\ [][Next]_vars
Ready == tree.kind # "none"
RoundTrip == Ready => \A st \in 0..2 : ReadAntecedent(Printed(tree, st)) = tree
PostfixAgrees == Ready => \A st \in 0..2 : InfixToPostfix(Printed(tree, st)) = Postfix(tree)
GrammarAccepts == Ready => \A st \in 0..2 : IsAnt(Printed(tree, st))
EmitInv == (Emit /\ Ready) => PrintT(ToJson([tree |-> tree, postfix |-> Postfix(tree), shown |-> [st \in 1..3 |-> Show(tree, st - 1)]]))
=============================================================================
