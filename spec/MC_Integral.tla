------------------------------ MODULE MC_Integral ------------------------------
(* C09: the five integral defuzzifiers on aggregated sets of 0..3 activated terms over [lo, hi] sampled at
   r midpoints.  Cases are enumerated here (small palette, exhaustive) or read from a seeded case file.
   One state per case; it carries the sampled membership vector and the five results. *)
EXTENDS Defuzzifiers, TLC, Json, IOUtils
CONSTANTS FromFile, Emit, MaxLen
TermPal == [ rect |-> [name |-> "rect", k |-> "Rectangle", p |-> <<Q(1,8), Q(3,8)>>, h |-> One],
             tri  |-> [name |-> "tri",  k |-> "Triangle",  p |-> <<Q(1,4), Half, Q(3,4)>>, h |-> One],
             trap |-> [name |-> "trap", k |-> "Trapezoid", p |-> <<Half, Q(5,8), Q(7,8), One>>, h |-> Q(3,4)],
             ramp |-> [name |-> "ramp", k |-> "Ramp",      p |-> <<Q(3,4), Q(1,4)>>, h |-> One],
             disc |-> [name |-> "disc", k |-> "Discrete",  p |-> <<Zero, Half, Q(1,4), Half, Half, Zero, Q(3,4), Half, One, Half>>, h |-> One] ]
Keys == {"rect", "tri", "trap", "ramp", "disc"}
DegPal == { Zero, Q(1,4), Half, One }
Impls == {"Minimum", "AlgebraicProduct", "BoundedDifference"}
Aggrs == {"Maximum", "BoundedSum", "AlgebraicSum"}
Ress == {1, 2, 4, 8}
FileCases == IF FromFile THEN JsonDeserialize(IOEnv.VERIF_CASES) ELSE <<>>
VARIABLES acts, aggr, res, lo, hi, ready, grp,
          xs, ys, vv       \* sample points, sampled membership, the five results: computed once per case
vars == <<acts, aggr, res, lo, hi, ready, grp, xs, ys, vv>>
Mk(s, impl) == [i \in 1..Len(s) |-> [term |-> TermPal[s[i].t], degree |-> s[i].d, impl |-> impl]]
MkF(fa) == [i \in 1..Len(fa) |-> [term |-> fa[i].term, degree |-> fa[i].d, impl |-> fa[i].impl]]
Init == /\ acts = <<>> /\ ready = FALSE /\ aggr = "Maximum" /\ res = 1 /\ lo = Zero /\ hi = One
        /\ xs = <<>> /\ ys = <<>> /\ vv = <<>>
        /\ grp \in (IF FromFile THEN { <<g>> : g \in 1..64 } ELSE { g \in { <<n, a, im, r>> : n \in 0..MaxLen, a \in Aggrs, im \in Impls, r \in Ress } :
                                                    \* three products of products leave TLC's 32-bit integers at the finer resolutions
                                                    ~(g[1] >= 3 /\ g[2] = "AlgebraicSum" /\ g[3] = "AlgebraicProduct" /\ g[4] >= 4) })
Next == /\ ~ready /\ ready' = TRUE /\ UNCHANGED grp
        /\ IF FromFile
           THEN \E i \in { j \in 1..Len(FileCases) : j % 64 = grp[1] - 1 } :
                  /\ acts' = MkF(FileCases[i].acts) /\ aggr' = FileCases[i].aggr /\ res' = FileCases[i].res
                  /\ lo' = FileCases[i].lo /\ hi' = FileCases[i].hi
           ELSE \E s \in [1..grp[1] -> [t : Keys, d : DegPal]] :
                  /\ acts' = Mk(s, grp[3]) /\ aggr' = grp[2] /\ res' = grp[4] /\ UNCHANGED <<lo, hi>>
        /\ xs' = Midpoints(lo', hi', res')
        /\ ys' = Sample(acts', aggr', xs')
        /\ vv' = [c \in IntegralDefuzzifiers |-> Integral(c, xs', ys')]
Spec == Init /\ [][Next]_vars

Xs == xs
Ys == ys
V(cls) == vv[cls]
Good(v) == ~IsBad(v) /\ ~IsNaN(v)
AllZero == \A i \in 1..Len(Ys) : Eq(Ys[i], Zero)
\* each result lies in [lo, hi]
InRange == ready => \A c \in IntegralDefuzzifiers : Good(V(c)) => (Ge(V(c), lo) /\ Le(V(c), hi))
\* SOM <= MOM <= LOM
Ordered == ready => (Good(V("SmallestOfMaximum")) => (Le(V("SmallestOfMaximum"), V("MeanOfMaximum")) /\ Le(V("MeanOfMaximum"), V("LargestOfMaximum"))))
\* NaN exactly when the membership is zero at every sample point
NaNIffEmpty == ready => \A c \in IntegralDefuzzifiers : ~IsBad(V(c)) => (IsNaN(V(c)) <=> AllZero)
\* translating set and range by c moves the centroid by c  (terms are translated by shifting their parameters)
ShiftTerm(t, c) == [t EXCEPT !.p = [i \in 1..Len(t.p) |-> IF t.k = "Discrete" /\ i % 2 = 0 THEN t.p[i] ELSE Add(t.p[i], c)]]
ShiftActs(c) == [i \in 1..Len(acts) |-> [acts[i] EXCEPT !.term = ShiftTerm(acts[i].term, c)]]
Translation == ready => \A c \in {I(-1), Half, I(3)} :
   LET xs2 == Midpoints(Add(lo, c), Add(hi, c), res)
       v2 == Centroid(xs2, Sample(ShiftActs(c), aggr, xs2))
   IN (Good(V("Centroid")) => v2 = Add(V("Centroid"), c)) /\ (IsNaN(V("Centroid")) => IsNaN(v2))
EmitInv == (Emit /\ ready) => PrintT(ToJson([acts |-> [i \in 1..Len(acts) |-> [t |-> acts[i].term, d |-> acts[i].degree, impl |-> acts[i].impl]],
                 aggr |-> aggr, res |-> res, lo |-> lo, hi |-> hi, xs |-> Xs, ys |-> Ys,
                 v |-> [c \in IntegralDefuzzifiers |-> V(c)]]))
=============================================================================
