SPECIFICATION Spec
CONSTANTS InVars = {"a", "b"}
  OutVars = {"y", "z"}
  TermNames = {"lo", "hi", "t"}
  HedgeNames = {"any", "extremely", "not", "seldom", "somewhat", "very"}
  Emit = FALSE
  SwapPrecedence = FALSE
INVARIANT RoundTrip
INVARIANT PostfixAgrees
INVARIANT GrammarAccepts
CHECK_DEADLOCK FALSE
