SPECIFICATION Spec
CONSTANT NaN = 1000000
INVARIANT Report
CHECK_DEADLOCK FALSE
