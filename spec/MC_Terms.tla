------------------------------ MODULE MC_Terms ------------------------------
(* C03: every shape term x every valid parameterisation over a palette (both directions, coincident
   vertices, infinite shoulders) x heights x every breakpoint of the definition with both infinitesimal
   neighbours, midpoints, outside points, +-inf, NaN.  One state per (term, point). *)
EXTENDS Terms, TLC, Json
CONSTANTS Palette,   \* "dyadic" | "decimal" | "narrow" (parameters within the library's comparison tolerance, 0.001, of a degenerate value)
          Kinds,     \* the kinds enumerated by this run
          Emit
F == IF Palette = "dyadic" THEN { Zero, Q(1,4), Half, Q(3,4), One }
     ELSE IF Palette = "narrow" THEN { Zero, Q(1,1024), One }
     ELSE { Q(1,10), Q(3,10), Q(45,100), Q(7,10), Q(95,100) }
Pos3 == IF Palette = "dyadic" THEN { Q(1,4), Half, One } ELSE IF Palette = "narrow" THEN { Q(1,1024), One } ELSE { Q(1,10), Q(3,10), Q(7,10) }   \* widths / deviations
Heights == IF Palette = "dyadic" THEN { One, Half, Q(3,4) } ELSE IF Palette = "narrow" THEN { One, Q(1023,1024) } ELSE { One, Q(3,10), Q(7,10) }
FL == F \cup {NInf}
FR == F \cup {PInf}
FI == F \cup {NInf, PInf}
FSeq == CHOOSE s \in [1..5 -> (IF Palette = "narrow" THEN F \cup {Q(1,4), Q(3,4)} ELSE F)] : \A i \in 1..4 : Lt(s[i], s[i+1])

\* a long table with a vertical edge at every integer: pair i of n is (i \div 2, ((3 i) mod 5) / 4)
Stair(n) == [j \in 1..(2 * n) |-> LET i == (j + 1) \div 2 IN IF j % 2 = 1 THEN I(i \div 2) ELSE Q((3 * i) % 5, 4)]

Params(k) ==
  CASE k = "Triangle"  -> { <<a,b,c>> : a \in FL, b \in F, c \in FR } 
    [] k = "Trapezoid" -> { <<a,b,c,d>> : a \in FL, b \in F, c \in F, d \in FR }
    [] k = "Rectangle" -> { <<s,e>> : s \in FI, e \in FI }
    [] k \in {"Ramp", "Concave", "Arc", "SemiEllipse"} -> { <<s,e>> \in F \X F : s # e }
    [] k = "Binary"    -> { <<s,d>> : s \in F, d \in {NInf, PInf} }
    [] k \in {"SShape", "ZShape"} -> { <<s,e>> \in F \X F : Le(s, e) }
    [] k = "PiShape"   -> { <<a,b,c,d>> : a \in F, b \in F, c \in F, d \in F }
    [] k = "Gaussian"  -> { <<m,s>> : m \in F, s \in Pos3 }
    [] k = "GaussianProduct" -> { <<ma,sa,mb,sb>> : ma \in F, sa \in {Q(1,4), One}, mb \in F, sb \in {Q(1,4), One} }
    [] k = "Bell"      -> { <<c,w,s>> : c \in F, w \in {Q(1,4), Half}, s \in {One, Two, Q(3,2), Half} }
    [] k \in {"Cosine", "Spike"} -> { <<c,w>> : c \in F, w \in Pos3 }
    [] k = "Sigmoid"   -> { <<i,s>> : i \in F, s \in {I(-4), I(-1), One, I(4), Q(1,4)} }
    [] k = "SigmoidDifference" -> { <<l,r,r,g>> : l \in F, r \in {One, I(4)}, g \in F }
    [] k = "SigmoidProduct" -> { <<l,r,f,g>> : l \in F, r \in {One, I(4)}, f \in {I(-1), I(-4)}, g \in F }
    [] k = "Discrete"  -> { <<FSeq[1], Zero, FSeq[2], One, FSeq[3], Half, FSeq[4], One, FSeq[5], Zero>>,
                            <<FSeq[1], One, FSeq[3], Q(1,4), FSeq[4], Q(3,4), FSeq[5], Zero>>,
                            <<FSeq[2], Zero, FSeq[4], One>>,
                            <<FSeq[1], Q(3,4), FSeq[5], Q(1,4)>> }    \* (a single pair is not an interpolation table)
                          \cup (IF Palette = "dyadic" THEN { Stair(96), Stair(70) } ELSE {})
    [] k = "Constant"  -> { <<v>> : v \in {Q(-1,2), Zero, Q(3,4)} }
Valid(k, p) ==
  CASE k = "Triangle"  -> Le(p[1], p[2]) /\ Le(p[2], p[3])
    [] k = "Trapezoid" -> Le(p[1], p[2]) /\ Le(p[2], p[3]) /\ Le(p[3], p[4])
    \* the documented definition is the product of an S-shape and a Z-shape: the two edges may overlap (top_left beyond top_right)
    [] k = "PiShape" -> Le(p[1], p[2]) /\ Le(p[3], p[4])
    [] k = "GaussianProduct" -> Le(p[1], p[3])
    [] k \in {"SigmoidDifference", "SigmoidProduct"} -> Le(p[1], p[4])
    [] OTHER -> TRUE
TermSet == { t \in UNION { { [k |-> k, p |-> p, h |-> IF k = "Constant" THEN One ELSE h] : p \in Params(k), h \in Heights } : k \in Kinds } : Valid(t.k, t.p) }

FinBP0(t) == { b \in Breakpoints(t) : IsFin(b) }
FinBP(t) == IF FinBP0(t) = {} THEN {Zero} ELSE FinBP0(t)
MinBP(t) == CHOOSE b \in FinBP(t) : \A c \in FinBP(t) : Le(b, c)
MaxBP(t) == CHOOSE b \in FinBP(t) : \A c \in FinBP(t) : Ge(b, c)
Mids(t) == { Mul(Half, Add(b, c)) : <<b, c>> \in { bc \in FinBP(t) \X FinBP(t) : Lt(bc[1], bc[2]) /\ \A d \in FinBP(t) : ~(Lt(bc[1], d) /\ Lt(d, bc[2])) } }
PointsOf(t) ==
     { P(b, e) : b \in FinBP(t), e \in {-1, 0, 1} }
  \cup { P(m, 0) : m \in Mids(t) }
  \cup { P(Sub(MinBP(t), One), 0), P(Add(MaxBP(t), One), 0), P(NInf, 0), P(PInf, 0), P(NaN, 0) }

VARIABLES t, x
vars == <<t, x>>
Init == t \in TermSet /\ x \in PointsOf(t)
Next == UNCHANGED vars
Spec == Init /\ [][Next]_vars

M(tt, xx) == Mu(tt, xx, ValEnv(tt, xx))
V == M(t, x).v
PLeq(a, b) == Lt(a[1], b[1]) \/ (Eq(a[1], b[1]) /\ a[2] <= b[2])

PieceAgree == M(t, x).piece = Mu(t, x, SymEnv(t)).piece
RangeOK == (IsQ(V) /\ t.k # "Constant" /\ ~IsNaN(x[1])) => (Le(Zero, QV(V)) /\ Le(QV(V), t.h))
NaNIff  == (IsQ(V) /\ t.k # "Constant") => (IsNaN(QV(V)) <=> IsNaN(x[1]))
Monotone == IsMonotonic(t) =>
              \A y \in PointsOf(t) :
                 LET w == M(t, y).v IN
                 (PLeq(x, y) /\ IsQ(V) /\ IsQ(w) /\ ~IsNaN(x[1]) /\ ~IsNaN(y[1])) =>
                    IF Direction(t) = 1 THEN Le(QV(V), QV(w)) ELSE Ge(QV(V), QV(w))
\* the S-, Z- and Pi-shapes are continuous when their edges are not vertical
Continuous == (t.k \in {"SShape", "ZShape"} /\ Lt(t.p[1], t.p[2]) /\ x[2] = 0 /\ IsFin(x[1]) /\ x[1] \in FinBP(t)) =>
                 (M(t, P(x[1], -1)).v = V /\ M(t, P(x[1], 1)).v = V)
\* (narrow palette: only the piece and the symbolic closed form are emitted - the exact value of a quadratic piece with
\* denominators of 2^10 does not fit TLC's 32-bit integers; the harness evaluates the closed form in exact rationals)
EmitInv == Emit => PrintT(ToJson(IF Palette = "narrow"
                                 THEN [k |-> t.k, p |-> t.p, h |-> t.h, x |-> x, piece |-> Mu(t, x, SymEnv(t)).piece, v |-> <<"not-computed">>,
                                       f |-> Mu(t, x, SymEnv(t)).v]
                                 ELSE [k |-> t.k, p |-> t.p, h |-> t.h, x |-> x, piece |-> M(t, x).piece, v |-> V,
                                       f |-> Mu(t, x, SymEnv(t)).v]))
=============================================================================
