---------------------------- MODULE Trace_Settings ----------------------------
(* Trace validation for the settings contexts: `settings.enter` / `settings.exit` events recorded by
   harness/tracer.py (one exit event per context, also when an exception unwinds several) are re-run
   through Enter / ExitOne of Settings.tla.  Setting values are abstracted to small integers per key
   by harness/c20.py.  Direct assignments between events are environment steps: the state is
   re-synchronised to the logged pre-state (entry: `before`; exit: `last` = settings just before the
   context manager's __exit__) and the number of such steps is reported. *)
EXTENDS Settings, TLC, Json, IOUtils
Traces == JsonDeserialize(IOEnv.VERIF_TRACES)
NK == 7
KeysDef == 1..NK
VARIABLES tid, l, verdict, env
tvars == <<cur, stack, tid, l, verdict, env>>
T == Traces[tid]
N == Len(T.events)
Ev == T.events[l]
AsFun(s) == [k \in Keys |-> s[k]]
Pre(e) == AsFun(IF e.act = "enter" THEN e.before ELSE e.last)
Init == tid \in 1..Len(Traces) /\ l = 1 /\ verdict = "ok" /\ env = 0 /\ SInit(AsFun(Traces[tid].init))
Sync == /\ verdict = "ok" /\ l <= N /\ cur # Pre(Ev)
        /\ cur' = Pre(Ev) /\ env' = env + 1 /\ UNCHANGED <<stack, tid, l, verdict>>
Match(e) == \/ (e.act = "enter" /\ Enter({k \in Keys : e.named[k]}, AsFun(e.inside)))
            \/ (e.act = "exit" /\ ExitOne)
Post(e) == cur' = AsFun(e.after)
Step == /\ verdict = "ok" /\ l <= N /\ cur = Pre(Ev)
        /\ Match(Ev)
        /\ verdict' = IF Post(Ev) /\ (Ev.act = "exit" => ExitRestores) /\ (Ev.act = "enter" => EnterVisible) THEN "ok" ELSE "rejected"
        /\ l' = l + 1 /\ UNCHANGED <<tid, env>>
NoMatch == /\ verdict = "ok" /\ l <= N /\ cur = Pre(Ev) /\ ~ENABLED Match(Ev)
           /\ verdict' = "nomatch" /\ l' = l + 1 /\ UNCHANGED <<cur, stack, tid, env>>
Next == Sync \/ Step \/ NoMatch
Spec == Init /\ [][Next]_tvars
Terminal == verdict # "ok" \/ l > N
Report == Terminal => PrintT(ToJson([tid |-> T.id, verdict |-> verdict, at |-> l - 1, env |-> env,
                                     cur |-> [k \in 1..NK |-> cur[k]], depth |-> Len(stack)]))
=============================================================================
