SPECIFICATION Spec
CONSTANTS InVars = {"a", "b"}
  OutVars = {"y", "z"}
  TermNames = {"lo", "hi"}
  HedgeNames = {"any", "extremely", "not", "seldom", "somewhat", "very"}
  LenA = 4
  LenC = 4
  Emit = FALSE
INVARIANT AcceptsGrammar
INVARIANT ValidAccepted
INVARIANT ListedErrorsRejected
CHECK_DEADLOCK FALSE
