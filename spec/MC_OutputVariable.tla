------------------------- MODULE MC_OutputVariable -------------------------
(* Model-checking instance of OutputVariable: every history of at most L rows, cut into calls in every
   way, under the 12 cascade settings (x enabled toggling x a failing call / clear / assignment at any
   position), with the invariants of property C12.  History variables make the declarative reference
   explicit: `rows` are all raw rows since the last reset of the history and `base` the value carried
   into them. *)
EXTENDS OutputVariable, TLC, Json
CONSTANTS L,            \* total number of raw rows in a behaviour
          MaxSteps,     \* total number of actions in a behaviour
          Emit,         \* TRUE: print every behaviour as JSON (generator instance)
          DefaultFirst  \* canary: a wrong machine that substitutes the default before lock-previous

Ranks == {-1, 1, 2, 3}            \* range is [0,2]: -1 below, 1 inside, 2 = upper bound, 3 above
Vals  == Ranks \cup {NaN}
Configs == [enabled : {TRUE}, lockPrev : BOOLEAN, lockRange : BOOLEAN, def : {NaN, 1, 3},
            lo : {0}, hi : {2}, hasDefuzz : {TRUE}]

VARIABLES rows, base, used, steps, expect
vars == <<cfg, value, prev, nfuzzy, act, rows, base, used, steps, expect>>

Obs == [value |-> value', prev |-> prev', nfuzzy |-> nfuzzy']
Log(a, raw) == /\ steps' = Append(steps, [act |-> a, raw |-> raw])
               /\ expect' = Append(expect, Obs)
Seqs(n) == UNION { [1..k -> Vals] : k \in 1..n }

WrongBatch(c, raw, last) ==            \* canary machine
  LET d == [i \in 1..Len(raw) |-> IF raw[i] = NaN /\ c.def # NaN THEN c.def ELSE raw[i]]
      f == IF c.lockPrev THEN Fill(d, last) ELSE d
  IN [i \in 1..Len(f) |-> Commit(c, f[i])]

Init == /\ \E c \in Configs : OVInit(c)
        /\ rows = <<>> /\ base = NaN /\ used = 0 /\ steps = <<>> /\ expect = <<>>

DoDefuzzify == \E raw \in Seqs(L - used) :
   /\ IF DefaultFirst
      THEN /\ cfg.enabled /\ prev' = LastOf(value) /\ value' = WrongBatch(cfg, raw, LastOf(value))
           /\ act' = "Defuzzify" /\ UNCHANGED <<cfg, nfuzzy>>
      ELSE Defuzzify(raw)
   /\ rows' = rows \o raw /\ used' = used + Len(raw) /\ UNCHANGED base
   /\ Log("Defuzzify", raw)
DoRaise    == DefuzzifyRaises /\ UNCHANGED <<rows, base, used>> /\ Log("Raise", <<>>)
DoDisabled == DefuzzifyDisabled /\ UNCHANGED <<rows, base, used>> /\ Log("Disabled", <<>>)
DoClear    == Clear /\ rows' = <<>> /\ base' = NaN /\ UNCHANGED used /\ Log("Clear", <<>>)
DoFuzzyClear == nfuzzy > 0 /\ FuzzyClear /\ UNCHANGED <<rows, base, used>> /\ Log("FuzzyClear", <<>>)
DoAddTerm  == nfuzzy < 1 /\ AddTerm /\ UNCHANGED <<rows, base, used>> /\ Log("AddTerm", <<>>)
DoAssign   == \E v \in {NaN, 1, 3} : Assign(v) /\ rows' = <<>> /\ base' = Commit(cfg, v) /\ UNCHANGED used /\ Log("Assign", <<v>>)
DoToggle   == SetEnabled(~cfg.enabled) /\ UNCHANGED <<rows, base, used>> /\ Log("SetEnabled", <<IF cfg.enabled THEN 0 ELSE 1>>)

Next == /\ Len(steps) < MaxSteps
        /\ \/ (used < L /\ DoDefuzzify) \/ DoRaise \/ DoDisabled \/ DoClear
           \/ DoFuzzyClear \/ DoAddTerm \/ DoAssign \/ DoToggle
Spec == Init /\ [][Next]_vars

---------------------------------------------------------------------------
(* C12, clause 1: the value after p rows is the documented per-row cascade folded over the history,
   whatever the cut into calls/batches (partition independence). *)
Reference == PerRow(cfg, rows, base)
ValueIsPerRowCascade ==
   IF rows = <<>> THEN value = <<base>>
   ELSE value = SubSeq(Reference, Len(rows) - Len(value) + 1, Len(rows))
(* clause 4: with lock-range the value is in range or NaN *)
LockRangeInv == cfg.lockRange => \A i \in 1..Len(value) : value[i] = NaN \/ (value[i] >= cfg.lo /\ value[i] <= cfg.hi)
(* a value is NaN only when the cascade leaves it NaN: no default, or lock-previous with nothing to hold *)
DefaultInv == (act = "Defuzzify" /\ cfg.def # NaN) => \A i \in 1..Len(value) : value[i] # NaN
(* clause 2: the recorded previous value is the last value held before the call *)
PrevIsLastBefore == [][act' = "Defuzzify" => prev' = LastOf(value)]_vars
(* clause 3 and 5: a disabled variable is untouched; a failing defuzzification changes nothing *)
FailureAtomic == [][act' \in {"Raise", "Disabled"} => UNCHANGED <<value, prev, nfuzzy>>]_vars
TypeOK == /\ value \in Seq(Vals \cup {0}) /\ Len(value) >= 1 /\ prev \in (Vals \cup {0}) /\ nfuzzy \in 0..1
EmitInv == (Emit /\ Len(steps) = MaxSteps) => PrintT(ToJson([cfg |-> [cfg EXCEPT !.enabled = TRUE], steps |-> steps, expect |-> expect]))  \* initial cfg: Init has enabled = TRUE
\* history variables are hidden from the fingerprint in the model-checking instances
View == <<cfg, value, prev, nfuzzy, act, rows, base, used, Len(steps)>>
=============================================================================
