------------------------ MODULE Trace_OutputVariable ------------------------
(* Trace validation (code -> spec) for OutputVariable: every `defuzzify` / `clear` event recorded from
   real OutputVariable objects (inside real engines, with the real defuzzifiers) is re-run through the
   actions of OutputVariable.tla.  Values are rank-abstracted by harness/trace_ov.py (NaN = 1000000, ranks
   0,1,2,...).  All traces of a run are validated in one TLC invocation: Init picks the trace.
   The verdict is total: every trace ends "ok" or "rejected"/"nomatch" at a given event, and the final
   state of a rejected trace holds the values the specification expected. *)
EXTENDS OutputVariable, TLC, Json, IOUtils

Traces == JsonDeserialize(IOEnv.VERIF_TRACES)

VARIABLES tid, l, verdict, env
tvars == <<cfg, value, prev, nfuzzy, act, tid, l, verdict, env>>

T  == Traces[tid]
N  == Len(T.events)
Ev == T.events[l]

Init == /\ tid \in 1..Len(Traces)
        /\ l = 1 /\ verdict = "ok" /\ env = 0
        /\ OVInit(Traces[tid].events[1].cfg)

InSync(e) == /\ cfg = e.cfg
             /\ (e.act = "defuzzify" => value = e.vb /\ prev = e.pb /\ nfuzzy = e.nb)

(* the environment changed the variable between two traced calls (fuzzy.clear(), rule conclusions,
   direct assignment, configuration edit): adopt the logged pre-state; counted, never checked *)
Sync == /\ verdict = "ok" /\ l <= N /\ ~InSync(Ev)
        /\ cfg' = Ev.cfg
        /\ IF Ev.act = "defuzzify" THEN value' = Ev.vb /\ prev' = Ev.pb /\ nfuzzy' = Ev.nb
                                   ELSE UNCHANGED <<value, prev, nfuzzy>>
        /\ env' = env + (IF Ev.act = "defuzzify" /\ (value # Ev.vb \/ prev # Ev.pb) THEN 1 ELSE 0)
        /\ act' = "Env" /\ UNCHANGED <<tid, l, verdict>>

(* the specification's action for the event; deterministic *)
Match(e) ==
  \/ (e.act = "defuzzify" /\ ~e.raised /\ cfg.enabled /\ Defuzzify(e.raw))
  \/ (e.act = "defuzzify" /\ e.raised /\ DefuzzifyRaises)
  \/ (e.act = "defuzzify" /\ ~e.raised /\ DefuzzifyDisabled)
  \/ (e.act = "clear" /\ Clear)
Post(e) == value' = e.va /\ prev' = e.pa /\ nfuzzy' = e.na
(* the declarative cascade must explain the event as well *)
PostRef(e) == (e.act = "defuzzify" /\ ~e.raised /\ cfg.enabled) => e.va = PerRow(cfg, e.raw, LastOf(value))

Step == /\ verdict = "ok" /\ l <= N /\ InSync(Ev)
        /\ Match(Ev)
        /\ verdict' = IF Post(Ev) /\ PostRef(Ev) THEN "ok" ELSE "rejected"
        /\ l' = l + 1 /\ UNCHANGED <<tid, env>>
NoMatch == /\ verdict = "ok" /\ l <= N /\ InSync(Ev) /\ ~ENABLED Match(Ev)
           /\ verdict' = "nomatch" /\ l' = l + 1
           /\ UNCHANGED <<cfg, value, prev, nfuzzy, act, tid, env>>
Next == Sync \/ Step \/ NoMatch
Spec == Init /\ [][Next]_tvars

Terminal == verdict # "ok" \/ l > N
Report == Terminal => PrintT(ToJson([tid |-> T.id, verdict |-> verdict, at |-> l - 1, env |-> env,
                                     value |-> value, prev |-> prev, nfuzzy |-> nfuzzy]))
=============================================================================
