------------------------------- MODULE Readiness -------------------------------
(***************************************************************************)
(* Engine.is_ready (C19): the configuration errors the readiness check must *)
(* report, written from its documentation, over engine descriptions (EDL).  *)
(* An error is a tag <<kind, index>>: kind names the missing piece, index   *)
(* the output variable or rule block.                                       *)
(***************************************************************************)
EXTENDS Engine

RECURSIVE UsesOp(_,_)
UsesOp(n, k) == IF n.kind \in {"p", "fixed"} THEN FALSE ELSE n.kind = k \/ UsesOp(n.l, k) \/ UsesOp(n.r, k)

IsIntegral(var) == var.defuzzifier.cls \in IntegralDefuzzifiers
\* operators needed by the rules of block b
NeedsConjunction(E, b) == \E i \in 1..Len(E.blocks[b].rules) : UsesOp(E.blocks[b].rules[i].ant, "and")
NeedsDisjunction(E, b) == \E i \in 1..Len(E.blocks[b].rules) : UsesOp(E.blocks[b].rules[i].ant, "or")
\* an implication operator is needed by a loaded rule that concludes on an output variable defuzzified by integration
NeedsImplication(E, b) == \E i \in 1..Len(E.blocks[b].rules) : LET r == E.blocks[b].rules[i] IN
                             r.loaded /\ \E c \in 1..Len(r.cons) : IsIntegral(E.outputs[OutIdx(E, r.cons[c].var)])

\* NestedDisjunction = TRUE models a check in which the disjunction test sits inside the branch taken only when a
\* conjunction operator is needed and missing (the shape of the code at the pinned commit); the documented check is FALSE
ReadyErrors(E, NestedDisjunction) ==
     (IF E.inputs = <<>> THEN {<<"no-inputs", 0>>} ELSE {})
  \cup (IF E.outputs = <<>> THEN {<<"no-outputs", 0>>} ELSE {})
  \cup (IF E.blocks = <<>> THEN {<<"no-blocks", 0>>} ELSE {})
  \cup { <<"no-terms", o>> : o \in { o \in 1..Len(E.outputs) : E.outputs[o].terms = <<>> } }
  \cup { <<"defuzzifier", o>> : o \in { o \in 1..Len(E.outputs) : E.outputs[o].defuzzifier.cls = "none" } }
  \cup { <<"aggregation", o>> : o \in { o \in 1..Len(E.outputs) : E.outputs[o].aggregation = "none" /\ IsIntegral(E.outputs[o]) } }
  \cup { <<"no-rules", b>> : b \in { b \in 1..Len(E.blocks) : E.blocks[b].rules = <<>> } }
  \cup { <<"conjunction", b>> : b \in { b \in 1..Len(E.blocks) : NeedsConjunction(E, b) /\ E.blocks[b].conjunction = "none" } }
  \cup { <<"disjunction", b>> : b \in { b \in 1..Len(E.blocks) : NeedsDisjunction(E, b) /\ E.blocks[b].disjunction = "none"
                                                                 /\ (NestedDisjunction => (NeedsConjunction(E, b) /\ E.blocks[b].conjunction = "none")) } }
  \cup { <<"implication", b>> : b \in { b \in 1..Len(E.blocks) : NeedsImplication(E, b) /\ E.blocks[b].implication = "none" } }
IsReady(E, nested) == ReadyErrors(E, nested) = {}
HasActivations(E) == \A b \in 1..Len(E.blocks) : E.blocks[b].activation.cls # "none"
ProcessRaises(E, row) == Raises(E, ProcessRow(E, Fresh(E), row))
=============================================================================
