SPECIFICATION Spec
INVARIANT HighestIsMax
INVARIANT TypeOfIntegral
INVARIANT EmitInv
CHECK_DEADLOCK FALSE
