SPECIFICATION Spec
CONSTANTS Emit = FALSE
  Leaky = FALSE
INVARIANT OnePerConclusion
INVARIANT Independent
INVARIANT Stored
INVARIANT OrderIndependent
CHECK_DEADLOCK FALSE
