----------------------------- MODULE ShuntingYard -----------------------------
(***************************************************************************)
(* The operator table of fuzzylite.factory.FunctionFactory and the         *)
(* infix-to-postfix algorithm of Function.infix_to_postfix, which the      *)
(* library uses both for Function formulas (C17) and for rule antecedents  *)
(* (C06, C16).  Tokens are strings; the input is the token sequence after   *)
(* format_infix has put spaces around operators, parentheses and commas.   *)
(***************************************************************************)
EXTENDS Integers, Sequences

\* documented table: unary ! ~ bind tightest, then ^ ** and the unary .- .+ (right-associative), then * / %,
\* then + -, then `and`, then `or` (left-associative)
OpT == [ not   |-> [sym |-> "!",   p |-> 100, right |-> TRUE,  arity |-> 1],
         neg   |-> [sym |-> "~",   p |-> 100, right |-> TRUE,  arity |-> 1],
         pow   |-> [sym |-> "^",   p |-> 90,  right |-> TRUE,  arity |-> 2],
         pow2  |-> [sym |-> "**",  p |-> 90,  right |-> TRUE,  arity |-> 2],
         uminus|-> [sym |-> ".-",  p |-> 90,  right |-> TRUE,  arity |-> 1],
         uplus |-> [sym |-> ".+",  p |-> 90,  right |-> TRUE,  arity |-> 1],
         mul   |-> [sym |-> "*",   p |-> 80,  right |-> FALSE, arity |-> 2],
         div   |-> [sym |-> "/",   p |-> 80,  right |-> FALSE, arity |-> 2],
         mod   |-> [sym |-> "%",   p |-> 80,  right |-> FALSE, arity |-> 2],
         add   |-> [sym |-> "+",   p |-> 70,  right |-> FALSE, arity |-> 2],
         sub   |-> [sym |-> "-",   p |-> 70,  right |-> FALSE, arity |-> 2],
         and   |-> [sym |-> "and", p |-> 60,  right |-> FALSE, arity |-> 2],
         or    |-> [sym |-> "or",  p |-> 50,  right |-> FALSE, arity |-> 2] ]
OpNames == DOMAIN OpT
OpSyms == { OpT[o].sym : o \in OpNames }
OpOf(tok) == CHOOSE o \in OpNames : OpT[o].sym = tok
Fun1 == {"acos", "asin", "atan", "ceil", "cos", "cosh", "exp", "abs", "fabs", "floor", "log", "log10", "round", "sin", "sinh",
         "sqrt", "tan", "tanh", "log1p", "acosh", "asinh", "atanh"}
Fun2 == {"gt", "ge", "eq", "neq", "le", "lt", "min", "max", "pow", "atan2", "fmod"}
Fun0 == {"pi"}
FunNames == Fun0 \cup Fun1 \cup Fun2
FunArity(f) == IF f \in Fun0 THEN 0 ELSE IF f \in Fun1 THEN 1 ELSE 2
IsFun(tok) == tok \in FunNames
IsOp(tok) == tok \in OpSyms
Registered(tok) == IsFun(tok) \/ IsOp(tok)
\* functions are registered with precedence 100, left-associative
PrecOf(tok) == IF IsOp(tok) THEN OpT[OpOf(tok)].p ELSE 100
IsOperand(tok) == ~Registered(tok) /\ tok \notin {"(", ")", ","}

Top(s) == s[Len(s)]
Pop(s) == SubSeq(s, 1, Len(s) - 1)
ERR == <<"#ERR">>

\* while the stack top is a registered element that binds at least as tight: pop it to the queue
RECURSIVE PopWhile(_,_,_)
PopWhile(stack, queue, tok) ==
  IF stack # <<>> /\ Registered(Top(stack))
     /\ LET e == OpT[OpOf(tok)] IN ((~e.right /\ e.p <= PrecOf(Top(stack))) \/ (e.right /\ e.p < PrecOf(Top(stack))))
  THEN PopWhile(Pop(stack), Append(queue, Top(stack)), tok)
  ELSE <<stack, queue>>
RECURSIVE PopToParen(_,_)
PopToParen(stack, queue) ==
  IF stack = <<>> THEN <<ERR, queue>>
  ELSE IF Top(stack) = "(" THEN <<stack, queue>>
  ELSE PopToParen(Pop(stack), Append(queue, Top(stack)))
RECURSIVE SY(_,_,_)
SY(toks, stack, queue) ==
  IF toks = <<>> THEN
     (IF stack = <<>> THEN queue
      ELSE IF Top(stack) \in {"(", ")"} THEN ERR
      ELSE SY(toks, Pop(stack), Append(queue, Top(stack))))
  ELSE LET k == Head(toks)  rest == Tail(toks) IN
    IF IsOperand(k) THEN SY(rest, stack, Append(queue, k))
    ELSE IF IsFun(k) THEN SY(rest, Append(stack, k), queue)
    ELSE IF k = "," THEN LET pq == PopToParen(stack, queue) IN IF pq[1] = ERR THEN ERR ELSE SY(rest, pq[1], pq[2])
    ELSE IF IsOp(k) THEN LET pq == PopWhile(stack, queue, k) IN SY(rest, Append(pq[1], k), pq[2])
    ELSE IF k = "(" THEN SY(rest, Append(stack, k), queue)
    ELSE \* ")"
         LET pq == PopToParen(stack, queue) IN
         IF pq[1] = ERR THEN ERR
         ELSE LET s2 == Pop(pq[1]) IN
              IF s2 # <<>> /\ IsFun(Top(s2)) THEN SY(rest, Pop(s2), Append(pq[2], Top(s2))) ELSE SY(rest, s2, pq[2])
InfixToPostfix(toks) == SY(toks, <<>>, <<>>)
=============================================================================
