SPECIFICATION Spec
CONSTANTS NaN = 99
  L = 3
  MaxSteps = 3
  Emit = TRUE
  DefaultFirst = FALSE
INVARIANT EmitInv
CHECK_DEADLOCK FALSE
