--------------------------- MODULE OutputVariable ---------------------------
(***************************************************************************)
(* The value state machine of fuzzylite.variable.OutputVariable (C12):     *)
(* value / previous value / fuzzy output under defuzzify(), clear(), direct *)
(* assignment, and the Engine.process() steps that touch it.                *)
(*                                                                         *)
(* The cascade depends on numbers only through order, equality and NaN-ness *)
(* so values are *ranks*: small integers, with the model constant NaN being *)
(* an integer outside the range of every rank.  Traces recorded from real   *)
(* doubles are mapped to ranks by an order isomorphism before TLC sees them *)
(* (DESIGN.md 3.6), which is exact for every operator of this module.       *)
(*                                                                         *)
(* Two definitions (DESIGN.md 3.5):                                         *)
(*  (a) Row / PerRow: the property's sentence, one row at a time            *)
(*  (b) Batch: the code of OutputVariable.defuzzify on a whole batch        *)
(*      (capture previous, nditer fill-forward on the raw batch, default    *)
(*      substitution, commit through the clipping setter).                  *)
(***************************************************************************)
EXTENDS Integers, Sequences

CONSTANT NaN            \* an integer that is not a rank

LastOf(s) == s[Len(s)]

\* cfg: [enabled, lockPrev, lockRange : BOOLEAN, def : rank or NaN, lo, hi : rank, hasDefuzz : BOOLEAN]
ClipTo(c, v) == IF v = NaN THEN NaN ELSE IF v < c.lo THEN c.lo ELSE IF v > c.hi THEN c.hi ELSE v
Commit(c, v) == IF c.lockRange THEN ClipTo(c, v) ELSE v       \* Variable.value setter

(* (a) the documented cascade for one row; `carried` is the most recent value of the variable *)
Row(c, raw, carried) ==
  LET a == IF raw = NaN /\ c.lockPrev THEN carried ELSE raw
      b == IF a = NaN /\ c.def # NaN THEN c.def ELSE a
  IN Commit(c, b)
RECURSIVE PerRow(_,_,_)
PerRow(c, raws, carried) ==
  IF raws = <<>> THEN <<>>
  ELSE LET v == Row(c, Head(raws), carried) IN <<v>> \o PerRow(c, Tail(raws), v)

(* (b) OutputVariable.defuzzify on the whole raw batch *)
RECURSIVE Fill(_,_)
Fill(raw, p) ==                                   \* the nditer loop
  IF raw = <<>> THEN <<>>
  ELSE IF Head(raw) = NaN THEN <<p>> \o Fill(Tail(raw), p)
       ELSE <<Head(raw)>> \o Fill(Tail(raw), Head(raw))
Batch(c, raw, last) ==
  LET f == IF c.lockPrev THEN Fill(raw, last) ELSE raw
      d == [i \in 1..Len(f) |-> IF f[i] = NaN /\ c.def # NaN THEN c.def ELSE f[i]]
  IN [i \in 1..Len(d) |-> Commit(c, d[i])]

VARIABLES cfg,      \* configuration record (constant along a behaviour except `enabled`)
          value,    \* sequence of ranks: the value held (length 1 = scalar, >1 = batch)
          prev,     \* previous_value
          nfuzzy,   \* number of activated terms in the fuzzy output
          act       \* name of the last action (observation label, not state of the library)
ovars == <<cfg, value, prev, nfuzzy, act>>

OVInit(c) == cfg = c /\ value = <<NaN>> /\ prev = NaN /\ nfuzzy = 0 /\ act = "Init"

(* defuzzify() when enabled, a defuzzifier is configured and it returns `raw` *)
Defuzzify(raw) ==
  /\ cfg.enabled /\ cfg.hasDefuzz /\ raw # <<>>
  /\ prev'  = LastOf(value)
  /\ value' = Batch(cfg, raw, LastOf(value))
  /\ act' = "Defuzzify"
  /\ UNCHANGED <<cfg, nfuzzy>>
(* defuzzify() when the defuzzifier raises, or when none is configured (ValueError): nothing changes *)
DefuzzifyRaises ==
  /\ cfg.enabled
  /\ act' = "Raise"
  /\ UNCHANGED <<cfg, value, prev, nfuzzy>>
(* defuzzify() on a disabled variable: returns silently, nothing changes *)
DefuzzifyDisabled ==
  /\ ~cfg.enabled
  /\ act' = "Disabled"
  /\ UNCHANGED <<cfg, value, prev, nfuzzy>>
(* clear(): Engine.restart() *)
Clear ==
  /\ value' = <<Commit(cfg, NaN)>> /\ prev' = NaN /\ nfuzzy' = 0
  /\ act' = "Clear" /\ UNCHANGED cfg
(* fuzzy.clear(): first step of Engine.process() *)
FuzzyClear == nfuzzy' = 0 /\ act' = "FuzzyClear" /\ UNCHANGED <<cfg, value, prev>>
(* a rule conclusion appends one activated term *)
AddTerm == nfuzzy' = nfuzzy + 1 /\ act' = "AddTerm" /\ UNCHANGED <<cfg, value, prev>>
(* direct assignment variable.value = v goes through the clipping setter *)
Assign(v) == value' = <<Commit(cfg, v)>> /\ act' = "Assign" /\ UNCHANGED <<cfg, prev, nfuzzy>>
SetEnabled(b) == cfg' = [cfg EXCEPT !.enabled = b] /\ act' = "SetEnabled" /\ UNCHANGED <<value, prev, nfuzzy>>
=============================================================================
