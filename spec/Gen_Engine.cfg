SPECIFICATION Spec
INVARIANT DegreesStored
INVARIANT TriggeredPositive
INVARIANT NoDisabledContribution
INVARIANT RangeLocked
INVARIANT IntegralInRange
INVARIANT EmitInv
CHECK_DEADLOCK FALSE
