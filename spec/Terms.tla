-------------------------------- MODULE Terms --------------------------------
(***************************************************************************)
(* Membership functions of the linguistic terms of fuzzylite.term (C03) and *)
(* their Tsukamoto inverses (C11), transcribed from the documented          *)
(* equations.                                                               *)
(*                                                                         *)
(* A term is a record [k |-> kind, p |-> <<parameters>>, h |-> height] with *)
(* XReal parameters in constructor order (Discrete: x1,y1,x2,y2,...).       *)
(*                                                                         *)
(* Positions.  x is an *infinitesimally shifted point* <<q, e>>, q an XReal *)
(* and e in {-1,0,1}, ordered lexicographically.  Every documented case     *)
(* analysis compares x with breakpoints only, so the piece chosen at        *)
(* <<b,+1>> is the piece any double strictly between b and the next         *)
(* breakpoint (e.g. nextafter(b)) must fall in.                             *)
(*                                                                         *)
(* Environments.  The *formula* of the selected piece is built over an      *)
(* environment env = [x, p, h] of kernel expressions.  With ValEnv the      *)
(* leaves are the exact values and the result folds to an exact number      *)
(* whenever it is rational; with SymEnv the leaves are the symbols          *)
(* <<"x">>, <<"p",i>>, <<"h">> and the result is the closed form that the   *)
(* harness evaluates at the very doubles the implementation received.       *)
(* Both come from the same text below.                                      *)
(***************************************************************************)
EXTENDS KExpr

\* ---- positions ------------------------------------------------------------
P(q, e) == <<q, e>>
PLt(x, b) == Lt(x[1], b) \/ (Eq(x[1], b) /\ x[2] < 0)
PGt(x, b) == Gt(x[1], b) \/ (Eq(x[1], b) /\ x[2] > 0)
PLe(x, b) == ~IsNaN(x[1]) /\ ~IsNaN(b) /\ ~PGt(x, b)
PGe(x, b) == ~IsNaN(x[1]) /\ ~IsNaN(b) /\ ~PLt(x, b)
PEq(x, b) == Eq(x[1], b) /\ x[2] = 0
PFinite(x) == IsFin(x[1])

\* ---- environments ----------------------------------------------------------
ValEnv(t, x) == [x |-> KQ(x[1]), p |-> [i \in 1..Len(t.p) |-> KQ(t.p[i])], h |-> KQ(t.h)]
SymEnv(t)    == [x |-> <<"x">>, p |-> [i \in 1..Len(t.p) |-> <<"p", i>>], h |-> <<"h">>]

R(piece, v) == [piece |-> piece, v |-> v]
K0 == KQ(Zero)
K1 == KQ(One)
K2 == KQ(Two)
KHalf == KQ(Half)
KSq(e) == KMul(e, e)

\* building blocks shared by several terms (height 1)
SShapeF(env, s, e, x, ps, pe) ==      \* s, e exact; ps, pe the environment's expressions for them
  LET m == Mul(Half, Add(s, e)) IN
  IF PLe(x, s) THEN R("zero", K0)
  ELSE IF PLe(x, m) THEN R("lower", KMul(K2, KSq(KDiv(KSub(env.x, ps), KSub(pe, ps)))))
  ELSE IF PLt(x, e) THEN R("upper", KSub(K1, KMul(K2, KSq(KDiv(KSub(env.x, pe), KSub(pe, ps))))))
  ELSE R("one", K1)
ZShapeF(env, s, e, x, ps, pe) ==
  LET m == Mul(Half, Add(s, e)) IN
  IF PLe(x, s) THEN R("one", K1)
  ELSE IF PLt(x, m) THEN R("upper", KSub(K1, KMul(K2, KSq(KDiv(KSub(env.x, ps), KSub(pe, ps))))))
  ELSE IF PLt(x, e) THEN R("lower", KMul(K2, KSq(KDiv(KSub(env.x, pe), KSub(pe, ps)))))
  ELSE R("zero", K0)
GaussF(env, pm, psd) ==                \* exp(-(x-m)^2 / (2 sd^2))
  KExp(KNeg(KDiv(KSq(KSub(env.x, pm)), KMul(K2, KSq(psd)))))
SigmoidF(env, pi, ps) ==               \* 1 / (1 + exp(-s (x - i)))
  KDiv(K1, KAdd(K1, KExp(KNeg(KMul(ps, KSub(env.x, pi))))))

RECURSIVE DiscreteF(_,_,_,_)
DiscreteF(t, env, x, i) ==             \* numpy.interp over the points (p[2j-1], p[2j]); i = index of the segment's left point
  LET n == Len(t.p) \div 2 IN
  IF PLe(x, t.p[1]) THEN R("left", env.p[2])
  ELSE IF PGe(x, t.p[2*n - 1]) THEN R("right", env.p[2*n])
  ELSE IF PLt(x, t.p[2*i + 1]) \/ i = n - 1
       THEN IF PEq(x, t.p[2*i - 1]) THEN R("knot", env.p[2*i])
            ELSE R("segment",
                   KAdd(env.p[2*i], KMul(KDiv(KSub(env.p[2*i + 2], env.p[2*i]), KSub(env.p[2*i + 1], env.p[2*i - 1])),
                                         KSub(env.x, env.p[2*i - 1]))))
       ELSE DiscreteF(t, env, x, i + 1)

\* ---- the unscaled, NaN-free definition: result is [piece, v] with v the value *before* the height factor
\*      (Constant: the value itself) --------------------------------------------------------------------
Shape(t, x, env) ==
  LET p == t.p   q == env.p IN
  CASE t.k = "Triangle" ->
         LET a == p[1]  b == p[2]  c == p[3] IN
         IF PLt(x, a) \/ PGt(x, c) THEN R("zero", K0)
         ELSE IF PEq(x, b) \/ (a = NInf /\ PLt(x, b)) \/ (c = PInf /\ PGt(x, b)) THEN R("one", K1)
         ELSE IF PLt(x, b) THEN R("rise", KDiv(KSub(env.x, q[1]), KSub(q[2], q[1])))
         ELSE R("fall", KDiv(KSub(q[3], env.x), KSub(q[3], q[2])))
    [] t.k = "Trapezoid" ->
         LET a == p[1]  b == p[2]  c == p[3]  d == p[4] IN
         IF PLt(x, a) \/ PGt(x, d) THEN R("zero", K0)
         ELSE IF PLt(x, b) /\ a # NInf THEN R("rise", KDiv(KSub(env.x, q[1]), KSub(q[2], q[1])))
         ELSE IF (PGe(x, b) /\ PLe(x, c)) \/ (a = NInf /\ PLt(x, b)) \/ (d = PInf /\ PGt(x, c)) THEN R("one", K1)
         ELSE R("fall", KDiv(KSub(q[4], env.x), KSub(q[4], q[3])))
    [] t.k = "Rectangle" ->
         LET s == XMin(p[1], p[2])  e == XMax(p[1], p[2]) IN
         IF PGe(x, s) /\ PLe(x, e) THEN R("one", K1) ELSE R("zero", K0)
    [] t.k = "Ramp" ->
         LET s == p[1]  e == p[2] IN
         IF Lt(s, e) THEN (IF PGt(x, s) /\ PLt(x, e) THEN R("rise", KDiv(KSub(env.x, q[1]), KSub(q[2], q[1])))
                           ELSE IF PGe(x, e) THEN R("one", K1) ELSE R("zero", K0))
         ELSE (IF PGt(x, e) /\ PLt(x, s) THEN R("fall", KDiv(KSub(q[1], env.x), KSub(q[1], q[2])))
               ELSE IF PLe(x, e) THEN R("one", K1) ELSE R("zero", K0))
    [] t.k = "Binary" ->
         LET s == p[1]  d == p[2] IN
         IF (d = PInf /\ PGe(x, s)) \/ (d = NInf /\ PLe(x, s)) THEN R("one", K1) ELSE R("zero", K0)
    [] t.k = "Concave" ->
         LET i == p[1]  e == p[2] IN
         IF Le(i, e) /\ PLt(x, e) THEN R("inc", KDiv(KSub(q[2], q[1]), KSub(KSub(KMul(K2, q[2]), q[1]), env.x)))
         ELSE IF Gt(i, e) /\ PGt(x, e) THEN R("dec", KDiv(KSub(q[1], q[2]), KAdd(KSub(q[1], KMul(K2, q[2])), env.x)))
         ELSE R("one", K1)
    [] t.k = "SShape" -> SShapeF(env, p[1], p[2], x, q[1], q[2])
    [] t.k = "ZShape" -> ZShapeF(env, p[1], p[2], x, q[1], q[2])
    [] t.k = "PiShape" ->
         LET s == SShapeF(env, p[1], p[2], x, q[1], q[2])
             z == ZShapeF(env, p[3], p[4], x, q[3], q[4])
         IN R(s.piece \o "*" \o z.piece, KMul(s.v, z.v))
    [] t.k = "Gaussian" -> R("gauss", GaussF(env, q[1], q[2]))
    [] t.k = "GaussianProduct" ->
         LET a == IF PLt(x, p[1]) THEN GaussF(env, q[1], q[2]) ELSE K1
             b == IF PGt(x, p[3]) THEN GaussF(env, q[3], q[4]) ELSE K1
         IN R(IF PLt(x, p[1]) THEN "left" ELSE IF PGt(x, p[3]) THEN "right" ELSE "top", KMul(a, b))
    [] t.k = "Bell" ->      \* 1 / (1 + (|x-c|/w)^(2s))
         R("bell", KDiv(K1, KAdd(K1, KPowQ(KDiv(KAbs(KSub(env.x, q[1])), q[2]), Mul(Two, p[3])))))
    [] t.k = "Cosine" ->
         LET c == p[1]  w == p[2]  lo == Sub(c, Mul(Half, w))  hi == Add(c, Mul(Half, w)) IN
         IF PFinite(x) /\ PGe(x, lo) /\ PLe(x, hi)
         THEN R("cos", KMul(KHalf, KAdd(K1, KCos(KMul(KMul(KDiv(K2, q[2]), KPi), KSub(env.x, q[1]))))))
         ELSE R("zero", K0)
    [] t.k = "Spike" -> R("spike", KExp(KNeg(KAbs(KMul(KDiv(KQ(I(10)), q[2]), KSub(env.x, q[1]))))))
    [] t.k = "Sigmoid" -> R("sigmoid", SigmoidF(env, q[1], q[2]))
    [] t.k = "SigmoidDifference" ->     \* left, rising, falling, right
         R("sigdiff", KSub(SigmoidF(env, q[1], q[2]), SigmoidF(env, q[4], q[3])))
    [] t.k = "SigmoidProduct" ->
         R("sigprod", KMul(SigmoidF(env, q[1], q[2]), SigmoidF(env, q[4], q[3])))
    [] t.k = "Arc" ->                   \* centre = end, radius = end - start
         LET s == p[1]  e == p[2]
             f == KDiv(KSqrt(KSub(KSq(KSub(q[2], q[1])), KSq(KSub(env.x, q[2])))), KAbs(KSub(q[2], q[1])))
         IN IF Lt(s, e) THEN (IF PLt(x, s) THEN R("zero", K0) ELSE IF PGt(x, e) THEN R("one", K1) ELSE R("arc", f))
            ELSE (IF PGt(x, s) THEN R("zero", K0) ELSE IF PLt(x, e) THEN R("one", K1) ELSE R("arc", f))
    [] t.k = "SemiEllipse" ->
         LET s == XMin(p[1], p[2])  e == XMax(p[1], p[2])
             qs == IF Le(p[1], p[2]) THEN q[1] ELSE q[2]
             qe == IF Le(p[1], p[2]) THEN q[2] ELSE q[1]
             r == KDiv(KSub(qe, qs), K2)
             c == KDiv(KAdd(qs, qe), K2)
         IN IF PGe(x, s) /\ PLe(x, e) THEN R("ellipse", KDiv(KSqrt(KSub(KSq(r), KSq(KSub(env.x, c)))), r))
            ELSE R("zero", K0)
    [] t.k = "Discrete" -> DiscreteF(t, env, x, 1)
    [] t.k = "Constant" -> R("constant", q[1])

\* membership value: NaN mask first, then the height factor (Constant has no height)
\* Constant is "mu(x) = k" for every x, NaN included (x is irrelevant, as for Linear)
Mu(t, x, env) ==
  IF t.k = "Constant" THEN Shape(t, x, env)
  ELSE IF IsNaN(x[1]) THEN R("nan", KQ(NaN))
  ELSE LET s == Shape(t, x, env) IN R(s.piece, KMul(env.h, s.v))

\* exact value at a standard point, or Irr when it is not rational (engine-level models)
MuX(t, xq) == IF IsBad(xq) THEN xq ELSE LET e == Mu(t, P(xq, 0), ValEnv(t, P(xq, 0))).v IN IF IsQ(e) THEN QV(e) ELSE Irr

\* ---- structural facts -------------------------------------------------------------------
MonotonicKinds == {"Arc", "Concave", "Ramp", "Sigmoid", "SShape", "ZShape"}
IsMonotonic(t) == t.k \in MonotonicKinds
\* direction of a monotonic term: +1 non-decreasing in x, -1 non-increasing
Direction(t) ==
  CASE t.k \in {"Arc", "Ramp", "Concave"} -> IF Lt(t.p[1], t.p[2]) THEN 1 ELSE -1
    [] t.k = "SShape" -> 1
    [] t.k = "ZShape" -> -1
    [] t.k = "Sigmoid" -> IF Gt(t.p[2], Zero) THEN 1 ELSE -1

\* breakpoints of the case analysis (including derived ones) plus points of interest, as a set of XReals
Breakpoints(t) ==
  LET p == t.p IN
  CASE t.k \in {"Triangle", "Trapezoid", "Rectangle", "Ramp", "Concave", "Arc"} -> { p[i] : i \in 1..Len(p) }
    [] t.k = "Binary" -> { p[1] }
    [] t.k \in {"SShape", "ZShape", "SemiEllipse"} -> { p[1], p[2], Mul(Half, Add(p[1], p[2])) }
    [] t.k = "PiShape" -> { p[1], p[2], p[3], p[4], Mul(Half, Add(p[1], p[2])), Mul(Half, Add(p[3], p[4])) }
    [] t.k = "Gaussian" -> { p[1], Sub(p[1], p[2]), Add(p[1], p[2]) }
    [] t.k = "GaussianProduct" -> { p[1], p[3] }
    [] t.k = "Bell" -> { p[1], Sub(p[1], p[2]), Add(p[1], p[2]) }
    [] t.k = "Cosine" -> { p[1], Sub(p[1], Mul(Half, p[2])), Add(p[1], Mul(Half, p[2])) }
    [] t.k = "Spike" -> { p[1], Sub(p[1], Div(p[2], I(10))), Add(p[1], Div(p[2], I(10))) }
    [] t.k = "Sigmoid" -> { p[1] }
    [] t.k \in {"SigmoidDifference", "SigmoidProduct"} -> { p[1], p[4] }
    [] t.k = "Discrete" -> { p[2*i - 1] : i \in 1..(Len(p) \div 2) }
    [] t.k = "Constant" -> { Zero }

\* ---- Tsukamoto inverse: the point where the monotonic term reaches the degree y (C11) -----------
\* env: [x |-> expression of y, p, h]
Tsukamoto(t, y, env) ==
  LET p == t.p   q == env.p   h == t.h IN
  CASE t.k = "Ramp" -> R("ramp", KAdd(q[1], KDiv(KMul(KSub(q[2], q[1]), env.x), env.h)))
    [] t.k = "Concave" -> R("concave", KSub(KAdd(KDiv(KMul(env.h, KSub(q[1], q[2])), env.x), KMul(K2, q[2])), q[1]))
    [] t.k = "SShape" ->
         IF Le(y, Mul(Half, h)) THEN R("lower", KAdd(q[1], KMul(KSub(q[2], q[1]), KSqrt(KDiv(env.x, KMul(K2, env.h))))))
         ELSE R("upper", KSub(q[2], KMul(KSub(q[2], q[1]), KSqrt(KDiv(KSub(env.h, env.x), KMul(K2, env.h))))))
    [] t.k = "ZShape" ->
         IF Le(y, Mul(Half, h)) THEN R("lower", KSub(q[2], KMul(KSub(q[2], q[1]), KSqrt(KDiv(env.x, KMul(K2, env.h))))))
         ELSE R("upper", KAdd(q[1], KMul(KSub(q[2], q[1]), KSqrt(KDiv(KSub(env.h, env.x), KMul(K2, env.h))))))
    [] t.k = "Sigmoid" -> R("sigmoid", KAdd(q[1], KDiv(KLog(KSub(KDiv(env.h, env.x), K1)), KNeg(q[2]))))
    [] t.k = "Arc" ->      \* x = c -+ sqrt(r^2 - (y r / h)^2), centre = end; towards the start
         LET r == KSub(q[2], q[1])
             root == KSqrt(KSub(KSq(r), KSq(KDiv(KMul(env.x, r), env.h))))
         IN IF Lt(p[1], p[2]) THEN R("arc", KSub(q[2], root)) ELSE R("arc", KAdd(q[2], root))
=============================================================================
