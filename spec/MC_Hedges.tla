------------------------------ MODULE MC_Hedges ------------------------------
(* C05: every hedge on the dyadic grid k/G plus the neighbourhood of the branch point 1/2 *)
EXTENDS Hedges, TLC, Json
CONSTANTS G, Emit
Grid == { Q(k, G) : k \in 0..G }
VARIABLES h, x
vars == <<h, x>>
Init == h \in HedgeNames /\ x \in Grid
Next == UNCHANGED vars
Spec == Init /\ [][Next]_vars
E == H(h, x)
In01(v) == Le(Zero, v) /\ Le(v, One)
\* the invariants are stated where the value is exact; the sqrt hedges are characterised by their inverse relations
RangeOK == IsQ(E) => In01(QV(E))
FixedPoints == /\ (h \notin {"not", "any"} => H(h, Zero) = KQ(Zero) /\ H(h, One) = KQ(One))
               /\ H("not", Zero) = KQ(One) /\ H("not", One) = KQ(Zero)
               /\ H("any", x) = KQ(One)
MonotoneQ == \A y \in Grid : (Le(x, y) /\ IsQ(H(h, x)) /\ IsQ(H(h, y))) =>
                 IF h = "not" THEN Ge(QV(H(h, x)), QV(H(h, y))) ELSE Le(QV(H(h, x)), QV(H(h, y)))
VeryBelowId == Le(QV(H("very", x)), x)
SomewhatAboveId == IsQ(H("somewhat", x)) => Ge(QV(H("somewhat", x)), x)
\* very and somewhat, extremely and seldom are mutual inverses (checked through the rational direction:
\* somewhat(very(x)) = x and seldom(extremely(x)) = x always have exact roots on the grid)
Inverses == /\ H("somewhat", QV(H("very", x))) = KQ(x)
            /\ H("seldom", QV(H("extremely", x))) = KQ(x)
            /\ (IsQ(H("somewhat", x)) => H("very", QV(H("somewhat", x))) = KQ(x))
            /\ (IsQ(H("seldom", x)) => H("extremely", QV(H("seldom", x))) = KQ(x))
NotInvolutive == H("not", QV(H("not", x))) = KQ(x)
NaNRule == \A n \in HedgeNames \ {"any"} : H(n, NaN) = KQ(NaN)
EmitInv == Emit => PrintT(ToJson([h |-> h, x |-> x, e |-> E]))
=============================================================================
