------------------------------ MODULE MC_Lifecycle ------------------------------
(* C13: processing is history-free; restart and copy give clean, independent engines.
   Instances are pairs (description, state) of Engine.tla; `cur` is the instance operated on.  Actions: set
   inputs, process, restart, copy-and-switch, edit a parameter of the current instance (a rule weight),
   toggle a rule's enabled flag.  Every behaviour of MaxSteps actions is enumerated; history variables make
   each final state one complete behaviour for the replay on real engines. *)
EXTENDS Engine, TLC, Json, IOUtils
CONSTANTS MaxSteps, MaxInst, Emit,
          SkipClear,     \* canary: a process() that does not clear the fuzzy outputs first
          EditMode       \* TRUE: behaviours built around one edit of the configuration taken from the case's list `edits`
Cases == JsonDeserialize(IOEnv.VERIF_CASES)
VARIABLES cid, inst, cur, steps, expect, ek
vars == <<cid, inst, cur, steps, expect, ek>>
C == Cases[cid]
Proc(E, st) == IF SkipClear THEN Defuzz(E, Blocks(E, st, 1), 1) ELSE Process(E, st)
ObsAll(ii) == [i \in 1..Len(ii) |-> [in |-> ii[i].st.inval, obs |-> Observe(ii[i].E, ii[i].st)]]
Log(a, arg) == steps' = Append(steps, [act |-> a, arg |-> arg]) /\ expect' = Append(expect, [cur |-> cur', inst |-> ObsAll(inst')])
Upd(f(_)) == inst' = [inst EXCEPT ![cur] = f(@)]
\* ---- edits of the configuration after first use (EditMode): one edit per behaviour, applied and taken back as a toggle -----
\* ed = [kind, a, b, c, x, ox (XReal: new / original), s, os (string: new / original), n, on (integer: new / original)]
Flip(cur_, new, orig) == IF cur_ = new THEN orig ELSE new
ApplyEdit(E, ed) ==
  CASE ed.kind = "weight"     -> [E EXCEPT !.blocks[ed.a].rules[ed.b].weight = Flip(@, ed.x, ed.ox)]
    [] ed.kind = "oterm-p"    -> [E EXCEPT !.outputs[ed.a].terms[ed.b].p[ed.c] = Flip(@, ed.x, ed.ox)]
    [] ed.kind = "iterm-p"    -> [E EXCEPT !.inputs[ed.a].terms[ed.b].p[ed.c] = Flip(@, ed.x, ed.ox)]
    [] ed.kind = "threshold"  -> [E EXCEPT !.blocks[ed.a].activation.threshold = Flip(@, ed.x, ed.ox)]
    [] ed.kind = "comparator" -> [E EXCEPT !.blocks[ed.a].activation.comparator = Flip(@, ed.s, ed.os)]
    [] ed.kind = "act-rules"  -> [E EXCEPT !.blocks[ed.a].activation.rules = Flip(@, ed.n, ed.on)]
    [] ed.kind = "implication" -> [E EXCEPT !.blocks[ed.a].implication = Flip(@, ed.s, ed.os)]
    [] ed.kind = "conjunction" -> [E EXCEPT !.blocks[ed.a].conjunction = Flip(@, ed.s, ed.os)]
    [] ed.kind = "aggregation" -> [E EXCEPT !.outputs[ed.a].aggregation = Flip(@, ed.s, ed.os)]
    [] ed.kind = "defuzz-type" -> [E EXCEPT !.outputs[ed.a].defuzzifier.type = Flip(@, ed.s, ed.os)]
    [] ed.kind = "defuzz-res"  -> [E EXCEPT !.outputs[ed.a].defuzzifier.resolution = Flip(@, ed.n, ed.on)]
    [] ed.kind = "defuzz-cls"  -> [E EXCEPT !.outputs[ed.a].defuzzifier.cls = Flip(@, ed.s, ed.os)]
    [] ed.kind = "out-enabled" -> [E EXCEPT !.outputs[ed.a].enabled = ~@]
    [] ed.kind = "in-enabled"  -> [E EXCEPT !.inputs[ed.a].enabled = ~@]
    [] ed.kind = "block-enabled" -> [E EXCEPT !.blocks[ed.a].enabled = ~@]
    [] ed.kind = "swap-enabled" -> [E EXCEPT !.blocks[ed.a].rules[ed.b].enabled = ~@, !.blocks[ed.a].rules[ed.c].enabled = ~@]
    [] ed.kind = "lock-previous" -> [E EXCEPT !.outputs[ed.a].lockPrev = ~@]
    \* locking the range of an input, or moving its bound, does not touch the value the variable already holds: a value is
    \* clipped when it is assigned (SetInputs), and only then
    [] ed.kind = "in-lock-range" -> [E EXCEPT !.inputs[ed.a].lockRange = ~@]
    [] ed.kind = "in-max"      -> [E EXCEPT !.inputs[ed.a].max = Flip(@, ed.x, ed.ox)]
    [] ed.kind = "default"    -> [E EXCEPT !.outputs[ed.a].default = Flip(@, ed.x, ed.ox)]
Init == cid \in 1..Len(Cases) /\ ek \in (IF EditMode THEN 1..Len(Cases[cid].edits) ELSE {0}) /\ inst = << [E |-> Cases[cid].engine, st |-> Fresh(Cases[cid].engine)] >> /\ cur = 1 /\ steps = <<>> /\ expect = <<>>
DoSet     == \E r \in 1..Len(C.rows) : Upd(LAMBDA x : [x EXCEPT !.st = SetInputs(x.E, x.st, C.rows[r])]) /\ UNCHANGED cur /\ Log("set", r)
DoSetRow(r) == Upd(LAMBDA x : [x EXCEPT !.st = SetInputs(x.E, x.st, C.rows[r])]) /\ UNCHANGED cur /\ Log("set", r)
DoProcess == Upd(LAMBDA x : [x EXCEPT !.st = Proc(x.E, x.st)]) /\ UNCHANGED cur /\ Log("process", 0)
\* restart: inputs NaN, outputs and fuzzy outputs cleared, every rule reloaded
Reloaded(E) == [E EXCEPT !.blocks = [b \in 1..Len(E.blocks) |-> [E.blocks[b] EXCEPT !.rules = [i \in 1..Len(E.blocks[b].rules) |-> [E.blocks[b].rules[i] EXCEPT !.loaded = TRUE]]]]]
DoRestart == Upd(LAMBDA x : [E |-> Reloaded(x.E), st |-> Fresh(x.E)]) /\ UNCHANGED cur /\ Log("restart", 0)
\* unload the first rule of the first block (rule.unload())
DoUnload  == Upd(LAMBDA x : [x EXCEPT !.E.blocks[1].rules[1].loaded = FALSE, !.st.deg[1][1] = Zero, !.st.trig[1][1] = FALSE]) /\ UNCHANGED cur /\ Log("unload", 0)
DoCopy    == Len(inst) < MaxInst /\ inst' = Append(inst, inst[cur]) /\ cur' = Len(inst) + 1 /\ Log("copy", 0)
DoSwitch  == \E j \in 1..Len(inst) : j # cur /\ cur' = j /\ UNCHANGED inst /\ Log("switch", j)
\* edit: the weight of the first rule of the first block becomes 1/2 (or back to 1)
DoEdit    == Upd(LAMBDA x : [x EXCEPT !.E.blocks[1].rules[1].weight = IF @ = One THEN Half ELSE One]) /\ UNCHANGED cur /\ Log("edit", 0)
\* toggle the enabled flag of the last rule of the first block
DoToggle  == Upd(LAMBDA x : [x EXCEPT !.E.blocks[1].rules[Len(x.E.blocks[1].rules)].enabled = ~@]) /\ UNCHANGED cur /\ Log("toggle", 0)
DoEditK   == Upd(LAMBDA x : [x EXCEPT !.E = ApplyEdit(x.E, C.edits[ek])]) /\ UNCHANGED cur /\ Log("edit-k", ek)
Next == /\ Len(steps) < MaxSteps /\ UNCHANGED <<cid, ek>>
        /\ IF EditMode THEN (IF steps = <<>> THEN DoSetRow(1) ELSE (DoSetRow(2) \/ DoProcess \/ DoRestart \/ DoCopy \/ DoEditK))
           ELSE (DoSet \/ DoProcess \/ DoRestart \/ DoCopy \/ DoSwitch \/ DoEdit \/ DoToggle \/ DoUnload)
Spec == Init /\ [][Next]_vars

LastAct == IF steps = <<>> THEN "none" ELSE steps[Len(steps)].act
NoLock(E) == \A o \in 1..Len(E.outputs) : ~E.outputs[o].lockPrev
\* with lock-previous off the outputs of a processing step depend only on the inputs of that step
HistoryFree == (LastAct = "process" /\ NoLock(inst[cur].E)) =>
   \* the reference starts from a fresh state holding the input values as the variables hold them now (a value is clipped when it is
   \* assigned, not when the range is locked or moved afterwards)
   LET x == inst[cur]  ref == Process(x.E, [Fresh(x.E) EXCEPT !.inval = x.st.inval]) IN
   \* (a disabled output variable keeps the value it had, C12; the rules of a disabled block are not evaluated)
   /\ \A o \in 1..Len(x.E.outputs) : x.E.outputs[o].enabled => x.st.outval[o] = ref.outval[o]
   /\ x.st.fuzzy = ref.fuzzy
   /\ \A b \in 1..Len(x.E.blocks) : x.E.blocks[b].enabled => x.st.deg[b] = ref.deg[b]
\* after restart the instance is indistinguishable from a freshly built one
RestartIsFresh == LastAct = "restart" => (inst[cur].st = Fresh(inst[cur].E) /\ inst[cur].E = Reloaded(inst[cur].E))
\* operating or editing one instance never changes another
Independent == [][\A i \in 1..Len(inst) : (i # cur /\ i <= Len(inst')) => inst'[i] = inst[i]]_vars
\* a copy starts as an exact duplicate
CopyIdentical == LastAct = "copy" => \E j \in 1..(Len(inst) - 1) : inst[Len(inst)] = inst[j]
EmitInv == (Emit /\ Len(steps) = MaxSteps) => PrintT(ToJson([cid |-> C.id, steps |-> steps, expect |-> expect]))
View == <<cid, inst, cur, Len(steps), ek>>
=============================================================================
