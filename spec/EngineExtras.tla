---------------------------- MODULE EngineExtras ----------------------------
(***************************************************************************)
(* Behaviour of the library around the inference pipeline that no listed   *)
(* property names, specified over the same engine descriptions as          *)
(* Engine.tla (growth of the specification, DESIGN.md section 10.6):       *)
(*   EngineType(E)            Engine.infer_type: the kind of engine        *)
(*   Fuzzify(var, x)          Variable.fuzzify: degree of every term at x  *)
(*   HighestMembership(v, x)  Variable.highest_membership                  *)
(*   HighestActivated(...)    Aggregated.highest_activated_term            *)
(*   Discretize(t, ...)       Term.discretize                              *)
(***************************************************************************)
EXTENDS Engine

\* type a weighted defuzzifier infers from the terms of a variable: the common type, Automatic when there is none, an error for a mixture
VarType(v) == LET ts == { TermType(v.terms[i]) : i \in 1..Len(v.terms) } IN
              IF ts = {} THEN "Automatic" ELSE IF Cardinality(ts) = 1 THEN CHOOSE x \in ts : TRUE ELSE "error"
IsIntegral(v) == v.defuzzifier.cls \in IntegralDefuzzifiers
IsWeighted(v) == v.defuzzifier.cls \in {"WeightedAverage", "WeightedSum"}
\* Engine.infer_type, in the order of its documentation: Unknown (no outputs), Larsen, Mamdani, TakagiSugeno, Tsukamoto,
\* InverseTsukamoto, Hybrid, Unknown (an output without defuzzifier); "TypeError" when a weighted output mixes kinds of terms
EngineType(E) ==
  LET outs == E.outputs  n == Len(outs)
      allw(ty) == \A o \in 1..n : IsWeighted(outs[o]) /\ VarType(outs[o]) = ty
      \* the checks run in order and stop at the first that holds: a mixture is met only if an earlier weighted output did not decide
      mixedBefore(ty) == \E o \in 1..n : IsWeighted(outs[o]) /\ VarType(outs[o]) = "error"
                                         /\ \A q \in 1..(o - 1) : IsWeighted(outs[q]) /\ VarType(outs[q]) = ty
  IN IF n = 0 THEN "Unknown"
     ELSE IF \A o \in 1..n : IsIntegral(outs[o]) THEN
          (IF E.blocks # <<>> /\ \A b \in 1..Len(E.blocks) : E.blocks[b].implication = "AlgebraicProduct" THEN "Larsen" ELSE "Mamdani")
     ELSE IF mixedBefore("TakagiSugeno") THEN "TypeError"
     ELSE IF allw("TakagiSugeno") THEN "TakagiSugeno"
     ELSE IF mixedBefore("Tsukamoto") THEN "TypeError"
     ELSE IF allw("Tsukamoto") THEN "Tsukamoto"
     ELSE IF mixedBefore("Automatic") THEN "TypeError"
     ELSE IF allw("Automatic") THEN "InverseTsukamoto"
     ELSE IF \A o \in 1..n : outs[o].defuzzifier.cls # "none" THEN "Hybrid"
     ELSE "Unknown"

\* Variable.fuzzify(x): one (degree, term) pair per term, in order
\* (each pair is an Activated term: its degree setter stores NaN and -inf as 0, +inf as 1)
Fuzzify(v, x) == [i \in 1..Len(v.terms) |-> [term |-> v.terms[i].name, degree |-> NanToNum01(MuX(v.terms[i], x))]]
\* Variable.highest_membership(x): the first term with the largest positive degree (none when no degree is positive)
HighestMembership(v, x) ==
  LET f == Fuzzify(v, x)
      pos == { i \in 1..Len(f) : Gt(f[i].degree, Zero) }
  IN IF pos = {} THEN [term |-> "", degree |-> Zero]
     ELSE LET best == CHOOSE i \in pos : \A j \in pos : Ge(f[i].degree, f[j].degree) /\ (Eq(f[i].degree, f[j].degree) => i <= j)
          IN f[best]
\* Aggregated.highest_activated_term(): over the grouped activations
HighestActivated(acts, aggr) ==
  LET g == GroupedTerms(acts, aggr)
      pos == { i \in 1..Len(g) : Gt(g[i].degree, Zero) }
  IN IF \E i \in 1..Len(g) : IsBad(g[i].degree) THEN [term |-> "", degree |-> g[CHOOSE i \in 1..Len(g) : IsBad(g[i].degree)].degree]   \* an irrational degree: not decided here
     ELSE IF pos = {} THEN [term |-> "", degree |-> Zero]
     ELSE LET best == CHOOSE i \in pos : \A j \in pos : Ge(g[i].degree, g[j].degree) /\ (Eq(g[i].degree, g[j].degree) => i <= j)
          IN [term |-> g[best].term.name, degree |-> g[best].degree]
\* Term.discretize(start, end, resolution, midpoints): the term sampled at the r midpoints of r equal cells, or at the r + 1
\* equidistant points from start to end inclusive (numpy.linspace)
Linspace(lo, hi, r) == [i \in 1..(r + 1) |-> Add(lo, Mul(Q(i - 1, r), Sub(hi, lo)))]
Discretize(t, lo, hi, r, mid) == LET xs == IF mid THEN Midpoints(lo, hi, r) ELSE Linspace(lo, hi, r) IN
                                 [i \in 1..Len(xs) |-> <<xs[i], MuX(t, xs[i])>>]
=============================================================================
