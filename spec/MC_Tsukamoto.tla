---------------------------- MODULE MC_Tsukamoto ----------------------------
(* C11: the Tsukamoto value of every monotonic term inverts its membership function.
   One state per (term, degree y); y ranges over fractions of the height strictly inside (0, h). *)
EXTENDS Terms, TLC, Json
CONSTANTS Palette, Emit
F == IF Palette = "dyadic" THEN { Zero, Q(1,4), Half, Q(3,4), One }
     ELSE { Q(1,10), Q(3,10), Q(45,100), Q(7,10), Q(95,100) }
Heights == IF Palette = "dyadic" THEN { One, Half, Q(3,4) } ELSE { One, Q(3,10), Q(7,10) }
Fracs == { Q(1,64), Q(1,8), Q(1,4), Q(9,32), Q(3,8), Q(1,2), Q(5,8), Q(23,32), Q(3,4), Q(7,8), Q(63,64), Q(1,32), Q(31,32) }
\* parameters that are not degenerate but lie within the library's comparison tolerance (0.001) of a degenerate value:
\* slopes next to 0, edges narrower than the tolerance
Gentle == IF Palette = "dyadic" THEN { Q(1,1024), Q(-1,2048) } ELSE { Q(8,10000), Q(-5,10000) }
Narrow == IF Palette = "dyadic" THEN { <<Zero, Q(1,1024)>>, <<One, Add(One, Q(1,1024))>> }
          ELSE { <<Q(3,10), Q(3008,10000)>>, <<Q(7,10), Q(7005,10000)>> }
Params(k) == IF k = "Sigmoid" THEN { <<i, s>> : i \in F, s \in {I(-4), I(-1), One, I(4), Q(1,4)} \cup Gentle }
             ELSE IF k \in {"SShape", "ZShape"} THEN { <<s, e>> \in F \X F : Lt(s, e) } \cup Narrow
             ELSE { <<s, e>> \in F \X F : s # e } \cup Narrow \cup { <<p[2], p[1]>> : p \in Narrow }
TermSet == UNION { { [k |-> k, p |-> p, h |-> h] : p \in Params(k), h \in Heights } : k \in MonotonicKinds }
VARIABLES t, y
vars == <<t, y>>
\* (the narrow edges carry denominators of 2^10: on them the degrees are the quarters, to stay inside TLC's 32-bit integers)
FracsOf(tt) == IF tt.k # "Sigmoid" /\ (<<tt.p[1], tt.p[2]>> \in Narrow \/ <<tt.p[2], tt.p[1]>> \in Narrow) THEN { Q(1,4), Half, Q(3,4) } ELSE Fracs
Init == t \in TermSet /\ y \in { Mul(t.h, f) : f \in FracsOf(t) }
Next == UNCHANGED vars
Spec == Init /\ [][Next]_vars
TEnv(tt, yy) == [x |-> KQ(yy), p |-> [i \in 1..Len(tt.p) |-> KQ(tt.p[i])], h |-> KQ(tt.h)]
Z(tt, yy) == Tsukamoto(tt, yy, TEnv(tt, yy)).v
\* where the inverse is rational the relation holds exactly on the model
InverseExact == IsQ(Z(t, y)) => (IsFin(QV(Z(t, y))) /\ MuX(t, QV(Z(t, y))) = y)
\* z is monotone in y in the direction of the term
MonotoneZ == \A f \in FracsOf(t) : LET y2 == Mul(t.h, f) IN
               (Lt(y, y2) /\ IsQ(Z(t, y)) /\ IsQ(Z(t, y2))) =>
                  IF Direction(t) = 1 THEN Lt(QV(Z(t, y)), QV(Z(t, y2))) ELSE Gt(QV(Z(t, y)), QV(Z(t, y2)))
EmitInv == Emit => PrintT(ToJson([k |-> t.k, p |-> t.p, h |-> t.h, y |-> y, piece |-> Tsukamoto(t, y, TEnv(t, y)).piece,
                                  z |-> Z(t, y), f |-> Tsukamoto(t, y, SymEnv(t)).v, dir |-> Direction(t)]))
=============================================================================
