---------------------------- MODULE Apa_Settings ----------------------------
(* Apalache instance of the Settings context machine of Settings.tla (C20), for what TLC's bounded exploration cannot give:
   from ANY well-typed state - any stack of up to 5 frames with arbitrary named keys and arbitrary snapshots, over 3 keys and
   3 values - one step of Next satisfies the action properties ExitRestores and EnterVisible.  Since the two properties are
   properties of single steps, this establishes them for histories of every length (the depth of the stack stays bounded by
   5, the domain of keys and values by the constants).  Checked with
       apalache-mc check --init=Init --next=Next --inv=StepOK --length=1
   The definitions repeat Settings.tla with type annotations (Apalache needs them; Unwind is a fold instead of a recursion).
   RestoreAll = TRUE is the canary: the check must then fail. *)
EXTENDS Integers, Sequences, Apalache

RestoreAll == FALSE
Keys == {1, 2, 3}
Vals == {0, 1, 2}

VARIABLES
  \* @type: Int -> Int;
  cur,
  \* @type: Seq({named: Set(Int), snap: Int -> Int});
  stack

\* @type: (Int -> Int, {named: Set(Int), snap: Int -> Int}) => Int -> Int;
Restore(c, fr) == [k \in Keys |-> IF RestoreAll \/ k \in fr.named THEN fr.snap[k] ELSE c[k]]

\* @type: (Set(Int), Int -> Int) => Bool;
Enter(named, vals) ==
  /\ named # {}
  /\ stack' = Append(stack, [named |-> named, snap |-> cur])
  /\ cur'   = [k \in Keys |-> IF k \in named THEN vals[k] ELSE cur[k]]
ExitOne ==
  /\ Len(stack) > 0
  /\ cur'   = Restore(cur, stack[Len(stack)])
  /\ stack' = SubSeq(stack, 1, Len(stack) - 1)
\* an exception caught when `lvl` contexts remain open: the frames above are left one after the other
\* @type: (Int -> Int, Int) => Int -> Int;
UnwoundTo(c, lvl) ==
  LET \* @type: (Int -> Int, Int) => Int -> Int;
      Step(acc, j) == LET i == Len(stack) + lvl + 1 - j IN IF i > lvl /\ i <= Len(stack) THEN Restore(acc, stack[i]) ELSE acc
  IN ApaFoldSeqLeft(Step, c, MkSeq(5, LAMBDA j : j + lvl))
\* @type: Int => Bool;
Raise(lvl) ==
  /\ Len(stack) > 0 /\ lvl < Len(stack) /\ lvl >= 0
  /\ cur' = UnwoundTo(cur, lvl)
  /\ stack' = SubSeq(stack, 1, lvl)
\* @type: (Int, Int) => Bool;
Assign(k, v) == cur' = [cur EXCEPT ![k] = v] /\ UNCHANGED stack

Next ==
  \/ \E named \in SUBSET Keys : \E vals \in [Keys -> Vals] : Len(stack) < 5 /\ Enter(named, vals)
  \/ ExitOne
  \/ \E lvl \in 0..4 : Raise(lvl)
  \/ \E k \in Keys : \E v \in Vals : Assign(k, v)

\* any well-typed state
Init ==
  /\ cur = Gen(3) /\ DOMAIN cur = Keys /\ \A k \in Keys : cur[k] \in Vals
  /\ stack = Gen(5)
  /\ \A i \in DOMAIN stack : stack[i].named \subseteq Keys /\ DOMAIN stack[i].snap = Keys /\ \A k \in Keys : stack[i].snap[k] \in Vals

LeftFrames == { j \in 1..5 : j > Len(stack') /\ j <= Len(stack) }
ExitRestores ==
  Len(stack') < Len(stack) =>
     /\ \A k \in Keys :
          IF \E j \in LeftFrames : k \in stack[j].named
          THEN \E j0 \in LeftFrames : k \in stack[j0].named /\ (\A i \in LeftFrames : (i < j0 => k \notin stack[i].named)) /\ cur'[k] = stack[j0].snap[k]
          ELSE cur'[k] = cur[k]
     /\ \A i \in DOMAIN stack' : stack'[i] = stack[i]
EnterVisible ==
  Len(stack') > Len(stack) =>
     /\ stack'[Len(stack')].snap = cur
     /\ \A k \in Keys \ stack'[Len(stack')].named : cur'[k] = cur[k]
StepOK == ExitRestores /\ EnterVisible
=============================================================================
