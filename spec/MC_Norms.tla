------------------------------ MODULE MC_Norms ------------------------------
(* C04: every norm on every pair of the dyadic grid k/G; the laws quantify over a third grid point.
   One state per (operator, a, b); TLC evaluates every invariant in every state. *)
EXTENDS Norms, TLC, Json
CONSTANTS G, Emit
Grid == { Q(k, G) : k \in 0..G }
VARIABLES op, a, b
vars == <<op, a, b>>
Init == op \in TNorms \cup SNorms /\ a \in Grid /\ b \in Grid
Next == UNCHANGED vars
Spec == Init /\ [][Next]_vars
V == Norm(op, a, b)
In01(x) == Le(Zero, x) /\ Le(x, One)
RangeOK == IF op = "UnboundedSum" THEN V = Add(a, b) ELSE In01(V)
Commutative == V = Norm(op, b, a)
Monotone == \A c \in Grid : Le(b, c) => Le(V, Norm(op, a, c))
Associative == (op \in TNorms \cup AssociativeSNorms \cup {"UnboundedSum"}) =>
                 \A c \in Grid : Norm(op, V, c) = Norm(op, a, Norm(op, b, c))
Identity == IF op \in TNorms THEN T(op, a, One) = a ELSE S(op, a, Zero) = a
Annihilator == IF op \in TNorms THEN T(op, a, Zero) = Zero ELSE (op \in BoundedSNorms => S(op, a, One) = One)
Bound == IF op \in TNorms THEN Le(V, XMin(a, b)) ELSE (op \in BoundedSNorms => Ge(V, XMax(a, b)))
Duality == op \in TNorms => S(Dual[op], a, b) = Sub(One, T(op, Sub(One, a), Sub(One, b)))
\* special values follow IEEE: NaN operands
NaNRules == /\ Norm(op, NaN, b) = Norm(op, b, NaN)
            /\ (op \in {"AlgebraicProduct", "Minimum", "Maximum", "AlgebraicSum", "UnboundedSum", "EinsteinProduct", "EinsteinSum", "NormalizedSum", "BoundedSum", "BoundedDifference"} => IsNaN(Norm(op, NaN, b)))
EmitInv == Emit => PrintT(ToJson([op |-> op, a |-> a, b |-> b, v |-> V, vn |-> Norm(op, NaN, b)]))
=============================================================================
