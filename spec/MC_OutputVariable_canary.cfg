SPECIFICATION Spec
CONSTANTS NaN = 99
  L = 3
  MaxSteps = 3
  Emit = FALSE
  DefaultFirst = TRUE
INVARIANT ValueIsPerRowCascade
VIEW View
CHECK_DEADLOCK FALSE
