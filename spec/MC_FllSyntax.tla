----------------------------- MODULE MC_FllSyntax -----------------------------
(* C14 on the model: for every engine e and every number of decimals d
     Import(Export(e, d)) = Canon(e, d)                 the text holds the engine (heights / weights within tolerance of 1 become 1)
     Export(Import(Export(e, d)), d) = Export(e, d)     exporting, importing and exporting again reproduces the text
     Import(v) = Canon(e, d) for every variant v        accepted spellings of the same engine normalise in one cycle
   Engines are enumerated component-wise (every term class x parameter pattern x height class, every activation
   method, defuzzifier, operator, flag pattern, rule weight x decimals) around a small base engine, or read from a
   case file (whole engines: seeded random ones, the projections of the shipped examples).  Every state is emitted
   with its text and two of its variants and replayed on the real exporter and importer. *)
EXTENDS FllSyntax, Json, IOUtils
CONSTANTS FromFile, Emit, Decs

Half(dec) == IF dec = 0 THEN 0 ELSE 5 * Pow10(dec - 1)
Pal(dec) == { ZeroN, Num(TRUE, 0, 0), OneN, Num(TRUE, 12, Half(dec)), Num(FALSE, 0, IF dec = 0 THEN 0 ELSE 1), Num(FALSE, 1000000, 0), Big(FALSE, "9223373136", 366403584, 0), Big(TRUE, "1180591620718", 485045248, 0), PInfN, NInfN, NanN }
\* 1, 0.5, 2.5, inside the tolerance of 1 (where the decimals allow it) and clearly outside it; the boundary itself is excluded by the property
Heights(dec) == { OneN, Num(FALSE, 0, Half(dec)), Num(FALSE, 2, Half(dec)), Num(FALSE, 1, Tol(dec) \div 2), Num(FALSE, 1, 5 * Tol(dec)), IF Tol(dec) \div 2 = 0 THEN OneN ELSE Num(FALSE, 0, Pow10(dec) - (Tol(dec) \div 2)) }
Base(j, dec) == Num(FALSE, j, Half(dec))
Tuples(a, dec) == IF a <= 2 THEN [1..a -> Pal(dec)]
                  ELSE { [j \in 1..a |-> IF j = q THEN x ELSE Base(j, dec)] : q \in 1..a, x \in Pal(dec) }
ParamSets(cls, dec) ==
  IF cls = "Function" THEN { <<>> }
  ELSE IF cls = "Discrete" THEN { <<>>, <<Base(1, dec), OneN>>, <<ZeroN, ZeroN, Base(1, dec), Num(FALSE, 0, Half(dec))>> } \cup { <<x, y>> : x \in Pal(dec), y \in {ZeroN, NanN} }
  ELSE IF cls = "Linear" THEN { <<>>, <<OneN>>, <<Base(1, dec), Num(TRUE, 0, Half(dec)), ZeroN>> } \cup { <<x, OneN>> : x \in Pal(dec) }
  ELSE Tuples(Arity[cls], dec)
Formulas == { <<"x">>, <<"2.000", "*", "x", "+", "a">>, <<"max", "(", "x", ",", "a", ")", "^", "2">> }
MkTerm(nm, cls, p, h, f) == [name |-> nm, cls |-> cls, p |-> p, h |-> h, f |-> f, fv |-> <<>>]
TermsOf(cls, dec) ==
  IF cls = "Function" THEN { MkTerm("t", cls, <<>>, OneN, f) : f \in Formulas }
                           \cup { [MkTerm("t", cls, <<>>, OneN, <<"c", "*", "x", "+", "d">>) EXCEPT !.fv = fv] :
                                    fv \in { <<[n |-> "c", v |-> x], [n |-> "d", v |-> OneN]>> : x \in Pal(dec) } \cup { <<[n |-> "d", v |-> ZeroN], [n |-> "c", v |-> Num(FALSE, 2, Half(dec))]>> } }
  ELSE { MkTerm("t", cls, p, h, <<>>) : p \in ParamSets(cls, dec), h \in (IF HasHeight(cls) THEN Heights(dec) ELSE {OneN}) }

TNorms == {"AlgebraicProduct", "BoundedDifference", "DrasticProduct", "EinsteinProduct", "HamacherProduct", "Minimum", "NilpotentMinimum"}
SNorms == {"AlgebraicSum", "BoundedSum", "DrasticSum", "EinsteinSum", "HamacherSum", "Maximum", "NilpotentMaximum", "NormalizedSum", "UnboundedSum"}
Tri(nm, dec) == MkTerm(nm, "Triangle", <<ZeroN, Num(FALSE, 0, Half(dec)), OneN>>, OneN, <<>>)
BaseIn(dec)  == [name |-> "a", desc |-> <<>>, enabled |-> TRUE, min |-> ZeroN, max |-> OneN, lockRange |-> FALSE, terms |-> <<Tri("t", dec)>>]
BaseOut(dec) == [name |-> "o", desc |-> <<>>, enabled |-> TRUE, min |-> ZeroN, max |-> OneN, lockRange |-> FALSE, terms |-> <<Tri("u", dec)>>,
                 aggr |-> "Maximum", defuzz |-> DefaultDefuzz("Centroid"), default |-> NanN, lockPrev |-> FALSE]
BaseRule == [toks |-> <<"if", "a", "is", "t", "then", "o", "is", "u">>, w |-> OneN]
BaseBlock == [name |-> "rb", desc |-> <<>>, enabled |-> TRUE, conj |-> "Minimum", disj |-> "Maximum", impl |-> "Minimum", act |-> DefaultAct("General"), rules |-> <<BaseRule>>]
BaseEngine(dec) == [name |-> "e", desc |-> <<>>, inputs |-> <<BaseIn(dec)>>, outputs |-> <<BaseOut(dec)>>, blocks |-> <<BaseBlock>>]
Words == { <<>>, <<"one">>, <<"a", "longer", "description", "of", "it">> }

Activations(dec) ==
  { DefaultAct(c) : c \in {"General", "Proportional"} } \cup {NoAct}
  \cup { [DefaultAct(c) EXCEPT !.n = n, !.thr = t] : c \in {"First", "Last"}, n \in {0, 1, 3}, t \in {ZeroN, Num(FALSE, 0, Half(dec)), OneN} }
  \cup { [DefaultAct(c) EXCEPT !.n = n] : c \in {"Highest", "Lowest"}, n \in {0, 1, 3} }
  \cup { [DefaultAct("Threshold") EXCEPT !.cmp = c, !.thr = t] : c \in {"<", "<=", "==", "!=", ">=", ">"}, t \in {ZeroN, Num(FALSE, 0, Half(dec)), NanN} }
Defuzzifiers ==
  {NoDefuzz} \cup { [DefaultDefuzz(c) EXCEPT !.res = r] : c \in IntegralCls, r \in {1, 100, 1000, 1001} }
  \cup { [DefaultDefuzz(c) EXCEPT !.type = t] : c \in WeightedCls, t \in {"Automatic", "TakagiSugeno", "Tsukamoto"} }

\* engines of a group (the group is chosen in Init so that TLC spreads the work over its workers)
Engines(g, dec) ==
  LET b == BaseEngine(dec) IN
  IF g \in TermClasses THEN
       { [b EXCEPT !.inputs[1].terms = <<t>>] : t \in TermsOf(g, dec) }
       \cup { [b EXCEPT !.outputs[1].terms = <<[t EXCEPT !.name = "u"]>>] : t \in { MkTerm("t", g, p, h, f) : p \in {CHOOSE q \in ParamSets(g, dec) : TRUE}, h \in (IF HasHeight(g) THEN {OneN, Num(FALSE, 2, Half(dec))} ELSE {OneN}), f \in {IF g = "Function" THEN <<"x">> ELSE <<>>} } }
  ELSE IF g = "activation" THEN { [b EXCEPT !.blocks[1].act = a] : a \in Activations(dec) }
  ELSE IF g = "defuzzifier" THEN { [b EXCEPT !.outputs[1].defuzz = d] : d \in Defuzzifiers }
  ELSE IF g = "operators" THEN
       { [b EXCEPT !.blocks[1].conj = n] : n \in TNorms \cup {"none"} } \cup { [b EXCEPT !.blocks[1].impl = n] : n \in TNorms \cup {"none"} }
       \cup { [b EXCEPT !.blocks[1].disj = n] : n \in SNorms \cup {"none"} } \cup { [b EXCEPT !.outputs[1].aggr = n] : n \in SNorms \cup {"none"} }
  ELSE IF g = "input-flags" THEN
       { [b EXCEPT !.inputs[1].enabled = f[1], !.inputs[1].lockRange = f[2], !.inputs[1].desc = w, !.inputs[1].min = r[1], !.inputs[1].max = r[2]] :
           f \in [1..2 -> BOOLEAN], w \in Words, r \in { <<NInfN, PInfN>>, <<Num(TRUE, 1, Half(dec)), Num(FALSE, 2, 0)>>, <<NanN, NanN>> } }
  ELSE IF g = "output-flags" THEN
       { [b EXCEPT !.outputs[1].enabled = f[1], !.outputs[1].lockRange = f[2], !.outputs[1].lockPrev = f[3], !.outputs[1].default = d, !.outputs[1].desc = w] :
           f \in [1..3 -> BOOLEAN], d \in {NanN, ZeroN, Num(TRUE, 0, Half(dec)), PInfN}, w \in {<<>>, <<"out">>} }
  ELSE IF g = "block-flags" THEN
       { [b EXCEPT !.blocks[1].enabled = f, !.blocks[1].desc = w, !.name = nm, !.desc = w2] : f \in BOOLEAN, w \in Words, nm \in {"", "e"}, w2 \in {<<>>, <<"an", "engine">>} }
  ELSE IF g = "rules" THEN
       { [b EXCEPT !.blocks[1].rules = rs] : rs \in { <<>> } \cup { <<[BaseRule EXCEPT !.w = w]>> : w \in Heights(dec) \cup {ZeroN} }
                                                     \cup { <<[BaseRule EXCEPT !.w = w], [toks |-> <<"if", "a", "is", "not", "t", "or", "a", "is", "very", "t", "then", "o", "is", "u">>, w |-> OneN]>> : w \in Heights(dec) }
                                                     \* parentheses that override the precedence of `and` over `or`, and redundant ones
                                                     \cup { <<[toks |-> <<"if", "(", "a", "is", "t", "or", "a", "is", "not", "t", ")", "and", "a", "is", "very", "t", "then", "o", "is", "u">>, w |-> w]>> : w \in {OneN, Num(FALSE, 0, Half(dec))} }
                                                     \cup { <<[toks |-> <<"if", "a", "is", "t", "and", "(", "a", "is", "not", "t", "or", "(", "a", "is", "very", "t", ")", ")", "then", "o", "is", "u">>, w |-> OneN], BaseRule>> } }
  ELSE \* "shape": no variables, no blocks, several of each
       { [b EXCEPT !.inputs = ins, !.outputs = outs, !.blocks = bs] :
           ins \in { <<>>, <<BaseIn(dec), [BaseIn(dec) EXCEPT !.name = "b", !.terms = <<>>]>> },
           outs \in { <<>>, <<BaseOut(dec), [BaseOut(dec) EXCEPT !.name = "p", !.terms = <<>>, !.defuzz = NoDefuzz]>> },
           bs \in { <<>>, <<[BaseBlock EXCEPT !.rules = <<>>], [BaseBlock EXCEPT !.name = "second", !.rules = <<>>]>> } }
Groups == TermClasses \cup {"activation", "defuzzifier", "operators", "input-flags", "output-flags", "block-flags", "rules", "shape"}
FileCases == IF FromFile THEN JsonDeserialize(IOEnv.VERIF_CASES) ELSE <<>>

VARIABLES eng, dec, grp, ready, idx
vars == <<eng, dec, grp, ready, idx>>
Init == /\ ready = FALSE /\ eng = EmptyEngine /\ dec = 3 /\ idx = 0
        /\ grp \in (IF FromFile THEN { <<g>> : g \in 1..64 } ELSE { <<g, d>> : g \in Groups, d \in Decs })
Next == /\ ~ready /\ ready' = TRUE /\ UNCHANGED grp
        /\ IF FromFile THEN \E i \in { j \in 1..Len(FileCases) : j % 64 = grp[1] - 1 } : eng' = FileCases[i].engine /\ dec' = FileCases[i].dec /\ idx' = i
           ELSE eng' \in Engines(grp[1], grp[2]) /\ dec' = grp[2] /\ idx' = 0
Spec == Init /\ [][Next]_vars

Text == Export(eng, dec)
RoundTrip == ready => Import(Text) = Canon(eng, dec)
TextStable == ready => Export(Import(Text), dec) = Text
VariantsNormalise == ready => \A i \in 1..Len(VariantNames) : Import(Variants(Text, dec)[i]) = Canon(eng, dec)
\* which single variant accompanies the case (all are checked on the model; two are replayed per case)
Pick == ((Len(Text) + Len(eng.inputs) + (IF eng.inputs # <<>> /\ eng.inputs[1].terms # <<>> THEN Len(eng.inputs[1].terms[1].p) ELSE 0)) % 7) + 1
\* code -> spec: a text recorded from the real exporter (lexed into tokens) is validated against the specification:
\* it must be, spelling for spelling, the text the specification exports for the projected engine, and the
\* specification's importer must read the projected engine back from it
LineStrs(lines) == [j \in 1..Len(lines) |-> <<lines[j].ind, lines[j].key, Strs(lines[j].val)>>]
Verdict == IF FromFile /\ "text" \in DOMAIN FileCases[idx]
           THEN [text_is_export |-> LineStrs(FileCases[idx].text) = LineStrs(Text), import_reads_engine |-> Import(FileCases[idx].text) = Canon(eng, dec)]
           ELSE [text_is_export |-> TRUE, import_reads_engine |-> TRUE]
EmitInv == (Emit /\ ready) =>
   PrintT(ToJson([engine |-> eng, dec |-> dec, verdict |-> Verdict, idx |-> idx, canon |-> Canon(eng, dec), lines |-> Text,
                  variants |-> << [name |-> VariantNames[Pick], lines |-> Variants(Text, dec)[Pick]], [name |-> VariantNames[8], lines |-> Variants(Text, dec)[8]] >>]))
=============================================================================
